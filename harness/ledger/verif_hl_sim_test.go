package ledger

// HL simulator: drives a REAL ledger (evaluator, block queue, trackers, storage) with a
// PRNG-generated transaction history and PRNG-chosen schedule actions (forced tracker
// commits, reloads, close/reopen from disk), while keeping the reference model in step.

import (
	"context"
	"encoding/binary"
	"fmt"
	"io"
	"os"
	"path/filepath"
	"sync"
	"testing"

	"github.com/algorand/go-algorand/agreement"
	"github.com/algorand/go-algorand/config"
	"github.com/algorand/go-algorand/crypto"
	"github.com/algorand/go-algorand/data/basics"
	"github.com/algorand/go-algorand/data/bookkeeping"
	"github.com/algorand/go-algorand/data/committee"
	"github.com/algorand/go-algorand/data/transactions"
	"github.com/algorand/go-algorand/data/transactions/logic"
	"github.com/algorand/go-algorand/data/transactions/verify"
	"github.com/algorand/go-algorand/data/txntest"
	"github.com/algorand/go-algorand/ledger/eval"
	"github.com/algorand/go-algorand/ledger/ledgercore"
	"github.com/algorand/go-algorand/logging"
	"github.com/algorand/go-algorand/protocol"
	"verif.local/kit"
)

// ---- protocol variants ------------------------------------------------------------

var hlProtoOnce sync.Once

const (
	hlProtoFuture      = protocol.ConsensusVersion("verif-hl-future")       // ConsensusFuture, stock windows
	hlProtoShort       = protocol.ConsensusVersion("verif-hl-future-short") // reduced lookback (1,2,4), MaxTxnLife 6
	hlProtoMid         = protocol.ConsensusVersion("verif-hl-future-mid")   // reduced lookback (2,2,8), MaxTxnLife 12
	hlProtoCurrentMid  = protocol.ConsensusVersion("verif-hl-current-mid")  // ConsensusCurrentVersion with (2,2,8)
	hlProtoShortNoSP   = protocol.ConsensusVersion("verif-hl-future-short-nosp")
	hlMaxVoteKeyLength = 40 // rounds a generated participation key stays valid (short, so expiry happens)
)

// hlRegisterProtos registers reduced-window protocol variants under private names (as upstream
// tests do). Must run before any ledger goroutine exists (config.Consensus is a plain map).
func hlRegisterProtos() {
	hlProtoOnce.Do(func() {
		mk := func(base protocol.ConsensusVersion, sl, sri uint64, life uint64, spInterval uint64) config.ConsensusParams {
			p := config.Consensus[base]
			p.ApprovedUpgrades = map[protocol.ConsensusVersion]uint64{}
			if sl > 0 {
				p.SeedLookback = sl
				p.SeedRefreshInterval = sri
				p.MaxBalLookback = 2 * sl * sri
				p.CatchpointLookback = p.MaxBalLookback
			}
			if life > 0 {
				p.MaxTxnLife = life
				p.DeeperBlockHeaderHistory = 1
			}
			p.RewardsRateRefreshInterval = 16
			p.StateProofInterval = spInterval
			if spInterval > 0 {
				p.StateProofVotersLookback = 2
				p.StateProofTopVoters = 64
				p.StateProofMaxRecoveryIntervals = 2
			}
			p.Payouts.ChallengeInterval = 16
			p.Payouts.ChallengeGracePeriod = 4
			p.Payouts.ChallengeBits = 2
			return p
		}
		config.Consensus[hlProtoFuture] = mk(protocol.ConsensusFuture, 0, 0, 0, config.Consensus[protocol.ConsensusFuture].StateProofInterval)
		config.Consensus[hlProtoShort] = mk(protocol.ConsensusFuture, 1, 2, 6, 16)
		config.Consensus[hlProtoMid] = mk(protocol.ConsensusFuture, 2, 2, 12, 16)
		config.Consensus[hlProtoCurrentMid] = mk(protocol.ConsensusCurrentVersion, 2, 2, 12, 16)
		config.Consensus[hlProtoShortNoSP] = mk(protocol.ConsensusFuture, 1, 2, 6, 0)
	})
}

// ---- configuration -------------------------------------------------------------------

type hlConfig struct {
	Proto              protocol.ConsensusVersion
	MaxAcctLookback    uint64
	CatchpointInterval uint64
	CatchpointTracking int64
	Archival           bool
	OnDisk             bool
	Storage            string // "sqlite" or "pebbledb"
	NAccounts          int
	NOnline            int
	Profile            string // generator profile
}

func (c hlConfig) String() string {
	return fmt.Sprintf("proto=%s lookback=%d cpi=%d archival=%v disk=%v store=%s", c.Proto, c.MaxAcctLookback, c.CatchpointInterval, c.Archival, c.OnDisk, c.Storage)
}

func hlRandomConfig(r *kit.Rand) hlConfig {
	c := hlConfig{
		Proto:           []protocol.ConsensusVersion{hlProtoShort, hlProtoMid, hlProtoCurrentMid, hlProtoShort}[r.Intn(4)],
		MaxAcctLookback: []uint64{1, 2, 4, 16}[r.Intn(4)],
		Archival:        r.Bool(),
		OnDisk:          true,
		Storage:         "sqlite",
		NAccounts:       12,
		NOnline:         4,
	}
	return c
}

// ---- universe ---------------------------------------------------------------------------

type hlAccount struct {
	Addr basics.Address
	Name string
}

type hlUniverse struct {
	sink, pool basics.Address
	keyed      []basics.Address // funded at genesis
	fresh      []basics.Address // unfunded addresses that may receive money later
	partKeys   map[basics.Address]int
}

func hlAddr(tag string, i int) basics.Address {
	var seed crypto.Seed
	copy(seed[:], tag)
	binary.BigEndian.PutUint32(seed[28:], uint32(i))
	s := crypto.GenerateSignatureSecrets(seed)
	return basics.Address(s.SignatureVerifier)
}

// ---- simulator ----------------------------------------------------------------------------

type hlSim struct {
	t    testing.TB
	c    *kit.Ctx
	r    *kit.Rand
	cfg  hlConfig
	lcfg config.Local

	dir     string
	dbName  string
	genesis ledgercore.InitState
	log     logging.Logger

	l *Ledger
	m *hlModel
	u *hlUniverse
	g *hlGen

	// monitors called after each block was added to the ledger and applied to the model
	onBlock []func(vb *ledgercore.ValidatedBlock)
	// trace of schedule actions (part of every witness)
	trace   []string
	traceMu sync.Mutex
	// rejected counts per reason class
	stats map[string]int
	// when set, every group offered to the evaluator is recorded with its outcome
	lastBlockGroups []hlGroupOutcome
	// accounts that never propose (so that they become absent)
	noPropose map[basics.Address]bool
	// when set, called by step() after the PRNG-chosen groups to offer further groups
	extraOffer func(ev *eval.BlockEvaluator)
	// rounds right after a commit boundary of a big flush: per-property lookups probe them
	probeRounds []basics.Round
}

type hlGroupOutcome struct {
	Group []transactions.SignedTxn
	Kind  string
	Err   error
}

func hlDiscardLogger() logging.Logger {
	lg := logging.NewLogger()
	lg.SetOutput(io.Discard)
	lg.SetLevel(logging.Error)
	return lg
}

func hlNewSim(t testing.TB, c *kit.Ctx, r *kit.Rand, cfg hlConfig) *hlSim {
	hlRegisterProtos()
	s := &hlSim{t: t, c: c, r: r, cfg: cfg, stats: map[string]int{}}
	s.dir = c.Scratch("hl")
	s.dbName = filepath.Join(s.dir, "ledger")
	s.log = hlDiscardLogger()
	if cfg.NAccounts == 0 {
		cfg.NAccounts = 12
		s.cfg.NAccounts = 12
	}
	u := &hlUniverse{partKeys: map[basics.Address]int{}}
	u.sink = hlAddr("sink", 0)
	u.pool = hlAddr("pool", 0)
	accts := map[basics.Address]basics.AccountData{}
	proto := config.Consensus[cfg.Proto]
	for i := 0; i < cfg.NAccounts; i++ {
		a := hlAddr("acct", i)
		u.keyed = append(u.keyed, a)
		ad := basics.AccountData{MicroAlgos: basics.MicroAlgos{Raw: 50_000_000_000 + uint64(i)*1_000_000_007}, Status: basics.Offline}
		if i < cfg.NOnline {
			ad.Status = basics.Online
			ad.VoteFirstValid = 0
			ad.VoteLastValid = basics.Round(20 + 15*i) // staggered expiry
			ad.VoteKeyDilution = 10
			r.Fill(ad.VoteID[:])
			r.Fill(ad.SelectionID[:])
			r.Fill(ad.StateProofID[:])
			// (genesis allocations cannot carry IncentiveEligible; accounts become eligible through keyreg with the fee)
			// one very large online account so that totals/circulation are dominated by stake
			if i == 0 {
				ad.MicroAlgos.Raw = 4_000_000_000_000_000
			}
		}
		accts[a] = ad
	}
	for i := 0; i < 8; i++ {
		u.fresh = append(u.fresh, hlAddr("fresh", i))
	}
	accts[u.sink] = basics.AccountData{MicroAlgos: basics.MicroAlgos{Raw: 10_000_000_000}, Status: basics.NotParticipating}
	accts[u.pool] = basics.AccountData{MicroAlgos: basics.MicroAlgos{Raw: 900_000_000_000_000}, Status: basics.NotParticipating}
	s.u = u

	var genHash crypto.Digest
	r.Fill(genHash[:])
	gb := bookkeeping.MakeGenesisBalances(accts, u.sink, u.pool)
	genBlock, err := bookkeeping.MakeGenesisBlock(cfg.Proto, gb, "verif-hl", genHash)
	if err != nil {
		c.Harness("genesis block: %v", err)
	}
	s.genesis = ledgercore.InitState{Block: genBlock, Accounts: gb.Balances, GenesisHash: genHash}
	_ = proto

	lc := config.GetDefaultLocal()
	lc.Archival = cfg.Archival
	lc.MaxAcctLookback = cfg.MaxAcctLookback
	lc.CatchpointInterval = cfg.CatchpointInterval
	lc.CatchpointTracking = cfg.CatchpointTracking
	if cfg.Storage != "" {
		lc.StorageEngine = cfg.Storage
	}
	s.lcfg = lc
	s.open()
	s.m = hlNewModel()
	s.m.initGenesis(genBlock.BlockHeader, gb.Balances)
	s.g = hlNewGen(s)
	return s
}

func (s *hlSim) open() {
	l, err := OpenLedger(s.log, s.dbName, !s.cfg.OnDisk, s.genesis, s.lcfg)
	if err != nil {
		s.c.Harness("OpenLedger: %v", err)
	}
	s.l = l
}

func (s *hlSim) close() {
	if s.l != nil {
		s.l.Close()
		s.l = nil
	}
	os.RemoveAll(s.dir)
}

func (s *hlSim) tr(format string, a ...any) {
	s.traceMu.Lock()
	defer s.traceMu.Unlock()
	if len(s.trace) < 4000 {
		s.trace = append(s.trace, fmt.Sprintf(format, a...))
	}
}

// tail of the schedule trace for witnesses (readers may ask while the writer appends)
func (s *hlSim) traceTail(n int) []string {
	s.traceMu.Lock()
	defer s.traceMu.Unlock()
	t := s.trace
	if len(t) > n {
		t = t[len(t)-n:]
	}
	return append([]string(nil), t...)
}

// startEval starts a generating+validating evaluator for the next round.
func (s *hlSim) startEval() (*eval.BlockEvaluator, error) {
	rnd := s.l.Latest()
	hdr, err := s.l.BlockHdr(rnd)
	if err != nil {
		return nil, err
	}
	next := bookkeeping.MakeBlock(hdr).BlockHeader
	next.TimeStamp = hdr.TimeStamp + 1
	return eval.StartEvaluator(s.l, next, eval.EvaluatorOptions{Generate: true, Validate: true, Tracer: logic.EvalErrorDetailsTracer{}})
}

func (s *hlSim) validateNoSig(blk bookkeeping.Block) (*ledgercore.ValidatedBlock, error) {
	save := s.l.verifiedTxnCache
	defer func() { s.l.verifiedTxnCache = save }()
	s.l.verifiedTxnCache = verify.GetMockedCache(true)
	return s.l.Validate(context.Background(), blk, nil)
}

// offer offers one group to the evaluator (fills defaults and group id first).
func (s *hlSim) offer(ev *eval.BlockEvaluator, kind string, txns ...*txntest.Txn) error {
	proto := ev.ConsensusParams()
	for _, tx := range txns {
		if tx.GenesisHash.IsZero() {
			tx.GenesisHash = s.l.GenesisHash()
		}
		if tx.FirstValid == 0 {
			tx.FirstValid = ev.Round()
		}
		tx.FillDefaults(proto)
	}
	var stxns []transactions.SignedTxn
	if len(txns) == 1 {
		stxns = []transactions.SignedTxn{txns[0].SignedTxn()}
	} else {
		stxns = txntest.Group(txns...)
	}
	return s.offerSigned(ev, kind, stxns)
}

func (s *hlSim) offerSigned(ev *eval.BlockEvaluator, kind string, stxns []transactions.SignedTxn) error {
	err := ev.TestTransactionGroup(stxns)
	if err == nil {
		err = ev.TransactionGroup(transactions.WrapSignedTxnsWithAD(stxns)...)
	}
	s.lastBlockGroups = append(s.lastBlockGroups, hlGroupOutcome{Group: stxns, Kind: kind, Err: err})
	if err != nil {
		s.stats["rejected:"+kind]++
	} else {
		s.stats["accepted:"+kind]++
	}
	return err
}

// pickProposer chooses the block proposer the way agreement could: an online account.
func (s *hlSim) pickProposer() (basics.Address, bool) {
	rnd := s.m.latest
	var online []basics.Address
	for _, a := range s.u.keyed {
		d := s.m.acct(rnd, a)
		if d.Status == basics.Online && !d.VoteID.IsEmpty() && !s.noPropose[a] {
			online = append(online, a)
		}
	}
	if len(online) == 0 || s.r.Chance(1, 6) {
		return s.u.sink, false
	}
	a := online[s.r.Intn(len(online))]
	return a, s.m.acct(rnd, a).IncentiveEligible
}

// finishBlock generates, validates and adds the block; updates the model; runs monitors.
func (s *hlSim) finishBlock(ev *eval.BlockEvaluator) (*ledgercore.ValidatedBlock, error) {
	proto := ev.ConsensusParams()
	prp, eligible := s.pickProposer()
	var participating []basics.Address
	if prp != s.u.sink {
		participating = []basics.Address{prp}
	}
	ub, err := ev.GenerateBlock(participating)
	if err != nil {
		return nil, fmt.Errorf("GenerateBlock: %w", err)
	}
	var seed committee.Seed
	s.r.Fill(seed[:])
	var blk bookkeeping.Block
	if proto.Payouts.Enabled {
		if prp != s.u.sink {
			// as agreement does: a proposer that closed its account inside this block gets no payout
			blk = ub.FinishBlock(seed, prp, eligible)
		} else {
			blk = ub.UnfinishedBlock().WithProposer(seed, prp, eligible)
		}
	} else {
		blk = ub.UnfinishedBlock().WithProposer(seed, basics.Address{}, false)
	}
	vb, err := s.validateNoSig(blk)
	if err != nil {
		return nil, fmt.Errorf("Validate of generated block: %w", err)
	}
	if err := s.addValidated(vb); err != nil {
		return nil, err
	}
	return vb, nil
}

func (s *hlSim) addValidated(vb *ledgercore.ValidatedBlock) error {
	if s.r.Chance(1, 4) {
		// the other public write path: the ledger re-evaluates the block itself
		if err := s.l.AddBlock(vb.Block(), agreement.Certificate{}); err != nil {
			return fmt.Errorf("AddBlock: %w", err)
		}
	} else if err := s.l.AddValidatedBlock(*vb, agreement.Certificate{}); err != nil {
		return fmt.Errorf("AddValidatedBlock: %w", err)
	}
	s.m.apply(vb.Block().BlockHeader, vb.Delta())
	s.tr("block %d txns=%d", vb.Block().Round(), len(vb.Block().Payset))
	for _, f := range s.onBlock {
		f(vb)
	}
	return nil
}

// step generates one block of PRNG-chosen groups and adds it.
func (s *hlSim) step() *ledgercore.ValidatedBlock {
	s.lastBlockGroups = s.lastBlockGroups[:0]
	ev, err := s.startEval()
	if err != nil {
		s.c.Harness("StartEvaluator: %v", err)
	}
	n := s.g.groupsPerBlock()
	for i := 0; i < n; i++ {
		s.g.offerRandom(ev)
	}
	if s.extraOffer != nil {
		s.extraOffer(ev)
	}
	vb, err := s.finishBlock(ev)
	if err != nil {
		// A block made of groups the evaluator accepted must be producible and must validate (C20).
		s.c.Violation("generated-block-rejected", map[string]any{"round": s.m.latest + 1, "error": err.Error(), "config": s.cfg.String(), "trace": s.traceTail(30)})
		s.c.Harness("cannot continue after %v", err)
	}
	return vb
}

// emptyBlock adds a block without transactions.
func (s *hlSim) emptyBlock() *ledgercore.ValidatedBlock {
	s.lastBlockGroups = s.lastBlockGroups[:0]
	ev, err := s.startEval()
	if err != nil {
		s.c.Harness("StartEvaluator: %v", err)
	}
	vb, err := s.finishBlock(ev)
	if err != nil {
		s.c.Harness("empty block: %v", err)
	}
	return vb
}

// ---- schedule actions ----------------------------------------------------------------------

// waitBlockQueue waits until the block queue syncer has written all added blocks.
func (s *hlSim) waitBlockQueue() {
	s.l.WaitForCommit(s.l.Latest())
}

// flush forces a tracker commit of everything eligible. The task is handed to the ledger's own
// commit goroutine (trackers.deferredCommits), so there is still exactly one committer as in
// production: calling commitRound from the harness while the background committer runs made two
// committers write the same range (UNIQUE constraint errors) — a harness artefact, fixed here.
// Unlike scheduleCommit the flush-interval heuristic is bypassed ("forced").
func (s *hlSim) flush() basics.Round {
	s.waitBlockQueue()
	l := s.l
	l.trackerMu.Lock() // same lock notifyCommit/committedUpTo take while scheduling
	l.trackers.waitAccountsWriting()
	rnd := l.Latest()
	maxLookback := basics.Round(0)
	for _, lt := range l.trackers.trackers {
		_, lookback := lt.committedUpTo(rnd)
		if lookback > maxLookback {
			maxLookback = lookback
		}
	}
	dcc := &deferredCommitContext{deferredCommitRange: deferredCommitRange{lookback: maxLookback}}
	l.trackers.mu.RLock()
	dbRound := l.trackers.dbRound
	cdr := l.trackers.produceCommittingTask(rnd, dbRound, &dcc.deferredCommitRange)
	if cdr != nil {
		dcc.deferredCommitRange = *cdr
	} else {
		dcc = nil
	}
	l.trackers.mu.RUnlock()
	if dcc != nil {
		l.trackers.accountsWriting.Add(1)
		l.trackers.deferredCommits <- dcc
	}
	l.trackers.waitAccountsWriting()
	l.trackerMu.Unlock()
	s.tr("flush -> dbRound %d (latest %d)", l.LatestTrackerCommitted(), rnd)
	return l.LatestTrackerCommitted()
}

// settle lets the background committer finish whatever it has scheduled.
func (s *hlSim) settle() {
	s.waitBlockQueue()
	hlWaitAccountsWriting(s.l)
}

// hlWaitAccountsWriting waits for the scheduled tracker commits the way the ledger itself does
// (reloadLedger): under trackerMu, which serializes the wait with scheduleCommit's
// accountsWriting.Add(1). Waiting without it is a WaitGroup misuse that the race detector
// reports (harness artefact, seen once in the C14 thorough race lane).
func hlWaitAccountsWriting(l *Ledger) {
	l.trackerMu.Lock()
	l.trackers.waitAccountsWriting()
	l.trackerMu.Unlock()
}

func (s *hlSim) reload() {
	s.settle()
	if err := s.l.reloadLedger(); err != nil {
		s.c.Violation("reload-failed", map[string]any{"error": err.Error(), "trace": s.traceTail(30)})
		s.c.Harness("reloadLedger: %v", err)
	}
	s.tr("reload (latest %d db %d)", s.l.Latest(), s.l.LatestTrackerCommitted())
}

// reopen closes the ledger and opens it again from disk.
func (s *hlSim) reopen() {
	if !s.cfg.OnDisk {
		s.reload()
		return
	}
	s.settle()
	latest := s.l.Latest()
	s.l.Close()
	l, err := OpenLedger(s.log, s.dbName, false, s.genesis, s.lcfg)
	if err != nil {
		s.c.Violation("reopen-failed", map[string]any{"error": err.Error(), "trace": s.traceTail(30)})
		s.c.Harness("reopen: %v", err)
	}
	s.l = l
	if l.Latest() != latest {
		s.c.Violation("reopen-lost-blocks", map[string]any{"before": latest, "after": l.Latest(), "trace": s.traceTail(30)})
	}
	s.tr("reopen (latest %d db %d)", s.l.Latest(), s.l.LatestTrackerCommitted())
}

// scheduleAction performs one PRNG-chosen schedule action after a block.
func (s *hlSim) scheduleAction() string {
	switch s.r.Pick([]int{40, 20, 14, 6, 5, 5, 10}) {
	case 0:
		return "none"
	case 1:
		s.waitBlockQueue()
		return "wait-bq"
	case 2:
		s.flush()
		return "flush"
	case 3:
		s.settle()
		s.l.FlushCaches()
		s.tr("flush-caches")
		return "flush-caches"
	case 4:
		s.reload()
		return "reload"
	case 5:
		s.reopen()
		return "reopen"
	default:
		s.settle()
		return "settle"
	}
}
