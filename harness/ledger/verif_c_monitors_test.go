package ledger

// Block-monitor checks over HL histories:
//   C18 money conservation, C21 minimum balance, C22 asset supply, C23 box/schema accounting,
//   C12 reported totals equal the sum over accounts.
// All share the simulator; each test owns a set of finding classes.

import (
	"fmt"
	"testing"

	"github.com/algorand/go-algorand/data/basics"
	"github.com/algorand/go-algorand/ledger/ledgercore"
	"github.com/algorand/go-algorand/protocol"
	"verif.local/kit"
)

type cmonSpec struct {
	prop, part, profile string
	owned               map[string]bool
	rule                string
	require             map[string]int64
	stream              uint64
	extra               func(s *hlSim, vb *ledgercore.ValidatedBlock)
}

func cmonRun(t *testing.T, sp cmonSpec) {
	c := kit.Start(t, sp.prop, sp.part)
	defer c.Finish()
	c.Rule(sp.rule)
	c.Assume("state after each block is taken from the validated block's StateDelta (what the ledger commits); the universe of addresses is closed (every address that ever appeared)")
	nh := c.N(5, 60)
	blocks := c.N(90, 260)
	for h := 0; h < nh && c.Violations() < 5; h++ {
		r := c.Rand(sp.stream, uint64(h))
		cfg := hlRandomConfig(r)
		cfg.Profile = sp.profile
		cfg.OnDisk = false
		if h%3 == 2 {
			cfg.Proto = hlProtoFuture
		}
		s := hlNewSim(t, c, r, cfg)
		s.onBlock = append(s.onBlock, func(vb *ledgercore.ValidatedBlock) {
			c.Eval(1)
			s.report(s.auditBlock(vb), sp.owned)
			kinds := map[protocol.TxType]int{}
			for _, g := range s.lastBlockGroups {
				if g.Err == nil {
					for _, tx := range g.Group {
						kinds[tx.Txn.Type]++
					}
				}
			}
			c.Distinct(fmt.Sprintf("%s|%v", sp.prop, kinds))
			if sp.extra != nil {
				sp.extra(s, vb)
			}
		})
		for b := 0; b < blocks; b++ {
			s.step()
			act := s.scheduleAction()
			c.Count("schedule."+act, 1)
		}
		for k, v := range s.stats {
			c.Count("gen."+k, v)
		}
		if h < 2 {
			c.Sample(map[string]any{"history": h, "config": cfg.String(), "blocks": blocks, "accepted": fmt.Sprint(s.stats)})
		}
		s.close()
	}
	for k, v := range sp.require {
		c.Require(k, v)
	}
}

func TestVerifC18(t *testing.T) {
	cmonRun(t, cmonSpec{prop: "C18", part: "conservation", profile: "money", stream: 18,
		owned:   map[string]bool{"supply-changed": true, "totals-all-changed": true},
		rule:    "HL histories weighted toward closes, fee-heavy groups, inner payments/closes from apps, keyreg eligibility fees, proposer payouts, rewards-level changes; on every committed block the sum over ALL accounts of balance incl. pending rewards must equal the sum before the block, and the ledger's Totals(r).All() must be the same constant; distinct = distinct multisets of transaction kinds per block",
		require: map[string]int64{"audit.supply_checked": 100, "gen.accepted:payclose": 3, "gen.accepted:inner": 3},
		extra: func(s *hlSim, vb *ledgercore.ValidatedBlock) {
			r := vb.Block().Round()
			tot, err := s.l.Totals(r)
			if err != nil {
				return
			}
			want := s.m.supply(0)
			if tot.All().Raw != want.Uint64() {
				s.c.Violation("totals-all-changed", map[string]any{"round": r, "ledger_totals_all": tot.All().Raw, "genesis_supply": want.String(), "trace": s.traceTail(20)})
			}
		}})
}

func TestVerifC21(t *testing.T) {
	cmonRun(t, cmonSpec{prop: "C21", part: "minbalance", profile: "apps", stream: 21,
		owned:   map[string]bool{"below-min-balance": true},
		rule:    "HL histories with opt-in/opt-out churn, payments leaving exactly min balance ±1, app creation with schemas/extra pages, box create/resize, inner payments draining app accounts; after every block each modified non-special, non-empty account must hold at least the minimum balance recomputed independently from the model's resources (assets, apps, schemas, extra pages, boxes) and the protocol constants; distinct = distinct resource-count vectors of accounts within 1000 µAlgos of their minimum",
		require: map[string]int64{"audit.minbalance_checked": 300, "audit.within_1000_of_min": 2}})
}

func TestVerifC22Supply(t *testing.T) {
	cmonRun(t, cmonSpec{prop: "C22", part: "supply", profile: "assets", stream: 22,
		owned:   map[string]bool{"asset-supply": true},
		rule:    "HL histories weighted toward the asset lifecycle (create incl. total 2^64-1 and default-frozen, opt-in, transfer of 0/1/all/all+1, clawback, freeze, close-out incl. to creator, reconfigure, destroy, and atomic groups in which a holder closes out and a later member of the same group spends from / receives into / claws back from / re-closes / re-opts-in that holding); after every block, for every asset it touched that is still live, the sum of all holdings must equal the asset's Total; distinct = distinct multisets of transaction kinds per block",
		require: map[string]int64{"audit.asset_supply_checked": 100, "gen.accepted:aclose": 2, "gen.accepted:aclawback": 2, "gen.rejected:aclosegroup": 3, "gen.accepted:aclosegroup": 1}})
}

func TestVerifC23(t *testing.T) {
	cmonRun(t, cmonSpec{prop: "C23", part: "accounting", profile: "apps", stream: 23,
		owned:   map[string]bool{"box-accounting": true, "schema-totals": true, "resource-counts": true, "global-exceeds-schema": true, "local-exceeds-schema": true},
		rule:    "HL histories weighted toward apps: box create/resize/replace/delete/delete-and-recreate, box sizes 0..300, global/local puts of both types up to the schema limit (type changes uint<->bytes), opt-in/close-out/clear, app delete with boxes left; after every block, for every touched account: TotalBoxes/TotalBoxBytes equal count/Σ(len name+len value) of the app's boxes in kv, TotalAppSchema equals the sum over created and opted-in apps, resource counters equal recounts, stored global/local state within schema; distinct = distinct multisets of transaction kinds per block",
		require: map[string]int64{"audit.schema_checked": 100, "gen.accepted:box": 30, "audit.global_state_full": 1}})
}

func TestVerifC12(t *testing.T) {
	cmonRun(t, cmonSpec{prop: "C12", part: "totals", profile: "status", stream: 12,
		owned:   map[string]bool{"totals-vs-sum": true, "totals-vs-lookup-sum": true},
		rule:    "HL histories rich in status changes (keyreg online/offline/non-participating, closes of online accounts, key expirations, suspensions, rewards-level changes, accounts crossing reward-unit boundaries) under PRNG schedules (commits, reloads); after every block, for EVERY round the ledger still serves, Totals(rnd) must equal the sums recomputed over the closed address universe, and (sampled) the sums obtained through LookupWithoutRewards of every address; distinct = distinct (block kind multiset) and (round location) pairs",
		require: map[string]int64{"c12.rounds_checked": 300, "c12.lookup_sums": 20, "gen.accepted:keyreg": 10},
		extra:   c12Check})
}

func c12Check(s *hlSim, vb *ledgercore.ValidatedBlock) {
	c := s.c
	l := s.l
	latest := vb.Block().Round()
	db := l.LatestTrackerCommitted()
	for rnd := db; rnd <= latest; rnd++ {
		got, err := l.Totals(rnd)
		if err != nil {
			if rnd < l.LatestTrackerCommitted() {
				continue
			}
			c.Violation("totals-vs-sum", map[string]any{"round": rnd, "error": err.Error(), "latest": latest, "dbRound": db, "trace": s.traceTail(20)})
			continue
		}
		want := s.m.totals(rnd)
		c.Count("c12.rounds_checked", 1)
		loc := "memory"
		if rnd == db {
			loc = "db-round"
		}
		c.Distinct(fmt.Sprintf("C12loc|%s|%d", loc, min(int(latest-rnd), 10)))
		if got != want {
			c.Violation("totals-vs-sum", map[string]any{"round": rnd, "latest": latest, "dbRound": db, "ledger": fmt.Sprintf("%+v", got), "sum_over_accounts": fmt.Sprintf("%+v", want), "config": s.cfg.String(), "trace": s.traceTail(20)})
		}
	}
	// through the public lookups: sum over every address at two rounds
	if latest%4 == 0 {
		for _, rnd := range []basics.Round{db, latest} {
			var sum ledgercore.AccountTotals
			proto := s.m.proto(rnd)
			level := s.m.hdrs[rnd].RewardsLevel
			sum.RewardsLevel = level
			ok := true
			for _, a := range s.m.addresses() {
				d, _, err := l.LookupWithoutRewards(rnd, a)
				if err != nil {
					ok = false
					break
				}
				if d.IsZero() {
					continue
				}
				var cnt *ledgercore.AlgoCount
				switch d.Status {
				case basics.Online:
					cnt = &sum.Online
				case basics.Offline:
					cnt = &sum.Offline
				default:
					cnt = &sum.NotParticipating
				}
				cnt.Money.Raw += hlWithRewards(d, proto.RewardUnit, level).MicroAlgos.Raw
				cnt.RewardUnits += d.MicroAlgos.Raw / proto.RewardUnit
			}
			if !ok {
				continue
			}
			got, err := l.Totals(rnd)
			if err != nil {
				continue
			}
			c.Count("c12.lookup_sums", 1)
			if got != sum {
				c.Violation("totals-vs-lookup-sum", map[string]any{"round": rnd, "ledger_totals": fmt.Sprintf("%+v", got), "sum_of_lookups": fmt.Sprintf("%+v", sum), "trace": s.traceTail(20)})
			}
		}
	}
}
