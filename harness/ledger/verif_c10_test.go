package ledger

// C10: paginated listings return each resource exactly once.
// Oracles: (1) whole-iteration exactly-once — with no block added between pages, iterating
// LookupAssets / LookupApplications / LookupKvPairsByPrefix to exhaustion must yield exactly the
// reference model's set at the reported round, strictly increasing, with the model's values;
// (2) per-page exactness — each page must equal the first `limit` (and byte-capped) model elements
// above the cursor at the round the page reports, while blocks and commits happen between pages.

import (
	"bytes"
	"fmt"
	"sort"
	"testing"

	"github.com/algorand/avm-abi/apps"
	"github.com/algorand/go-algorand/data/basics"
	"github.com/algorand/go-algorand/data/transactions"
	"github.com/algorand/go-algorand/data/txntest"
	"github.com/algorand/go-algorand/ledger/ledgercore"
	"github.com/algorand/go-algorand/protocol"
	"verif.local/kit"
)

type c10State struct {
	s        *hlSim
	c        *kit.Ctx
	holder   basics.Address
	creators []basics.Address
	app      basics.AppIndex
	names    []string
}

// model helpers -------------------------------------------------------------------------------

func (m *hlModel) holdingsOf(r basics.Round, a basics.Address) []basics.AssetIndex {
	var out []basics.AssetIndex
	for k, h := range m.assetHold {
		if k.addr == a {
			if _, ok := h.at(r); ok {
				out = append(out, basics.AssetIndex(k.idx))
			}
		}
	}
	sort.Slice(out, func(i, j int) bool { return out[i] < out[j] })
	return out
}

func c10AssetEntryDiff(m *hlModel, r basics.Round, a basics.Address, e ledgercore.AssetResourceWithIDs) string {
	idx := basics.CreatableIndex(e.AssetID)
	h, ok := m.assetHold[hlRes{a, idx}].at(r)
	if !ok {
		return "listed asset is not held per the model"
	}
	if e.AssetHolding == nil || *e.AssetHolding != h {
		return fmt.Sprintf("holding %+v != model %+v", e.AssetHolding, h)
	}
	cr, live := m.creator(r, idx, basics.AssetCreatable)
	if live {
		p, _ := m.assetParams[hlRes{cr, idx}].at(r)
		if e.Creator != cr {
			return fmt.Sprintf("creator %s != model %s", e.Creator, cr)
		}
		if e.AssetParams == nil || *e.AssetParams != p {
			return fmt.Sprintf("params %+v != model %+v", e.AssetParams, p)
		}
	} else if !e.Creator.IsZero() || e.AssetParams != nil {
		return "asset is destroyed per the model but creator/params were reported"
	}
	return ""
}

func c10AppEntryDiff(m *hlModel, r basics.Round, a basics.Address, e ledgercore.AppResourceWithIDs, includeParams bool) string {
	idx := basics.CreatableIndex(e.AppID)
	o := kit.FPOptions{NilEqualsEmpty: true}
	l, okL := m.appLocal[hlRes{a, idx}].at(r)
	if okL != (e.AppLocalState != nil) {
		return fmt.Sprintf("local state presence %v != model %v", e.AppLocalState != nil, okL)
	}
	if okL && kit.Fingerprint(*e.AppLocalState, o) != kit.Fingerprint(l, o) {
		return fmt.Sprintf("local state %+v != model %+v", *e.AppLocalState, l)
	}
	cr, live := m.creator(r, idx, basics.AppCreatable)
	if live {
		if e.Creator != cr {
			return fmt.Sprintf("creator %s != model %s", e.Creator, cr)
		}
		if includeParams {
			p, _ := m.appParams[hlRes{cr, idx}].at(r)
			if e.AppParams == nil || kit.Fingerprint(*e.AppParams, o) != kit.Fingerprint(p, o) {
				return "app params differ from model"
			}
		}
	} else if !e.Creator.IsZero() {
		return "app is deleted per the model but a creator was reported"
	}
	return ""
}

// ---- whole-iteration exactly-once (no blocks between pages) -----------------------------------------

func (st *c10State) iterateAssets(a basics.Address, limit uint64) {
	s, c, m := st.s, st.c, st.s.m
	var got []basics.AssetIndex
	var rnd basics.Round
	cursor := basics.AssetIndex(0)
	pages := 0
	for {
		page, r, err := s.l.LookupAssets(a, cursor, limit)
		if err != nil {
			c.Violation("listing-error", map[string]any{"api": "LookupAssets", "error": err.Error(), "trace": s.traceTail(20)})
			return
		}
		if pages > 0 && r != rnd {
			c.Harness("round moved during a quiescent iteration")
		}
		rnd = r
		pages++
		c.Count("c10.pages", 1)
		for _, e := range page {
			if e.AssetID <= cursor {
				c.Violation("listing-not-increasing", map[string]any{"api": "LookupAssets", "addr": a.String(), "id": e.AssetID, "cursor": cursor, "limit": limit, "round": r, "trace": s.traceTail(20)})
				return
			}
			cursor = e.AssetID
			got = append(got, e.AssetID)
			if d := c10AssetEntryDiff(m, r, a, e); d != "" {
				c.Violation("listing-value-differs", map[string]any{"api": "LookupAssets", "addr": a.String(), "id": e.AssetID, "diff": d, "round": r, "dbRound": s.l.LatestTrackerCommitted(), "limit": limit, "trace": s.traceTail(20)})
				return
			}
		}
		if uint64(len(page)) < limit {
			break
		}
		if pages > 10000 {
			c.Harness("iteration does not terminate")
		}
	}
	want := m.holdingsOf(rnd, a)
	c.Eval(1)
	c.Count("c10.listings", 1)
	if fmt.Sprint(got) != fmt.Sprint(want) {
		c.Violation("listing-not-exactly-once", map[string]any{"api": "LookupAssets", "addr": a.String(), "limit": limit, "round": rnd, "dbRound": s.l.LatestTrackerCommitted(), "got": fmt.Sprint(got), "want": fmt.Sprint(want), "config": s.cfg.String(), "trace": s.traceTail(25)})
	}
	st.shape("assets", a, rnd, len(want), limit)
}

// shape records the (on-disk count, in-memory adds, in-memory deletes, limit) tuple of a listing.
func (st *c10State) shape(kind string, a basics.Address, rnd basics.Round, n int, limit uint64) {
	s, m := st.s, st.s.m
	db := s.l.LatestTrackerCommitted()
	adds, dels, onDisk := 0, 0, 0
	switch kind {
	case "assets":
		for k, h := range m.assetHold {
			if k.addr != a {
				continue
			}
			_, atDB := h.at(db)
			_, now := h.at(rnd)
			if atDB {
				onDisk++
			}
			if atDB && !now {
				dels++
			}
			if !atDB && now {
				adds++
			}
		}
	case "apps":
		for k, h := range m.appLocal {
			if k.addr != a {
				continue
			}
			_, atDB := h.at(db)
			_, now := h.at(rnd)
			if atDB {
				onDisk++
			}
			if atDB && !now {
				dels++
			}
			if !atDB && now {
				adds++
			}
		}
	case "kv":
		prefix := apps.MakeBoxKey(uint64(st.app), "")
		for k, h := range m.kv {
			if len(k) < len(prefix) || k[:len(prefix)] != prefix {
				continue
			}
			_, atDB := h.at(db)
			_, now := h.at(rnd)
			if atDB {
				onDisk++
			}
			if atDB && !now {
				dels++
			}
			if !atDB && now {
				adds++
			}
		}
	}
	if dels > 0 {
		st.c.Count("c10.listings_with_memory_only_deletions", 1)
	}
	if adds > 0 {
		st.c.Count("c10.listings_with_memory_only_additions", 1)
	}
	b := func(v int) int {
		if v > 8 {
			return 8 + v/16
		}
		return v
	}
	st.c.Distinct(fmt.Sprintf("%s|disk%d|add%d|del%d|lim%d", kind, b(onDisk), b(adds), b(dels), limit))
}

func (m *hlModel) appsListedFor(r basics.Round, a basics.Address) []basics.AppIndex {
	seen := map[basics.AppIndex]bool{}
	for k, h := range m.appLocal {
		if k.addr == a {
			if _, ok := h.at(r); ok {
				seen[basics.AppIndex(k.idx)] = true
			}
		}
	}
	for k, h := range m.appParams {
		if k.addr == a {
			if _, ok := h.at(r); ok {
				seen[basics.AppIndex(k.idx)] = true
			}
		}
	}
	out := make([]basics.AppIndex, 0, len(seen))
	for k := range seen {
		out = append(out, k)
	}
	sort.Slice(out, func(i, j int) bool { return out[i] < out[j] })
	return out
}

func (st *c10State) iterateApps(a basics.Address, limit uint64, includeParams bool) {
	s, c, m := st.s, st.c, st.s.m
	var got []basics.AppIndex
	var rnd basics.Round
	cursor := basics.AppIndex(0)
	pages := 0
	for {
		page, r, err := s.l.LookupApplications(a, cursor, limit, includeParams)
		if err != nil {
			c.Violation("listing-error", map[string]any{"api": "LookupApplications", "error": err.Error(), "trace": s.traceTail(20)})
			return
		}
		if pages > 0 && r != rnd {
			c.Harness("round moved during a quiescent iteration")
		}
		rnd = r
		pages++
		c.Count("c10.pages", 1)
		for _, e := range page {
			if e.AppID <= cursor {
				c.Violation("listing-not-increasing", map[string]any{"api": "LookupApplications", "addr": a.String(), "id": e.AppID, "cursor": cursor, "limit": limit, "round": r, "trace": s.traceTail(20)})
				return
			}
			cursor = e.AppID
			got = append(got, e.AppID)
			if d := c10AppEntryDiff(m, r, a, e, includeParams); d != "" {
				c.Violation("listing-value-differs", map[string]any{"api": "LookupApplications", "addr": a.String(), "id": e.AppID, "diff": d, "round": r, "dbRound": s.l.LatestTrackerCommitted(), "limit": limit, "trace": s.traceTail(20)})
				return
			}
		}
		if uint64(len(page)) < limit {
			break
		}
		if pages > 10000 {
			c.Harness("iteration does not terminate")
		}
	}
	want := m.appsListedFor(rnd, a)
	c.Eval(1)
	c.Count("c10.listings", 1)
	if fmt.Sprint(got) != fmt.Sprint(want) {
		c.Violation("listing-not-exactly-once", map[string]any{"api": "LookupApplications", "addr": a.String(), "limit": limit, "round": rnd, "dbRound": s.l.LatestTrackerCommitted(), "got": fmt.Sprint(got), "want": fmt.Sprint(want), "config": s.cfg.String(), "trace": s.traceTail(25)})
	}
	st.shape("apps", a, rnd, len(want), limit)
}

// kvRefPage is the reference page: first elements above cursor, limited by count and bytes
// (at least one element regardless of the byte cap).
func c10KvRefPage(m *hlModel, r basics.Round, prefix, cursor string, limit, maxBytes uint64, includeValues bool) (keys []string, vals [][]byte, more bool) {
	all := m.kvKeys(r, prefix)
	var elems []string
	for _, k := range all {
		if k > cursor {
			elems = append(elems, k)
		}
	}
	var acc uint64
	for i, k := range elems {
		v, _ := m.kv[k].at(r)
		sz := uint64(len(k))
		if includeValues {
			sz += uint64(len(v))
		}
		if i > 0 && acc+sz > maxBytes {
			break
		}
		if uint64(i) >= limit {
			break
		}
		acc += sz
		keys = append(keys, k)
		vals = append(vals, v)
	}
	return keys, vals, len(keys) < len(elems)
}

func (st *c10State) checkKvPage(round basics.Round, prefix, cursor string, limit, maxBytes uint64, includeValues bool, mode string) (last string, more bool, ok bool) {
	s, c, m := st.s, st.c, st.s.m
	page, r, moreData, err := s.l.LookupKvPairsByPrefix(round, prefix, cursor, limit, maxBytes, includeValues)
	if err != nil {
		if round < s.l.LatestTrackerCommitted() {
			return "", false, false
		}
		c.Violation("listing-error", map[string]any{"api": "LookupKvPairsByPrefix", "error": err.Error(), "round": round, "trace": s.traceTail(20)})
		return "", false, false
	}
	c.Count("c10.pages", 1)
	c.Eval(1)
	// Reference: the remaining sequence above the cursor at the reported round. A page must be a
	// PREFIX of that sequence (consecutive, no gap, no repeat, right values), non-empty when elements
	// remain, within limit and byte cap (one item is always allowed), and must say moreData whenever
	// elements remain beyond it. Pages may be shorter than the maximum the caps would allow (the DB
	// page is cut with on-disk sizes before in-memory changes are merged) — that loses nothing.
	wk, wv, _ := c10KvRefPage(m, r, prefix, cursor, 1<<30, 1<<62, includeValues)
	bad := ""
	if len(page) > len(wk) {
		bad = fmt.Sprintf("page has %d items, only %d remain per the reference", len(page), len(wk))
	}
	if bad == "" && len(page) == 0 && len(wk) > 0 {
		bad = fmt.Sprintf("empty page although %d elements remain", len(wk))
	}
	if bad == "" && uint64(len(page)) > limit {
		bad = fmt.Sprintf("page has %d items, limit %d", len(page), limit)
	}
	var acc uint64
	for i := 0; bad == "" && i < len(page); i++ {
		if page[i].Key != wk[i] {
			bad = fmt.Sprintf("item %d key %x != reference %x", i, page[i].Key, wk[i])
		} else if includeValues && !bytes.Equal(page[i].Value, wv[i]) {
			bad = fmt.Sprintf("item %d value %x != reference %x", i, page[i].Value, wv[i])
		} else if includeValues && page[i].Value == nil {
			bad = fmt.Sprintf("item %d value is nil for an existing box", i)
		} else if !includeValues && page[i].Value != nil {
			bad = fmt.Sprintf("item %d carries a value although values were not requested", i)
		}
		acc += uint64(len(page[i].Key) + len(page[i].Value))
		if bad == "" && i > 0 && acc > maxBytes {
			bad = fmt.Sprintf("page exceeds the byte cap: %d > %d with %d items", acc, maxBytes, i+1)
		}
	}
	wmore := len(wk) > len(page)
	if bad == "" && wmore && !moreData {
		bad = fmt.Sprintf("moreData=false but %d elements remain", len(wk)-len(page))
	}
	if bad == "" && !wmore && moreData {
		c.Count("c10.moredata_true_but_nothing_remains", 1)
	}
	if wk2, _, _ := c10KvRefPage(m, r, prefix, cursor, limit, maxBytes, includeValues); bad == "" && len(page) < len(wk2) {
		c.Count("c10.pages_shorter_than_caps_allow", 1)
	}
	if bad != "" {
		var gk []string
		for _, e := range page {
			gk = append(gk, fmt.Sprintf("%x", e.Key[11:]))
		}
		var rk []string
		for _, k := range wk {
			rk = append(rk, fmt.Sprintf("%x", k[11:]))
		}
		c.Violation("kv-page-differs", map[string]any{"mode": mode, "diff": bad, "round_asked": round, "round_reported": r, "dbRound": s.l.LatestTrackerCommitted(), "prefix": fmt.Sprintf("%x", prefix), "cursor": fmt.Sprintf("%x", cursor), "limit": limit, "maxBytes": maxBytes, "includeValues": includeValues, "got_names": gk, "want_names": rk, "moreData": moreData, "config": s.cfg.String(), "trace": s.traceTail(25)})
		return "", false, false
	}
	if len(page) > 0 {
		last = page[len(page)-1].Key
	} else {
		last = cursor
	}
	return last, moreData, true
}

func (st *c10State) iterateKv(prefixName string, limit, maxBytes uint64, includeValues bool) {
	s := st.s
	prefix := apps.MakeBoxKey(uint64(st.app), prefixName)
	rnd := s.l.Latest()
	cursor := ""
	n := 0
	for pages := 0; ; pages++ {
		last, more, ok := st.checkKvPage(rnd, prefix, cursor, limit, maxBytes, includeValues, "quiescent")
		if !ok {
			return
		}
		if last == cursor && more {
			st.c.Violation("kv-empty-page-claims-more", map[string]any{"prefix": fmt.Sprintf("%x", prefix), "cursor": fmt.Sprintf("%x", cursor), "limit": limit, "maxBytes": maxBytes, "trace": s.traceTail(20)})
			return
		}
		cursor = last
		n++
		if !more {
			break
		}
		if pages > 10000 {
			st.c.Harness("kv iteration does not terminate")
		}
	}
	st.c.Count("c10.listings", 1)
	st.shape("kv", basics.Address{}, rnd, n, limit)
}

// ---- workload ---------------------------------------------------------------------------------------------

func (st *c10State) bulk(kind string, txns ...txntest.Txn) {
	s := st.s
	s.lastBlockGroups = s.lastBlockGroups[:0]
	ev, err := s.startEval()
	if err != nil {
		st.c.Harness("StartEvaluator: %v", err)
	}
	for i := range txns {
		t := txns[i]
		t.Note = s.g.nextNote()
		s.offer(ev, kind, &t)
	}
	// some generic traffic as well
	for i := 0; i < s.r.Intn(4); i++ {
		s.g.offerRandom(ev)
	}
	if _, err := s.finishBlock(ev); err != nil {
		st.c.Harness("finishBlock: %v", err)
	}
}

func TestVerifC10(t *testing.T) {
	c := kit.Start(t, "C10", "pagination")
	defer c.Finish()
	c.Rule("accounts with 0..60 asset holdings / app opt-ins and an app with 0..80 boxes whose names share prefixes; state split between DB and in-memory deltas in every way the schedule driver produces (created on disk and deleted only in memory, deleted on disk and re-created in memory, all in memory, all on disk); page limits 1,2,3,7,1000, byte caps 0,1,one item,large; every name prefix; (1) whole-iteration exactly-once with no block between pages, (2) per-page exactness at the reported round while blocks and commits happen between pages; distinct = distinct (kind, on-disk count, in-memory adds, in-memory deletes, limit) tuples")
	nh := c.N(3, 30)
	rounds := c.N(60, 160)
	for h := 0; h < nh && c.Violations() < 5; h++ {
		r := c.Rand(10, uint64(h))
		cfg := hlRandomConfig(r)
		cfg.Profile = ""
		s := hlNewSim(t, c, r, cfg)
		st := &c10State{s: s, c: c, holder: s.u.keyed[5], creators: []basics.Address{s.u.keyed[6], s.u.keyed[7]}}
		st.names = []string{"a", "a\x00", "a\xff", "ab", "abc", "abd", "b", "ba", "\x00", "\xff\xff", "box-long-name-0123456789-0123456789-0123456789-0123456789-012345"}
		for i := 0; i < 70; i++ {
			st.names = append(st.names, fmt.Sprintf("n%02d", i))
		}
		approval, clear := hlPrograms()
		// the box app, created by creators[0]; creators also create apps the holder opts into
		st.bulk("c10setup", txntest.Txn{Type: protocol.ApplicationCallTx, Sender: st.creators[0], ApprovalProgram: approval, ClearStateProgram: clear})
		for idx, h := range s.m.creators {
			if cr, ok := h.at(s.m.latest); ok && cr.ctype == basics.AppCreatable {
				st.app = basics.AppIndex(idx)
			}
		}
		if st.app == 0 {
			c.Harness("box app was not created")
		}
		st.bulk("c10setup", txntest.Txn{Type: protocol.PaymentTx, Sender: s.u.keyed[0], Receiver: st.app.Address(), Amount: 500_000_000})
		var cursorsKv string
		var kvRound basics.Round
		var followUp, pendingFollowUp []basics.AssetIndex
		touched := map[basics.AssetIndex]basics.Round{} // asset -> round in which its creator touched it after the holder left
		for b := 0; b < rounds; b++ {
			// a block of listing-relevant operations
			var txns []txntest.Txn
			nops := r.Range(0, 14)
			assets := s.g.liveAssets()
			for _, a := range pendingFollowUp {
				if cr, ok := s.m.creator(s.m.latest, basics.CreatableIndex(a), basics.AssetCreatable); ok {
					other := st.creators[0]
					if other == cr {
						other = st.creators[1]
					}
					// opt the other creator in (no-op if already) and move one unit: changes the creator's holding record
					txns = append(txns, txntest.Txn{Type: protocol.AssetTransferTx, Sender: other, XferAsset: a, AssetReceiver: other})
					txns = append(txns, txntest.Txn{Type: protocol.AssetTransferTx, Sender: cr, XferAsset: a, AssetReceiver: other, AssetAmount: 1})
				}
			}
			for _, a := range pendingFollowUp {
				touched[a] = s.m.latest + 1
			}
			pendingFollowUp = followUp
			followUp = nil
			for i := 0; i < nops; i++ {
				switch r.Intn(10) {
				case 0, 1: // create an asset
					txns = append(txns, txntest.Txn{Type: protocol.AssetConfigTx, Sender: st.creators[r.Intn(2)], AssetParams: basics.AssetParams{Total: 1000, Manager: st.creators[0], UnitName: "c10"}})
				case 2, 3: // holder opts in
					if len(assets) > 0 {
						a := assets[r.Intn(len(assets))]
						txns = append(txns, txntest.Txn{Type: protocol.AssetTransferTx, Sender: st.holder, XferAsset: a.idx, AssetReceiver: st.holder})
					}
				case 4: // holder closes out
					if hs := s.m.holdingsOf(s.m.latest, st.holder); len(hs) > 0 {
						a := hs[r.Intn(len(hs))]
						cr, _ := s.m.creator(s.m.latest, basics.CreatableIndex(a), basics.AssetCreatable)
						txns = append(txns, txntest.Txn{Type: protocol.AssetTransferTx, Sender: st.holder, XferAsset: a, AssetReceiver: cr, AssetCloseTo: cr})
						if r.Bool() {
							followUp = append(followUp, a) // the creator touches this asset again in a LATER (still unflushed) round
						}
					}
				case 7: // the creator moves units (to the holder if opted in, else to the other creator or itself):
					// this touches the CREATOR's holding/params record of an asset the holder may just have left
					if len(assets) > 0 {
						a := assets[r.Intn(len(assets))]
						rcv := st.holder
						if _, ok := s.m.assetHold[hlRes{st.holder, basics.CreatableIndex(a.idx)}].at(s.m.latest); !ok || r.Chance(1, 3) {
							rcv = a.creator
						}
						txns = append(txns, txntest.Txn{Type: protocol.AssetTransferTx, Sender: a.creator, XferAsset: a.idx, AssetReceiver: rcv, AssetAmount: uint64(r.Intn(3))})
					}
				case 5: // destroy an asset (creator holds everything unless the holder received some)
					if len(assets) > 0 {
						a := assets[r.Intn(len(assets))]
						txns = append(txns, txntest.Txn{Type: protocol.AssetConfigTx, Sender: st.creators[0], ConfigAsset: a.idx})
					}
				case 6: // app create / holder opt-in / close-out
					apps := s.g.liveApps()
					switch {
					case len(apps) < 40 && r.Bool():
						txns = append(txns, txntest.Txn{Type: protocol.ApplicationCallTx, Sender: st.creators[r.Intn(2)], ApprovalProgram: approval, ClearStateProgram: clear, LocalStateSchema: basics.StateSchema{NumByteSlice: 1}})
					case len(apps) > 0 && r.Bool():
						txns = append(txns, txntest.Txn{Type: protocol.ApplicationCallTx, Sender: st.holder, ApplicationID: apps[r.Intn(len(apps))].idx, OnCompletion: transactions.OptInOC})
					case len(apps) > 0:
						a := apps[r.Intn(len(apps))]
						oc := transactions.CloseOutOC
						snd := st.holder
						if r.Chance(1, 4) && a.idx != st.app {
							oc = transactions.DeleteApplicationOC
							snd = a.creator
						}
						txns = append(txns, txntest.Txn{Type: protocol.ApplicationCallTx, Sender: snd, ApplicationID: a.idx, OnCompletion: oc})
					}
				default: // boxes
					name := st.names[r.Intn(len(st.names))]
					ex := s.g.boxesOf(st.app)
					op := "bcreate"
					if len(ex) > 0 && r.Chance(2, 5) {
						name = ex[r.Intn(len(ex))]
						op = []string{"bdel", "bdel", "bcycle", "bput"}[r.Intn(4)]
					}
					t := txntest.Txn{Type: protocol.ApplicationCallTx, Sender: s.u.keyed[1+r.Intn(3)], ApplicationID: st.app, Boxes: []transactions.BoxRef{{Name: []byte(name)}}}
					switch op {
					case "bcreate":
						t.ApplicationArgs = [][]byte{[]byte(op), []byte(name), u64(uint64(r.Intn(24)))}
					case "bdel":
						t.ApplicationArgs = [][]byte{[]byte(op), []byte(name)}
					default:
						t.ApplicationArgs = [][]byte{[]byte(op), []byte(name), r.Bytes(r.Intn(24))}
					}
					txns = append(txns, t)
				}
			}
			st.bulk("c10op", txns...)
			act := s.scheduleAction()
			c.Count("schedule."+act, 1)

			// (2) per-page exactness across blocks/commits: one page per block with a carried cursor
			if kvRound == 0 || s.l.LatestTrackerCommitted() > kvRound {
				kvRound = s.l.Latest()
				cursorsKv = ""
			}
			lim := []uint64{1, 2, 3, 7}[r.Intn(4)]
			last, more, ok := st.checkKvPage(kvRound, apps.MakeBoxKey(uint64(st.app), ""), cursorsKv, lim, 1<<20, r.Bool(), "across-blocks")
			if ok {
				c.Count("c10.pages_across_blocks", 1)
				cursorsKv = last
				if !more {
					kvRound = 0
				}
			} else {
				kvRound = 0
			}

			// (1) whole iterations at quiescent points
			inWindow := false
			for a, rb := range touched {
				_, holds := s.m.assetHold[hlRes{st.holder, basics.CreatableIndex(a)}].at(s.m.latest)
				_, heldOnDisk := s.m.assetHold[hlRes{st.holder, basics.CreatableIndex(a)}].at(s.l.LatestTrackerCommitted())
				if !holds && heldOnDisk && rb > s.l.LatestTrackerCommitted() && rb <= s.m.latest {
					inWindow = true
				}
			}
			if b%3 == 2 || inWindow {
				if inWindow {
					c.Count("c10.listings_with_unflushed_optout_and_later_creator_touch", 1)
				}
				s.waitBlockQueue()
				for _, lim := range []uint64{1, 2, 3, 7, 1000} {
					st.iterateAssets(st.holder, lim)
					st.iterateApps(st.holder, lim, r.Bool())
				}
				st.iterateAssets(st.creators[0], uint64(r.Range(1, 9)))
				st.iterateApps(st.creators[0], uint64(r.Range(1, 9)), true)
				for k := 0; k < 6; k++ {
					pn := []string{"", "a", "a\x00", "ab", "n", "n1", "\xff", "zz"}[r.Intn(8)]
					one := uint64(11 + len(pn) + 1)
					mb := []uint64{0, 1, one, one + 1, 64, 1 << 20}[r.Intn(6)]
					st.iterateKv(pn, []uint64{1, 2, 3, 7, 1000}[r.Intn(5)], mb, r.Bool())
				}
			}
		}
		if h < 2 {
			c.Sample(map[string]any{"history": h, "config": cfg.String(), "holder_assets_at_end": len(s.m.holdingsOf(s.m.latest, st.holder)), "boxes_at_end": len(s.g.boxesOf(st.app)), "trace_tail": s.traceTail(6)})
		}
		c.Max("c10.max_holdings", int64(len(s.m.holdingsOf(s.m.latest, st.holder))))
		c.Max("c10.max_boxes", int64(len(s.g.boxesOf(st.app))))
		s.close()
	}
	c.Require("c10.listings", 200)
	c.Require("c10.pages", 1000)
	c.Require("c10.listings_with_memory_only_deletions", 10)
	c.Require("c10.listings_with_memory_only_additions", 10)
	c.Require("c10.pages_across_blocks", 30)
	c.Require("c10.listings_with_unflushed_optout_and_later_creator_touch", 3)
}
