package ledger

// Shared helpers of the evaluator-facing monitors C19, C24, C28, C29 (identifier prefix cev).
// A cevEnv is a real in-memory Ledger over a PRNG-derived genesis plus the few operations the monitors
// need: start an evaluator for the next round, finish a block the way agreement would (seed/proposer),
// validate it (with or without signature checking) and add it. Nothing here forms a verdict.

import (
	"context"
	"fmt"
	"testing"

	"github.com/algorand/go-algorand/agreement"
	"github.com/algorand/go-algorand/config"
	"github.com/algorand/go-algorand/crypto"
	"github.com/algorand/go-algorand/data/basics"
	"github.com/algorand/go-algorand/data/bookkeeping"
	"github.com/algorand/go-algorand/data/committee"
	"github.com/algorand/go-algorand/data/transactions"
	"github.com/algorand/go-algorand/data/transactions/logic"
	"github.com/algorand/go-algorand/data/transactions/verify"
	"github.com/algorand/go-algorand/ledger/eval"
	"github.com/algorand/go-algorand/ledger/ledgercore"
	"github.com/algorand/go-algorand/logging"
	"github.com/algorand/go-algorand/protocol"
	"github.com/algorand/go-algorand/util/execpool"
	"verif.local/kit"
)

type cevAcct struct {
	addr basics.Address
	sk   *crypto.SignatureSecrets
}

type cevEnv struct {
	c     *kit.Ctx
	t     testing.TB
	l     *Ledger
	cv    protocol.ConsensusVersion
	proto config.ConsensusParams
	accts []cevAcct
	sink  basics.Address
	pool  basics.Address
	exec  execpool.BacklogPool
}

type cevGenesis struct {
	nAccts   int
	balance  uint64                              // per keyed account
	sinkBal  uint64                              // fee sink
	poolBal  uint64                              // rewards pool
	extra    map[basics.Address]basics.AccountData // additional genesis accounts
	online   int                                 // first k accounts are online (stake for payouts eligibility is not needed by the evaluator)
	cfgTweak func(*config.Local)
}

func cevKey(r *kit.Rand) *crypto.SignatureSecrets {
	var seed crypto.Seed
	r.Fill(seed[:])
	return crypto.GenerateSignatureSecrets(seed)
}

func init() {
	// the upstream helpers log through logging.Base(); keep the test log readable
	logging.Base().SetLevel(logging.Error)
}

// cevNewEnv opens a fresh in-memory ledger. All key material and the genesis hash come from r.
func cevNewEnv(c *kit.Ctx, t testing.TB, r *kit.Rand, cv protocol.ConsensusVersion, g cevGenesis) *cevEnv {
	e := &cevEnv{c: c, t: t, cv: cv, proto: config.Consensus[cv]}
	accts := map[basics.Address]basics.AccountData{}
	for i := 0; i < g.nAccts; i++ {
		sk := cevKey(r)
		a := cevAcct{addr: basics.Address(sk.SignatureVerifier), sk: sk}
		e.accts = append(e.accts, a)
		ad := basics.AccountData{MicroAlgos: basics.MicroAlgos{Raw: g.balance}, Status: basics.Offline}
		if i < g.online {
			ad.Status = basics.Online
			ad.VoteFirstValid = 0
			ad.VoteLastValid = 10_000_000
			ad.VoteKeyDilution = 100
			r.Fill(ad.VoteID[:])
			r.Fill(ad.SelectionID[:])
			r.Fill(ad.StateProofID[:])
		}
		accts[a.addr] = ad
	}
	r.Fill(e.sink[:])
	r.Fill(e.pool[:])
	poolBal := g.poolBal
	if poolBal == 0 {
		poolBal = 100_000 // rewards effectively off
	}
	accts[e.sink] = basics.AccountData{MicroAlgos: basics.MicroAlgos{Raw: g.sinkBal}, Status: basics.NotParticipating}
	accts[e.pool] = basics.AccountData{MicroAlgos: basics.MicroAlgos{Raw: poolBal}, Status: basics.NotParticipating}
	for a, ad := range g.extra {
		accts[a] = ad
	}
	var genHash crypto.Digest
	r.Fill(genHash[:])
	cfg := config.GetDefaultLocal()
	if g.cfgTweak != nil {
		g.cfgTweak(&cfg)
	}
	e.l = newSimpleLedgerFull(t, bookkeeping.MakeGenesisBalances(accts, e.sink, e.pool), cv, genHash, cfg)
	e.exec = execpool.MakeBacklog(nil, 0, execpool.LowPriority, nil)
	return e
}

func (e *cevEnv) close() {
	e.exec.Shutdown()
	e.l.Close()
}

// nextHeader is the header a proposer would start from (deterministic timestamp, as upstream nextBlock does).
func (e *cevEnv) nextHeader() bookkeeping.BlockHeader {
	hdr, err := e.l.BlockHdr(e.l.Latest())
	if err != nil {
		e.c.Harness("BlockHdr: %v", err)
	}
	next := bookkeeping.MakeBlock(hdr).BlockHeader
	next.TimeStamp = hdr.TimeStamp + 1
	return next
}

func (e *cevEnv) startEval(validate, generate bool, tracer logic.EvalTracer) *eval.BlockEvaluator {
	ev, err := eval.StartEvaluator(e.l, e.nextHeader(), eval.EvaluatorOptions{Validate: validate, Generate: generate, Tracer: tracer})
	if err != nil {
		e.c.Harness("StartEvaluator: %v", err)
	}
	return ev
}

// finish generates the block and installs seed/proposer as agreement would.
func (e *cevEnv) finish(ev *eval.BlockEvaluator, proposer basics.Address, eligible bool) (bookkeeping.Block, ledgercore.StateDelta, error) {
	var parts []basics.Address
	if !proposer.IsZero() {
		parts = []basics.Address{proposer}
	}
	ub, err := ev.GenerateBlock(parts)
	if err != nil {
		return bookkeeping.Block{}, ledgercore.StateDelta{}, err
	}
	// as upstream endBlock: the fee sink "proposes" unless a proposer is given (payouts then do not move money)
	prp := proposer
	if prp.IsZero() {
		prp = e.sink
	}
	seedSrc := prp
	blk := ub.UnfinishedBlock().WithProposer(committee.Seed(seedSrc), prp, eligible)
	return blk, ub.UnfinishedDeltas(), nil
}

// validate runs Ledger.Validate; withSigs=false replaces the verified-transaction cache by the upstream
// always-verified mock (as upstream validateWithoutSignatures does), so only the evaluator's own checks run.
func (e *cevEnv) validate(blk bookkeeping.Block, withSigs bool) (*ledgercore.ValidatedBlock, error) {
	if !withSigs {
		save := e.l.verifiedTxnCache
		defer func() { e.l.verifiedTxnCache = save }()
		e.l.verifiedTxnCache = verify.GetMockedCache(true)
		return e.l.Validate(context.Background(), blk, nil)
	}
	return e.l.Validate(context.Background(), blk, e.exec)
}

func (e *cevEnv) add(vb *ledgercore.ValidatedBlock) {
	if err := e.l.AddValidatedBlock(*vb, agreement.Certificate{}); err != nil {
		e.c.Harness("AddValidatedBlock: %v", err)
	}
	e.l.WaitForCommit(e.l.Latest())
}

// commit finishes, validates (no signatures) and adds the block built by ev.
func (e *cevEnv) commit(ev *eval.BlockEvaluator, proposer basics.Address) (*ledgercore.ValidatedBlock, error) {
	blk, _, err := e.finish(ev, proposer, true)
	if err != nil {
		return nil, fmt.Errorf("GenerateBlock: %w", err)
	}
	vb, err := e.validate(blk, false)
	if err != nil {
		return nil, fmt.Errorf("Validate: %w", err)
	}
	e.add(vb)
	return vb, nil
}

func (e *cevEnv) balance(a basics.Address) uint64 {
	ad, _, _, err := e.l.LookupLatest(a)
	if err != nil {
		e.c.Harness("LookupLatest: %v", err)
	}
	return ad.MicroAlgos.Raw
}

// header fields every transaction of this ledger needs
func (e *cevEnv) hdr(sender basics.Address, fee uint64, rnd basics.Round, note []byte) transactions.Header {
	return transactions.Header{Sender: sender, Fee: basics.MicroAlgos{Raw: fee}, FirstValid: rnd, LastValid: rnd + 50,
		GenesisHash: e.l.GenesisHash(), Note: note}
}

func (e *cevEnv) pay(sender, receiver basics.Address, amount, fee uint64, rnd basics.Round, note []byte) transactions.Transaction {
	return transactions.Transaction{Type: protocol.PaymentTx, Header: e.hdr(sender, fee, rnd, note),
		PaymentTxnFields: transactions.PaymentTxnFields{Receiver: receiver, Amount: basics.MicroAlgos{Raw: amount}}}
}

// cevGroupID is the reference group id: SHA-512/256 over "TG" || msgpack{"txlist": [32-byte ids...]} where each id is
// the transaction id computed with an empty Group field. The msgpack is written by hand so that the reference does
// not share the encoder of transactions.TxGroup.
func cevGroupID(txns []transactions.Transaction) crypto.Digest {
	buf := []byte("TG")
	buf = append(buf, 0x81, 0xa6)
	buf = append(buf, "txlist"...)
	buf = append(buf, 0x90|byte(len(txns))) // fixarray; groups have at most 16 members -> handled below
	if len(txns) > 15 {
		buf = buf[:len(buf)-1]
		buf = append(buf, 0xdc, byte(len(txns)>>8), byte(len(txns)))
	}
	for _, t := range txns {
		t.Group = crypto.Digest{}
		id := t.ID()
		buf = append(buf, 0xc4, 32)
		buf = append(buf, id[:]...)
	}
	return crypto.Hash(buf)
}

func cevSetGroup(txns []transactions.Transaction) {
	g := cevGroupID(txns)
	for i := range txns {
		txns[i].Group = g
	}
}

func cevWrap(stxns []transactions.SignedTxn) []transactions.SignedTxnWithAD {
	return transactions.WrapSignedTxnsWithAD(stxns)
}

func cevUnsigned(txns []transactions.Transaction) []transactions.SignedTxn {
	out := make([]transactions.SignedTxn, len(txns))
	for i := range txns {
		out[i].Txn = txns[i]
	}
	return out
}
