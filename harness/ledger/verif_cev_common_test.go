package ledger

// Shared helpers of the evaluator-facing monitors C19, C24, C28, C29 (identifier prefix cev).
// A cevEnv is a real in-memory Ledger over a PRNG-derived genesis plus the few operations the monitors
// need: start an evaluator for the next round, finish a block the way agreement would (seed/proposer),
// validate it (with or without signature checking) and add it. Nothing here forms a verdict.

import (
	"context"
	"fmt"
	"strings"
	"testing"

	"github.com/algorand/go-algorand/agreement"
	"github.com/algorand/go-algorand/config"
	"github.com/algorand/go-algorand/crypto"
	"github.com/algorand/go-algorand/data/basics"
	"github.com/algorand/go-algorand/data/bookkeeping"
	"github.com/algorand/go-algorand/data/committee"
	"github.com/algorand/go-algorand/data/transactions"
	"github.com/algorand/go-algorand/data/transactions/logic"
	"github.com/algorand/go-algorand/data/transactions/verify"
	"github.com/algorand/go-algorand/ledger/eval"
	"github.com/algorand/go-algorand/ledger/ledgercore"
	"github.com/algorand/go-algorand/logging"
	"github.com/algorand/go-algorand/protocol"
	"github.com/algorand/go-algorand/util/execpool"
	"verif.local/kit"
)

type cevAcct struct {
	addr basics.Address
	sk   *crypto.SignatureSecrets
}

type cevEnv struct {
	c     *kit.Ctx
	t     testing.TB
	l     *Ledger
	cv    protocol.ConsensusVersion
	proto config.ConsensusParams
	accts []cevAcct
	sink  basics.Address
	pool  basics.Address
	exec  execpool.BacklogPool
}

type cevGenesis struct {
	nAccts        int
	balance       uint64                                // per keyed account
	sinkBal       uint64                                // fee sink
	poolBal       uint64                                // rewards pool
	extra         map[basics.Address]basics.AccountData // additional genesis accounts
	online        int                                   // first k accounts are online (stake for payouts eligibility is not needed by the evaluator)
	cfgTweak      func(*config.Local)
	defaultCaches bool
}

func cevKey(r *kit.Rand) *crypto.SignatureSecrets {
	var seed crypto.Seed
	r.Fill(seed[:])
	return crypto.GenerateSignatureSecrets(seed)
}

func init() {
	// the upstream helpers log through logging.Base(); keep the test log readable
	logging.Base().SetLevel(logging.Error)
}

// cevNewEnv opens a fresh in-memory ledger. All key material and the genesis hash come from r.
func cevNewEnv(c *kit.Ctx, t testing.TB, r *kit.Rand, cv protocol.ConsensusVersion, g cevGenesis) *cevEnv {
	e := &cevEnv{c: c, t: t, cv: cv, proto: config.Consensus[cv]}
	accts := map[basics.Address]basics.AccountData{}
	for i := 0; i < g.nAccts; i++ {
		sk := cevKey(r)
		a := cevAcct{addr: basics.Address(sk.SignatureVerifier), sk: sk}
		e.accts = append(e.accts, a)
		ad := basics.AccountData{MicroAlgos: basics.MicroAlgos{Raw: g.balance}, Status: basics.Offline}
		if i < g.online {
			ad.Status = basics.Online
			ad.VoteFirstValid = 0
			ad.VoteLastValid = 10_000_000
			ad.VoteKeyDilution = 100
			r.Fill(ad.VoteID[:])
			r.Fill(ad.SelectionID[:])
			r.Fill(ad.StateProofID[:])
		}
		accts[a.addr] = ad
	}
	r.Fill(e.sink[:])
	r.Fill(e.pool[:])
	poolBal := g.poolBal
	if poolBal == 0 {
		poolBal = 100_000 // rewards effectively off
	}
	accts[e.sink] = basics.AccountData{MicroAlgos: basics.MicroAlgos{Raw: g.sinkBal}, Status: basics.NotParticipating}
	accts[e.pool] = basics.AccountData{MicroAlgos: basics.MicroAlgos{Raw: poolBal}, Status: basics.NotParticipating}
	for a, ad := range g.extra {
		accts[a] = ad
	}
	var genHash crypto.Digest
	r.Fill(genHash[:])
	cfg := config.GetDefaultLocal()
	var opts []simpleLedgerOption
	if g.defaultCaches {
		// one ledger in four: default configuration, on disk (WAL: readers never block on the tracker committer)
		opts = append(opts, simpleLedgerOnDisk())
	} else {
		// in memory. The LRU caches of the account trackers allocate ~2 s worth of zeroed channel buffers per ledger
		// open and are irrelevant to the evaluator-level properties monitored here. With the shared-cache in-memory
		// sqlite a background tracker commit makes concurrent reads fail with "database table is locked" (an
		// artefact of the test database, not of the code under test); keeping all deltas of the short case in memory
		// (MaxAcctLookback) means no background commit runs while evaluators read.
		cfg.DisableLedgerLRUCache = true
		cfg.MaxAcctLookback = 2000
	}
	if g.cfgTweak != nil {
		g.cfgTweak(&cfg)
	}
	e.l = newSimpleLedgerFull(t, bookkeeping.MakeGenesisBalances(accts, e.sink, e.pool), cv, genHash, cfg, opts...)
	e.exec = execpool.MakeBacklog(nil, 0, execpool.LowPriority, nil)
	return e
}

func (e *cevEnv) close() {
	e.exec.Shutdown()
	e.l.Close()
}

// nextHeader is the header a proposer would start from (deterministic timestamp, as upstream nextBlock does).
func (e *cevEnv) nextHeader() bookkeeping.BlockHeader {
	hdr, err := e.l.BlockHdr(e.l.Latest())
	if err != nil {
		e.c.Harness("BlockHdr: %v", err)
	}
	next := bookkeeping.MakeBlock(hdr).BlockHeader
	next.TimeStamp = hdr.TimeStamp + 1
	return next
}

func (e *cevEnv) startEval(validate, generate bool, tracer logic.EvalTracer) *eval.BlockEvaluator {
	ev, err := eval.StartEvaluator(e.l, e.nextHeader(), eval.EvaluatorOptions{Validate: validate, Generate: generate, Tracer: tracer})
	if err != nil {
		e.c.Harness("StartEvaluator: %v", err)
	}
	return ev
}

// finish generates the block and installs seed/proposer as agreement would.
func (e *cevEnv) finish(ev *eval.BlockEvaluator, proposer basics.Address, eligible bool) (bookkeeping.Block, ledgercore.StateDelta, error) {
	var parts []basics.Address
	if !proposer.IsZero() {
		parts = []basics.Address{proposer}
	}
	ub, err := ev.GenerateBlock(parts)
	if err != nil {
		return bookkeeping.Block{}, ledgercore.StateDelta{}, err
	}
	// as upstream endBlock: the fee sink "proposes" unless a proposer is given (payouts then do not move money)
	prp := proposer
	if prp.IsZero() {
		prp = e.sink
	}
	seedSrc := prp
	blk := ub.UnfinishedBlock().WithProposer(committee.Seed(seedSrc), prp, eligible)
	return blk, ub.UnfinishedDeltas(), nil
}

// validate runs Ledger.Validate; withSigs=false replaces the verified-transaction cache by the upstream
// always-verified mock (as upstream validateWithoutSignatures does), so only the evaluator's own checks run.
func (e *cevEnv) validate(blk bookkeeping.Block, withSigs bool) (*ledgercore.ValidatedBlock, error) {
	if !withSigs {
		save := e.l.verifiedTxnCache
		defer func() { e.l.verifiedTxnCache = save }()
		e.l.verifiedTxnCache = verify.GetMockedCache(true)
		return e.l.Validate(context.Background(), blk, nil)
	}
	return e.l.Validate(context.Background(), blk, e.exec)
}

func (e *cevEnv) add(vb *ledgercore.ValidatedBlock) {
	if err := e.l.AddValidatedBlock(*vb, agreement.Certificate{}); err != nil {
		e.c.Harness("AddValidatedBlock: %v", err)
	}
	e.l.WaitForCommit(e.l.Latest())
}

// commit finishes, validates (no signatures) and adds the block built by ev.
func (e *cevEnv) commit(ev *eval.BlockEvaluator, proposer basics.Address) (*ledgercore.ValidatedBlock, error) {
	blk, _, err := e.finish(ev, proposer, true)
	if err != nil {
		return nil, fmt.Errorf("GenerateBlock: %w", err)
	}
	vb, err := e.validate(blk, false)
	if err != nil {
		return nil, fmt.Errorf("Validate: %w", err)
	}
	e.add(vb)
	return vb, nil
}

func (e *cevEnv) balance(a basics.Address) uint64 {
	ad, _, _, err := e.l.LookupLatest(a)
	if err != nil {
		e.c.Harness("LookupLatest: %v", err)
	}
	return ad.MicroAlgos.Raw
}

// header fields every transaction of this ledger needs
func (e *cevEnv) hdr(sender basics.Address, fee uint64, rnd basics.Round, note []byte) transactions.Header {
	return transactions.Header{Sender: sender, Fee: basics.MicroAlgos{Raw: fee}, FirstValid: rnd, LastValid: rnd + 50,
		GenesisHash: e.l.GenesisHash(), Note: note}
}

func (e *cevEnv) pay(sender, receiver basics.Address, amount, fee uint64, rnd basics.Round, note []byte) transactions.Transaction {
	return transactions.Transaction{Type: protocol.PaymentTx, Header: e.hdr(sender, fee, rnd, note),
		PaymentTxnFields: transactions.PaymentTxnFields{Receiver: receiver, Amount: basics.MicroAlgos{Raw: amount}}}
}

// cevGroupID is the reference group id: SHA-512/256 over "TG" || msgpack{"txlist": [32-byte ids...]} where each id is
// the transaction id computed with an empty Group field. The msgpack is written by hand so that the reference does
// not share the encoder of transactions.TxGroup.
func cevGroupID(txns []transactions.Transaction) crypto.Digest {
	buf := []byte("TG")
	buf = append(buf, 0x81, 0xa6)
	buf = append(buf, "txlist"...)
	buf = append(buf, 0x90|byte(len(txns))) // fixarray; groups have at most 16 members -> handled below
	if len(txns) > 15 {
		buf = buf[:len(buf)-1]
		buf = append(buf, 0xdc, byte(len(txns)>>8), byte(len(txns)))
	}
	for _, t := range txns {
		t.Group = crypto.Digest{}
		id := t.ID()
		buf = append(buf, 0xc4, 32)
		buf = append(buf, id[:]...)
	}
	return crypto.Hash(buf)
}

func cevSetGroup(txns []transactions.Transaction) {
	g := cevGroupID(txns)
	for i := range txns {
		txns[i].Group = g
	}
}

func cevWrap(stxns []transactions.SignedTxn) []transactions.SignedTxnWithAD {
	return transactions.WrapSignedTxnsWithAD(stxns)
}

func cevUnsigned(txns []transactions.Transaction) []transactions.SignedTxn {
	out := make([]transactions.SignedTxn, len(txns))
	for i := range txns {
		out[i].Txn = txns[i]
	}
	return out
}

// ---------------------------------------------------------------------------------------------
// a small universe with an asset and applications, used by C19 (failing groups) and C29 (rich blocks)

const cevCounterSrc = `#pragma version 10
txn ApplicationID
bz ok
txn NumAppArgs
bz incr
txna ApplicationArgs 0
byte "reject"
==
bnz reject
txna ApplicationArgs 0
byte "err"
==
bnz doerr
txna ApplicationArgs 0
byte "loop"
==
bnz loop
incr:
byte "n"
byte "n"
app_global_get
int 1
+
app_global_put
ok:
int 1
return
reject:
int 0
return
doerr:
err
loop:
int 1
pop
b loop
`

const cevBoxSrc = `#pragma version 10
txn ApplicationID
bz ok
txna ApplicationArgs 0
byte "create"
==
bz notcreate
txna ApplicationArgs 1
int 24
box_create
assert
b ok
notcreate:
txna ApplicationArgs 0
byte "delete"
==
bz notdelete
txna ApplicationArgs 1
box_del
assert
b ok
notdelete:
txna ApplicationArgs 0
byte "big"
==
bz notbig
txna ApplicationArgs 1
int 8192
box_create
assert
b ok
notbig:
txna ApplicationArgs 0
byte "put"
==
bz notput
txna ApplicationArgs 1
txna ApplicationArgs 2
box_put
b ok
notput:
txna ApplicationArgs 0
byte "putfail"
==
bz notputfail
txna ApplicationArgs 1
txna ApplicationArgs 2
box_put
err
notputfail:
txna ApplicationArgs 0
byte "replacefail"
==
bz notreplacefail
txna ApplicationArgs 1
int 0
txna ApplicationArgs 2
box_replace
err
notreplacefail:
txna ApplicationArgs 0
byte "splice"
==
bz notsplice
txna ApplicationArgs 1
int 0
int 24
txna ApplicationArgs 2
box_splice
b ok
notsplice:
txna ApplicationArgs 0
byte "splicefail"
==
bz notsplicefail
txna ApplicationArgs 1
int 0
int 24
txna ApplicationArgs 2
box_splice
err
notsplicefail:
txna ApplicationArgs 0
byte "check"
==
bz notcheck
txna ApplicationArgs 1
box_get
assert
txna ApplicationArgs 2
==
assert
b ok
notcheck:
txna ApplicationArgs 1
int 0
txna ApplicationArgs 2
box_replace
ok:
int 1
`

// pays 1000 to the caller; with arguments ("chain", x) then calls application Applications[1] with argument x
// (with "chain0" the inner call declares fee 0, so the outer transaction has to cover it)
const cevInnerSrc = `#pragma version 10
txn ApplicationID
bz ok
itxn_begin
int pay
itxn_field TypeEnum
txn Sender
itxn_field Receiver
int 1000
itxn_field Amount
itxn_submit
txn NumAppArgs
bz ok
itxn_begin
int appl
itxn_field TypeEnum
txna Applications 1
itxn_field ApplicationID
txna ApplicationArgs 1
itxn_field ApplicationArgs
txna ApplicationArgs 0
byte "chain0"
==
bz submit
int 0
itxn_field Fee
submit:
itxn_submit
ok:
int 1
`

// pays 500 to its caller and then fails if its argument is "fail"
const cevDeepSrc = `#pragma version 10
txn ApplicationID
bz ok
itxn_begin
int pay
itxn_field TypeEnum
txn Sender
itxn_field Receiver
int 500
itxn_field Amount
itxn_submit
txna ApplicationArgs 0
byte "fail"
==
bz ok
err
ok:
int 1
`

type cevUniverse struct {
	*cevEnv
	asset                     basics.AssetIndex // created by accts[0] (manager/freeze/clawback), accts[1..2] hold it, accts[3] holds it frozen, accts[4] is not opted in
	counter, box, inner, deep basics.AppIndex
	poor                      cevAcct // an account holding exactly the minimum balance + a little
	rekeyed                   cevAcct // accts-like account rekeyed to accts[5]
	noteCtr                   int
}

func cevAssemble(c *kit.Ctx, src string) []byte {
	ops, err := logic.AssembleString(src)
	if err != nil {
		c.Harness("assemble: %v", err)
	}
	return ops.Program
}

func (u *cevUniverse) note() []byte {
	u.noteCtr++
	return []byte(fmt.Sprintf("n%d", u.noteCtr))
}

func (u *cevUniverse) appCreate(sender basics.Address, src string, rnd basics.Round, gschema basics.StateSchema) transactions.Transaction {
	clear := cevAssemble(u.c, "#pragma version 10\nint 1")
	return transactions.Transaction{Type: protocol.ApplicationCallTx, Header: u.hdr(sender, u.proto.MinTxnFee, rnd, u.note()),
		ApplicationCallTxnFields: transactions.ApplicationCallTxnFields{ApprovalProgram: cevAssemble(u.c, src), ClearStateProgram: clear, GlobalStateSchema: gschema}}
}

func (u *cevUniverse) appCall(sender basics.Address, app basics.AppIndex, fee uint64, rnd basics.Round, args ...string) transactions.Transaction {
	t := transactions.Transaction{Type: protocol.ApplicationCallTx, Header: u.hdr(sender, fee, rnd, u.note()),
		ApplicationCallTxnFields: transactions.ApplicationCallTxnFields{ApplicationID: app}}
	for _, a := range args {
		t.ApplicationArgs = append(t.ApplicationArgs, []byte(a))
	}
	return t
}

func (u *cevUniverse) axfer(sender, receiver basics.Address, amount uint64, rnd basics.Round) transactions.Transaction {
	return transactions.Transaction{Type: protocol.AssetTransferTx, Header: u.hdr(sender, u.proto.MinTxnFee, rnd, u.note()),
		AssetTransferTxnFields: transactions.AssetTransferTxnFields{XferAsset: u.asset, AssetAmount: amount, AssetReceiver: receiver}}
}

// mustBlock applies the transactions (each a singleton group) in one block and commits it.
func (u *cevUniverse) mustBlock(txns ...transactions.Transaction) *ledgercore.ValidatedBlock {
	ev := u.startEval(true, true, nil)
	for i := range txns {
		txns[i].FirstValid = ev.Round()
		txns[i].LastValid = ev.Round() + 50
		if err := ev.TransactionGroup(cevWrap(cevUnsigned(txns[i : i+1]))...); err != nil {
			u.c.Harness("universe setup: transaction %d (%s) failed: %v", i, txns[i].Type, err)
		}
	}
	vb, err := u.commit(ev, basics.Address{})
	if err != nil {
		u.c.Harness("universe setup: %v", err)
	}
	return vb
}

// cevNewUniverse needs at least 8 keyed accounts.
func cevNewUniverse(c *kit.Ctx, t testing.TB, r *kit.Rand, cv protocol.ConsensusVersion, defaultCaches bool, sinkBalance ...uint64) *cevUniverse {
	poor := cevKey(r)
	rek := cevKey(r)
	proto := config.Consensus[cv]
	extra := map[basics.Address]basics.AccountData{
		basics.Address(poor.SignatureVerifier): {MicroAlgos: basics.MicroAlgos{Raw: proto.MinBalance + 5*proto.MinTxnFee}, Status: basics.Offline},
		basics.Address(rek.SignatureVerifier):  {MicroAlgos: basics.MicroAlgos{Raw: 1_000_000_000}, Status: basics.Offline},
	}
	sinkBal := uint64(50_000_000_000)
	if len(sinkBalance) > 0 {
		sinkBal = sinkBalance[0]
	}
	env := cevNewEnv(c, t, r, cv, cevGenesis{nAccts: 8, balance: 1_000_000_000_000, sinkBal: sinkBal, extra: extra, defaultCaches: defaultCaches})
	u := &cevUniverse{cevEnv: env, poor: cevAcct{addr: basics.Address(poor.SignatureVerifier), sk: poor}, rekeyed: cevAcct{addr: basics.Address(rek.SignatureVerifier), sk: rek}}
	a := env.accts
	rnd := basics.Round(1)
	acfg := transactions.Transaction{Type: protocol.AssetConfigTx, Header: u.hdr(a[0].addr, proto.MinTxnFee, rnd, u.note()),
		AssetConfigTxnFields: transactions.AssetConfigTxnFields{AssetParams: basics.AssetParams{Total: 1_000_000, UnitName: "X", AssetName: "cev",
			Manager: a[0].addr, Freeze: a[0].addr, Clawback: a[0].addr, Reserve: a[0].addr}}}
	rekey := u.pay(u.rekeyed.addr, a[0].addr, 0, proto.MinTxnFee, rnd, u.note())
	rekey.RekeyTo = a[5].addr
	vb := u.mustBlock(acfg,
		u.appCreate(a[0].addr, cevCounterSrc, rnd, basics.StateSchema{NumUint: 1}),
		u.appCreate(a[0].addr, cevBoxSrc, rnd, basics.StateSchema{}),
		u.appCreate(a[0].addr, cevInnerSrc, rnd, basics.StateSchema{}),
		u.appCreate(a[0].addr, cevDeepSrc, rnd, basics.StateSchema{}),
		rekey)
	ps := vb.Block().Payset
	u.asset = ps[0].ApplyData.ConfigAsset
	u.counter, u.box, u.inner, u.deep = ps[1].ApplyData.ApplicationID, ps[2].ApplyData.ApplicationID, ps[3].ApplyData.ApplicationID, ps[4].ApplyData.ApplicationID
	if u.asset == 0 || u.counter == 0 || u.box == 0 || u.inner == 0 || u.deep == 0 {
		c.Harness("universe setup: ids not reported in ApplyData: %+v", ps)
	}
	rnd = 2
	optin := func(acct cevAcct) transactions.Transaction { return u.axfer(acct.addr, acct.addr, 0, rnd) }
	freeze := transactions.Transaction{Type: protocol.AssetFreezeTx, Header: u.hdr(a[0].addr, proto.MinTxnFee, rnd, u.note()),
		AssetFreezeTxnFields: transactions.AssetFreezeTxnFields{FreezeAccount: a[3].addr, FreezeAsset: u.asset, AssetFrozen: true}}
	u.mustBlock(optin(a[1]), optin(a[2]), optin(a[3]),
		u.axfer(a[0].addr, a[1].addr, 10_000, rnd), u.axfer(a[0].addr, a[2].addr, 10_000, rnd), u.axfer(a[0].addr, a[3].addr, 10_000, rnd),
		freeze,
		u.pay(a[0].addr, u.box.Address(), 10_000_000, proto.MinTxnFee, rnd, u.note()),
		u.pay(a[0].addr, u.inner.Address(), 10_000_000, proto.MinTxnFee, rnd, u.note()),
		u.pay(a[0].addr, u.deep.Address(), 10_000_000, proto.MinTxnFee, rnd, u.note()))
	return u
}

// cevInfra reports errors that come from the test database rather than from the code under test.
func cevInfra(err error) bool {
	if err == nil {
		return false
	}
	s := err.Error()
	return strings.Contains(s, "database table is locked") || strings.Contains(s, "database is locked")
}
