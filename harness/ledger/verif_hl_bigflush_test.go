package ledger

// HL schedule action "big flush": the ledger's own commit goroutine is stalled (hook after
// prepareCommit, where no lock is held) while several hundred blocks are added, so that the
// commit that follows the release covers more than 500 rounds at once — what a node does after a
// stalled disk, during catch-up or at start-up replay. Code paths taken only by such commits
// (e.g. the "clear the backing array" loops of the account trackers) are otherwise never run.

import (
	"sync/atomic"

	"github.com/algorand/go-algorand/crypto/merklesignature"
	"github.com/algorand/go-algorand/data/basics"
	"github.com/algorand/go-algorand/data/transactions"
	"github.com/algorand/go-algorand/data/txntest"
	"github.com/algorand/go-algorand/ledger/eval"
	"github.com/algorand/go-algorand/ledger/ledgercore"
	"github.com/algorand/go-algorand/protocol"
	"github.com/algorand/go-algorand/util/verifhook"
)

const (
	hlStallPoint     = "ledger.tr.commitRound.afterPrepare"
	hlCommittedPoint = "ledger.tr.commitRound.afterPostCommit"
)

// bigFlush adds n generated blocks while the committer is stalled, releases it and lets the
// ledger commit everything eligible (the ledger's own scheduling decides whether that happens in
// the commit it schedules itself or in the forced one). It returns the number of rounds covered
// by the largest single commit, measured on the commit goroutine where dbRound advances.
func (s *hlSim) bigFlush(n int) uint64 {
	s.settle()
	release := make(chan struct{})
	var stalled atomic.Bool
	verifhook.Set(hlStallPoint, func(string, uint64) {
		if stalled.CompareAndSwap(false, true) {
			<-release
		}
	})
	last := s.l.LatestTrackerCommitted() // only the commit goroutine touches last/maxSpan until settle() returns
	var tailAccepted, tailRejected int
	var tailErr string
	var maxSpan uint64
	var bounds []basics.Round
	l := s.l
	verifhook.Set(hlCommittedPoint, func(string, uint64) {
		cur := l.LatestTrackerCommitted()
		if span := uint64(cur - last); span > maxSpan {
			maxSpan = span
		}
		last = cur
		bounds = append(bounds, cur+1)
	})
	for i := 0; i < n; i++ {
		if i == n-60 {
			// the tail of the range: some offline accounts register online, then every block moves
			// money of every online account and of a few others, so that whichever round ends up
			// first-unflushed carries online-account deltas
			first := true
			s.extraOffer = func(ev *eval.BlockEvaluator) {
				m, rnd := s.m, s.m.latest
				send := func(a basics.Address, d ledgercore.AccountData, t txntest.Txn) {
					// rekeyed senders: name the current authorizer (the generator's own kinds never do)
					t.Sender = a
					t.Note = s.g.nextNote()
					t.GenesisHash = s.l.GenesisHash()
					t.FirstValid = ev.Round()
					t.FillDefaults(ev.ConsensusParams())
					stxn := t.SignedTxn()
					if !d.AuthAddr.IsZero() && d.AuthAddr != a {
						stxn.AuthAddr = d.AuthAddr
					}
					if err := s.offerSigned(ev, "tail", []transactions.SignedTxn{stxn}); err != nil {
						tailRejected++
						tailErr = err.Error()
					} else {
						tailAccepted++
					}
				}
				for j, a := range s.u.keyed {
					d := m.acct(rnd, a)
					if d.MicroAlgos.Raw < 5_000_000 {
						continue
					}
					if first && d.Status == basics.Offline && j%2 == 0 {
						// accounts that come online NOW: they have no entry in the online-accounts cache
						// (filled at load time), so their lookups really go through deltas and DB
						t := txntest.Txn{Type: protocol.KeyRegistrationTx, VoteFirst: ev.Round(), VoteLast: ev.Round() + 400, VoteKeyDilution: 10}
						s.r.Fill(t.VotePK[:])
						s.r.Fill(t.SelectionPK[:])
						var spk merklesignature.Commitment
						s.r.Fill(spk[:])
						t.StateProofPK = spk
						send(a, d, t)
						continue
					}
					if d.Status == basics.Online || j%4 == 1 {
						send(a, d, txntest.Txn{Type: protocol.PaymentTx, Receiver: s.u.keyed[(j+1)%len(s.u.keyed)], Amount: 1 + uint64(s.r.Intn(1000))})
					}
				}
				first = false
			}
		}
		s.step()
	}
	s.extraOffer = nil
	verifhook.Set(hlStallPoint, nil)
	close(release)
	s.settle()
	s.flush()
	verifhook.Set(hlCommittedPoint, nil)
	s.probeRounds = append(s.probeRounds[:0], bounds...)
	s.tr("big-flush: %d blocks added during a stalled commit (stalled=%v); largest single commit %d rounds; db %d latest %d; tail payments accepted %d rejected %d %s; commit boundaries %v", n, stalled.Load(), maxSpan, s.l.LatestTrackerCommitted(), s.l.Latest(), tailAccepted, tailRejected, tailErr, bounds)
	s.c.Count("bigflush.tail_payments_accepted", tailAccepted)
	s.c.Max("bigflush.max_single_commit_rounds", int64(maxSpan))
	if maxSpan > 500 {
		s.c.Count("bigflush.single_commit_over_500_rounds", 1)
	}
	return maxSpan
}
