package ledger

// C24: fees and proposer payouts stay within their limits.
//
// (a) A group is accepted only if its fees cover the group's minimum-fee requirement. Reference (big integers):
//     required = ceil(MinTxnFee * usage / 1e6), usage = sum over members of the per-transaction factor of the
//     protocol in force (1e6; + per-byte surcharge for note bytes beyond MaxTxnNoteBytes, application arguments
//     beyond MaxAppTotalArgLen and program bytes beyond the basic page allowance; + 2e6 for a Falcon-1024
//     authorization; 0 for the state-proof transaction; heartbeat discount) + per-byte surcharge for logic-signature
//     program bytes beyond the pooled allowance. Oracle: a group accepted by BlockEvaluator.TransactionGroup whose
//     fee total is below `required` is a violation. Fees are pooled: only the total counts.
// (b) A validated block's ProposerPayout never exceeds min(floor(percent * fees / 100) + bonus,
//     max(0, sink balance before the payout - sink minimum balance)), its FeesCollected equals the fees actually
//     paid into the sink by the block's transactions (top level and inner; transactions sent by the sink excluded),
//     and a non-zero payout goes to an account that exists. The reference takes fees and sink inflow from the
//     block's payset, never from the evaluator. Oracle: Ledger.Validate accepting a block (honest or mutated) that
//     breaks one of these is a violation; after adding an honest block the sink must hold what the reference
//     predicts and, if it paid out, at least its minimum balance.
// Lower-than-allowed payouts are legitimate (a proposer may be altruistic; agreement zeroes the payout of an
// ineligible proposer - eligibility is not the evaluator's business) and are never flagged.

import (
	"fmt"
	"math/big"
	"strings"
	"testing"

	"github.com/algorand/go-algorand/config"
	"github.com/algorand/go-algorand/data/basics"
	"github.com/algorand/go-algorand/data/bookkeeping"
	"github.com/algorand/go-algorand/data/transactions"
	"github.com/algorand/go-algorand/ledger/eval"
	"github.com/algorand/go-algorand/protocol"
	"verif.local/kit"
)

const c24DecayProto = protocol.ConsensusVersion("verif-c24-bonus-decay")

func init() {
	// Future with a bonus that decays every second round and a 75% fee share: payout arithmetic on changing bonuses.
	p := config.Consensus[protocol.ConsensusFuture]
	p.ApprovedUpgrades = map[protocol.ConsensusVersion]uint64{}
	p.Bonus.BaseAmount = 7_000_001
	p.Bonus.DecayInterval = 2
	p.Payouts.Percent = 75
	config.Consensus[c24DecayProto] = p
}

func c24Surcharge(proto config.ConsensusParams, excess int) *big.Int {
	if excess <= 0 {
		return new(big.Int)
	}
	return new(big.Int).Mul(new(big.Int).SetUint64(uint64(proto.PerByteTxnSurcharge)), big.NewInt(int64(excess)))
}

// c24RefUsage is the reference fee usage of a group in millionths of a minimum fee.
func c24RefUsage(proto config.ConsensusParams, g []transactions.SignedTxn) *big.Int {
	usage := new(big.Int)
	lsigBytes := 0
	for i := range g {
		s := &g[i]
		tx := &s.Txn
		lsigBytes += len(s.Lsig.Logic)
		f := big.NewInt(1_000_000)
		f.Add(f, c24Surcharge(proto, len(tx.Note)-proto.MaxTxnNoteBytes))
		switch tx.Type {
		case protocol.StateProofTx:
			f.SetInt64(0)
		case protocol.HeartbeatTx:
			discount := false
			if proto.PerByteTxnSurcharge != 0 {
				discount = tx.HeartbeatTxnFields != nil && tx.HeartbeatTxnFields.HbChallengeDiscount
			} else {
				discount = tx.Group.IsZero()
			}
			if discount {
				f.Sub(f, big.NewInt(1_000_000))
				if f.Sign() < 0 {
					f.SetInt64(0)
				}
			}
		case protocol.ApplicationCallTx:
			basic := proto.MaxAppTotalProgramLen * (1 + proto.MaxExtraAppProgramPages)
			f.Add(f, c24Surcharge(proto, len(tx.ApprovalProgram)+len(tx.ClearStateProgram)-basic))
			args := 0
			for _, a := range tx.ApplicationArgs {
				args += len(a)
			}
			f.Add(f, c24Surcharge(proto, args-proto.MaxAppTotalArgLen))
		}
		// signature surcharge: a Falcon-1024 authorization (top level, else as logic-signature delegation) costs two more
		pq := s.PQsig.Scheme
		if len(s.PQsig.PublicKey) == 0 && len(s.PQsig.Signature) == 0 && s.PQsig.Scheme == (protocol.PQScheme{}) && s.PQsig.Salt == 0 {
			pq = s.Lsig.PQsig.Scheme
		}
		if pq == protocol.PQSchemeFalcon1024 {
			f.Add(f, big.NewInt(2_000_000))
		}
		usage.Add(usage, f)
	}
	usage.Add(usage, c24Surcharge(proto, lsigBytes-len(g)*int(proto.LogicSigMaxSize)))
	return usage
}

func c24RefRequired(proto config.ConsensusParams, g []transactions.SignedTxn) *big.Int {
	n := new(big.Int).Mul(new(big.Int).SetUint64(proto.MinTxnFee), c24RefUsage(proto, g))
	n.Add(n, big.NewInt(999_999))
	return n.Div(n, big.NewInt(1_000_000))
}

func c24Total(g []transactions.SignedTxn) *big.Int {
	t := new(big.Int)
	for i := range g {
		t.Add(t, new(big.Int).SetUint64(g[i].Txn.Fee.Raw))
	}
	return t
}

// c24Arith: CheckGroupFees on boundary values against big-integer arithmetic.
func c24Arith(c *kit.Ctx) {
	n := c.N(20000, 400000)
	for i := 0; i < n; i++ {
		r := c.Rand(24, 1, uint64(i))
		minFee := []uint64{0, 1, 1000, 1001, 999_999, r.Boundary64()}[r.Intn(6)]
		usage := []uint64{0, 1, 999_999, 1_000_000, 1_000_001, 16_000_000, uint64(r.Intn(40_000_000)), r.Boundary64()}[r.Intn(8)]
		need := new(big.Int).Mul(new(big.Int).SetUint64(minFee), new(big.Int).SetUint64(usage))
		need.Add(need, big.NewInt(999_999))
		need.Div(need, big.NewInt(1_000_000))
		var paid uint64
		if need.IsUint64() {
			paid = need.Uint64()
			switch r.Intn(5) {
			case 0:
				if paid > 0 {
					paid--
				}
			case 1:
				paid++
			case 2:
				paid = r.Boundary64()
			}
		} else {
			paid = ^uint64(0) - uint64(r.Intn(2))
		}
		var err error
		if c.Guard("CheckGroupFees", map[string]any{"minFee": minFee, "usage": usage, "paid": paid}, func() {
			err = eval.CheckGroupFees(basics.MicroAlgos{Raw: paid}, basics.Micros(usage), basics.MicroAlgos{Raw: minFee})
		}) {
			continue
		}
		c.Eval(1)
		covered := new(big.Int).SetUint64(paid).Cmp(need) >= 0
		if err == nil && !covered {
			c.Violation("accepts-underpaid-group", map[string]any{"via": "CheckGroupFees", "min_fee": minFee, "usage_micros": usage, "fees_paid": paid, "required": need.String()})
			return
		}
		if err != nil && !covered {
			c.Count("arith_underpaid_rejected", 1)
		} else if err == nil {
			c.Count("arith_covered_accepted", 1)
		} else {
			c.Count("arith_covered_but_rejected", 1) // saturation/overflow corner: stricter than needed, legitimate
		}
	}
}

type c24Block struct {
	fees       *big.Int // paid into the sink by non-sink senders (top level + inner)
	sinkInflow *big.Int // everything that reaches the sink: fees + payments to the sink
}

func c24WalkFees(sink basics.Address, tx *transactions.Transaction, ad *transactions.ApplyData, out *c24Block) {
	if tx.Sender != sink {
		out.fees.Add(out.fees, new(big.Int).SetUint64(tx.Fee.Raw))
		out.sinkInflow.Add(out.sinkInflow, new(big.Int).SetUint64(tx.Fee.Raw))
	}
	if tx.Type == protocol.PaymentTx {
		if tx.Receiver == sink && tx.Sender != sink {
			out.sinkInflow.Add(out.sinkInflow, new(big.Int).SetUint64(tx.Amount.Raw))
		}
		if tx.CloseRemainderTo == sink {
			out.sinkInflow.Add(out.sinkInflow, new(big.Int).SetUint64(ad.ClosingAmount.Raw))
		}
	}
	for i := range ad.EvalDelta.InnerTxns {
		in := &ad.EvalDelta.InnerTxns[i]
		c24WalkFees(sink, &in.SignedTxn.Txn, &in.ApplyData, out)
	}
}

func c24Scan(blk bookkeeping.Block) c24Block {
	out := c24Block{fees: new(big.Int), sinkInflow: new(big.Int)}
	for i := range blk.Payset {
		st, ad, err := blk.BlockHeader.DecodeSignedTxn(blk.Payset[i])
		if err != nil {
			continue
		}
		c24WalkFees(blk.FeeSink, &st.Txn, &ad, &out)
	}
	return out
}

// c24Judge is the reference verdict on a block's payout fields. sinkStart is the sink balance before the block,
// proposerExists whether the proposer account is non-empty at the end of the block.
func c24Judge(proto config.ConsensusParams, blk bookkeeping.Block, sinkStart uint64, proposerExists bool) (ok bool, why string, allowed *big.Int) {
	sc := c24Scan(blk)
	allowed = new(big.Int).Mul(big.NewInt(int64(proto.Payouts.Percent)), sc.fees)
	allowed.Div(allowed, big.NewInt(100))
	allowed.Add(allowed, new(big.Int).SetUint64(blk.Bonus.Raw))
	avail := new(big.Int).Add(new(big.Int).SetUint64(sinkStart), sc.sinkInflow)
	avail.Sub(avail, new(big.Int).SetUint64(proto.MinBalance))
	if avail.Sign() < 0 {
		avail.SetInt64(0)
	}
	if avail.Cmp(allowed) < 0 {
		allowed = avail
	}
	if new(big.Int).SetUint64(blk.FeesCollected.Raw).Cmp(sc.fees) != 0 {
		return false, fmt.Sprintf("FeesCollected %d != fees paid by the block's transactions %s", blk.FeesCollected.Raw, sc.fees), allowed
	}
	if new(big.Int).SetUint64(blk.ProposerPayout().Raw).Cmp(allowed) > 0 {
		return false, fmt.Sprintf("ProposerPayout %d > allowed %s", blk.ProposerPayout().Raw, allowed), allowed
	}
	if blk.ProposerPayout().Raw > 0 && !proposerExists {
		return false, "non-zero payout to a closed/non-existent proposer", allowed
	}
	return true, "", allowed
}

func TestVerifC24FeesPayouts(t *testing.T) {
	c := kit.Start(t, "C24", "fees-payouts")
	defer c.Finish()
	c.Rule("(arithmetic) CheckGroupFees on boundary (min fee, usage, paid) triples against big integers; (groups) per block 6-10 groups of 1..16 members (payments with notes up to the absolute maximum, application calls with arguments beyond the free allowance, members carrying a Falcon PQ signature envelope or an oversized logic-signature program) whose pooled fee total is required-2 .. required+1 or generous, spread arbitrarily incl. zero-fee members, offered to a real evaluator; (payouts) fee sink balances from 0 and around the minimum balance, around the bonus, to large; Future / v41 / v40 and a variant with 75% share and a bonus decaying every second round; direct payments into the sink; a failing group with large fees inside the block; every honest block and its mutants (payout -1 / +1 / x2 / max, FeesCollected +-1 / 0 / x2 / raised together with the payout, proposer closed or never funded) go to Ledger.Validate; distinct = (protocol, sink regime, fee delta class) and (protocol, sink regime, block mutation)")
	c.Assume("trusted: header Bonus (validated by PreCheck, see C25/C26), msgpack decoding of the payset; sink minimum balance = MinBalance (the sink holds no assets/apps in these runs)")
	c24Arith(c)
	cvs := []protocol.ConsensusVersion{protocol.ConsensusFuture, c24DecayProto, protocol.ConsensusV41, protocol.ConsensusV40}
	ncases := c.N(16, 320)
	for ci := 0; ci < ncases && c.Violations() < 20; ci++ {
		c24Case(c, t, ci, cvs[(ci+ci/8)%len(cvs)])
	}
	c.Require("arith_underpaid_rejected", int64(c.N(2000, 40000)))
	c.Require("arith_covered_accepted", int64(c.N(2000, 40000)))
	c.Require("groups_underpaid_rejected", int64(c.N(100, 2500)))
	c.Require("groups_underpaid_by_one_rejected", int64(c.N(30, 700)))
	c.Require("groups_exactly_covered_accepted", int64(c.N(30, 700)))
	c.Require("groups_with_surcharge", int64(c.N(50, 1200)))
	c.Require("honest_blocks_validated", int64(c.N(40, 1000)))
	c.Require("honest_blocks_claiming_the_reference_maximum", int64(c.N(30, 800)))
	c.Require("payout_limited_by_sink_minimum", int64(c.N(5, 100)))
	c.Require("payout_not_limited_by_sink", int64(c.N(10, 200)))
	c.Require("payout_zero_because_sink_at_or_below_minimum", int64(c.N(3, 60)))
	c.Require("block_mutants_rejected", int64(c.N(200, 5000)))
	c.Require("failed_group_fees_not_collected", int64(c.N(20, 500)))
	for _, k := range []string{"mut:payout+1", "mut:payout-x2", "mut:payout-max", "mut:fees+1", "mut:fees-1", "mut:proposer-closed"} {
		c.Require(k, 5)
	}
}

func c24Case(c *kit.Ctx, t testing.TB, ci int, cv protocol.ConsensusVersion) {
	r := c.Rand(24, 2, uint64(ci))
	proto := config.Consensus[cv]
	minb := proto.MinBalance
	regimes := []struct {
		name string
		bal  uint64
	}{
		{"zero", 0}, {"below-min", minb/2 - uint64(r.Intn(1000))}, {"at-min", minb}, {"just-above-min", minb + 1 + uint64(r.Intn(5000))},
		{"below-bonus", minb + 3_000_000 + uint64(r.Intn(1_000_000))}, {"around-bonus", minb + proto.Bonus.BaseAmount - 2000 + uint64(r.Intn(4000))},
		{"large", 1_000_000_000_000 + r.Uint64()%1_000_000_000}, {"huge", 9_000_000_000_000_000},
	}
	reg := regimes[ci%len(regimes)]
	u := cevNewUniverse(c, t, r, cv, ci%4 == 3, reg.bal)
	defer u.close()
	a := u.accts
	proposer := a[7].addr
	ghost := cevKey(r) // never funded
	nblocks := r.Range(4, 6)
	for bi := 0; bi < nblocks && c.Violations() < 20; bi++ {
		sinkStart := u.balance(u.sink)
		ev := u.startEval(true, true, nil)
		rnd := ev.Round()
		caseID := fmt.Sprintf("seed=%d case=%d block=%d proto=%s sink=%s(%d)", c.Seed, ci, bi, cv, reg.name, sinkStart)
		ngroups := r.Range(6, 10)
		tiny := bi == 0 && (reg.name == "zero" || reg.name == "below-min") // a first block whose fees leave the sink below its minimum
		if tiny {
			ngroups = 1
		}
		for gi := 0; gi < ngroups; gi++ {
			n := r.Range(1, 16)
			if r.Chance(1, 3) || tiny {
				n = 1
			}
			txns := make([]transactions.Transaction, n)
			surcharged := false
			for i := range txns {
				switch r.Pick([]int{50, 25, 25}) {
				case 0:
					txns[i] = u.pay(a[r.Intn(4)].addr, a[4+r.Intn(3)].addr, uint64(r.Range(0, 1000)), 0, rnd, u.note())
				case 1:
					nl := r.Range(0, proto.MaxAbsoluteTxnNoteBytes)
					if r.Bool() {
						nl = min(proto.MaxTxnNoteBytes+r.Range(-1, 1), proto.MaxAbsoluteTxnNoteBytes)
					}
					note := append(u.note(), r.Bytes(max(0, nl-8))...)
					if len(note) > proto.MaxAbsoluteTxnNoteBytes {
						note = note[:proto.MaxAbsoluteTxnNoteBytes]
					}
					txns[i] = u.pay(a[r.Intn(4)].addr, a[4+r.Intn(3)].addr, 1, 0, rnd, note)
					surcharged = surcharged || len(note) > proto.MaxTxnNoteBytes
				case 2:
					txns[i] = u.appCall(a[r.Intn(4)].addr, u.counter, 0, rnd)
					al := r.Range(0, proto.MaxAbsoluteTotalArgLen)
					if r.Bool() {
						al = min(proto.MaxAppTotalArgLen+r.Range(-1, 1), proto.MaxAbsoluteTotalArgLen)
					}
					// first argument is not one of the command words of the counter application
					args := [][]byte{[]byte("x")}
					left := al - 1
					for left > 0 && len(args) < proto.MaxAppArgs {
						k := min(left, 4096)
						args = append(args, r.Bytes(k))
						left -= k
					}
					txns[i].ApplicationArgs = args
					tot := 0
					for _, x := range args {
						tot += len(x)
					}
					surcharged = surcharged || tot > proto.MaxAppTotalArgLen
				}
			}
			if n > 1 {
				cevSetGroup(txns)
			}
			g := cevUnsigned(txns)
			// authorization envelopes that carry a fee surcharge (the evaluator does not verify signatures, it prices them)
			for i := range g {
				if proto.PQSigEnabled() && r.Chance(1, 8) {
					g[i].PQsig = transactions.PQSig{Scheme: protocol.PQSchemeFalcon1024, PublicKey: r.Bytes(8), Signature: r.Bytes(8)}
					surcharged = true
				} else if proto.PerByteTxnSurcharge != 0 && r.Chance(1, 8) {
					g[i].Lsig.Logic = r.Bytes(r.Range(1, int(proto.MaxAbsoluteLogicSigProgramSize)))
				}
			}
			lsigTotal := 0
			for i := range g {
				lsigTotal += len(g[i].Lsig.Logic)
			}
			surcharged = surcharged || lsigTotal > n*int(proto.LogicSigMaxSize)
			// fees are part of the transaction: set them before the group id. So: choose the fee vector first.
			required := c24RefRequired(proto, g)
			delta := []int64{-2, -1, -1, 0, 0, 1, int64(r.Intn(5000))}[r.Intn(7)]
			total := new(big.Int).Add(required, big.NewInt(delta))
			if total.Sign() < 0 {
				total.SetInt64(0)
			}
			left := total.Uint64()
			for _, i := range r.Perm(n) {
				var f uint64
				switch {
				case r.Chance(1, 3):
					f = 0
				default:
					f = left
					if r.Bool() && left > 0 {
						f = r.Uint64() % (left + 1)
					}
				}
				g[i].Txn.Fee.Raw = f
				left -= f
			}
			// whatever is left goes to a random member
			g[r.Intn(n)].Txn.Fee.Raw += left
			if n > 1 {
				tt := make([]transactions.Transaction, n)
				for i := range g {
					tt[i] = g[i].Txn
				}
				cevSetGroup(tt)
				for i := range g {
					g[i].Txn.Group = tt[i].Group
				}
			}
			paid := c24Total(g)
			var err error
			if c.Guard("TransactionGroup", map[string]any{"case": caseID, "group": gi}, func() { err = ev.TransactionGroup(cevWrap(g)...) }) {
				return
			}
			if cevInfra(err) {
				c.Harness("test database error: %v", err)
			}
			c.Eval(1)
			cls := "generous"
			switch {
			case delta < -1:
				cls = "short-by-2"
			case delta == -1:
				cls = "short-by-1"
			case delta == 0:
				cls = "exact"
			case delta == 1:
				cls = "plus-1"
			}
			c.Distinct(fmt.Sprintf("%s|%s|fee:%s|surcharge:%v", cv, reg.name, cls, surcharged))
			if surcharged {
				c.Count("groups_with_surcharge", 1)
			}
			covered := paid.Cmp(required) >= 0
			if err == nil && !covered {
				c.Violation("accepts-underpaid-group", map[string]any{"case": caseID, "group_index": gi, "members": n, "fees_paid": paid.String(), "required_by_reference": required.String(),
					"usage_micros": c24RefUsage(proto, g).String(), "group": fmt.Sprintf("%x", protocol.EncodeReflect(g))})
				return
			}
			switch {
			case err != nil && !covered:
				c.Count("groups_underpaid_rejected", 1)
				if delta == -1 {
					c.Count("groups_underpaid_by_one_rejected", 1)
				}
			case err == nil && delta == 0:
				c.Count("groups_exactly_covered_accepted", 1)
				c.Count("groups_covered_accepted", 1)
			case err == nil:
				c.Count("groups_covered_accepted", 1)
			case strings.Contains(err.Error(), "fees is less than"):
				c.Count("groups_covered_but_rejected_for_fees", 1)
				c.Observation("C24: a group whose fees cover the reference requirement was rejected for fees (stricter than the reference, not a violation): %s group %d: paid %s required %s: %v", caseID, gi, paid, required, err)
			default:
				c.Count("groups_covered_rejected_other_reason", 1)
			}
		}
		// direct payments into the sink (balance, but not fees)
		if r.Chance(1, 2) && !tiny {
			p := u.pay(a[0].addr, u.sink, uint64(r.Range(1, 3_000_000)), proto.MinTxnFee, rnd, u.note())
			if err := ev.TransactionGroup(cevWrap(cevUnsigned([]transactions.Transaction{p}))...); err != nil {
				c.Harness("payment to the sink rejected: %v", err)
			}
		}
		// a failing group with large fees: nothing of it may be collected
		{
			big1 := u.pay(a[1].addr, a[5].addr, 1, 50_000_000+uint64(r.Intn(1000)), rnd, u.note())
			bad := u.pay(u.poor.addr, a[5].addr, 10*proto.MinBalance, proto.MinTxnFee, rnd, u.note())
			tt := []transactions.Transaction{big1, bad}
			cevSetGroup(tt)
			if err := ev.TransactionGroup(cevWrap(cevUnsigned(tt))...); err == nil {
				c.Harness("the overspending group was accepted")
			}
			c.Count("failed_group_fees_not_collected", 1)
		}
		prp := proposer
		blk, _, err := u.finish(ev, prp, true)
		if err != nil {
			c.Harness("GenerateBlock: %v", err)
		}
		okRef, why, allowed := c24Judge(proto, blk, sinkStart, true)
		validated, verr := u.validate(blk, false)
		c.Eval(1)
		if !okRef {
			// The evaluator in generate mode is the code under test too: a block it proposes must respect the limits
			// ("a block's proposer payout never exceeds ...") whether or not validators would later reject it.
			key := "generated-block-breaks-payout-limits"
			if verr == nil {
				key = "block-breaking-payout-limits-validated"
			}
			c.Violation(key, map[string]any{"case": caseID, "which": "the generator's own block", "validated": verr == nil, "reference": why,
				"fees_collected": blk.FeesCollected.Raw, "payout": blk.ProposerPayout().Raw, "bonus": blk.Bonus.Raw, "allowed": allowed.String(), "block": fmt.Sprintf("%x", protocol.Encode(&blk))})
			return
		}
		if verr != nil {
			if cevInfra(verr) {
				c.Harness("test database error: %v", verr)
			}
			c.Observation("C24: honest block rejected (not a C24 violation; reference verdict ok=%v %s): %s: %v", okRef, why, caseID, verr)
			c.Count("honest_blocks_rejected", 1)
			return
		}
		c.Count("honest_blocks_validated", 1)
		if new(big.Int).SetUint64(blk.ProposerPayout().Raw).Cmp(allowed) == 0 {
			c.Count("honest_blocks_claiming_the_reference_maximum", 1)
		}
		sc := c24Scan(blk)
		uncapped := new(big.Int).Mul(big.NewInt(int64(proto.Payouts.Percent)), sc.fees)
		uncapped.Div(uncapped, big.NewInt(100))
		uncapped.Add(uncapped, new(big.Int).SetUint64(blk.Bonus.Raw))
		if allowed.Cmp(uncapped) == 0 && allowed.Sign() > 0 {
			c.Count("payout_not_limited_by_sink", 1)
		}
		if allowed.Cmp(uncapped) < 0 {
			c.Count("payout_limited_by_sink_minimum", 1)
			if allowed.Sign() == 0 {
				c.Count("payout_zero_because_sink_at_or_below_minimum", 1)
			}
		}
		// mutants of the payout fields
		type mut struct {
			name string
			f    func(b *bookkeeping.Block) bool
			gone bool // proposer does not exist
		}
		muts := []mut{
			{"payout-1", func(b *bookkeeping.Block) bool {
				if b.BlockHeader.ProposerPayout.Raw == 0 {
					return false
				}
				b.BlockHeader.ProposerPayout.Raw--
				return true
			}, false},
			{"payout+1", func(b *bookkeeping.Block) bool { b.BlockHeader.ProposerPayout.Raw++; return true }, false},
			{"payout-x2", func(b *bookkeeping.Block) bool {
				if b.BlockHeader.ProposerPayout.Raw == 0 {
					b.BlockHeader.ProposerPayout.Raw = 2
				} else {
					b.BlockHeader.ProposerPayout.Raw *= 2
				}
				return true
			}, false},
			{"payout-max", func(b *bookkeeping.Block) bool { b.BlockHeader.ProposerPayout.Raw = ^uint64(0); return true }, false},
			{"payout=allowed-uncapped", func(b *bookkeeping.Block) bool {
				if !uncapped.IsUint64() || uncapped.Uint64() == b.BlockHeader.ProposerPayout.Raw {
					return false
				}
				b.BlockHeader.ProposerPayout.Raw = uncapped.Uint64() // ignores the sink minimum
				return true
			}, false},
			{"payout=share-of-(fees+bonus)", func(b *bookkeeping.Block) bool {
				// percentage applied to the bonus too / 100% of fees
				v := b.FeesCollected.Raw + b.Bonus.Raw
				if v == b.BlockHeader.ProposerPayout.Raw {
					return false
				}
				b.BlockHeader.ProposerPayout.Raw = v
				return true
			}, false},
			{"fees+1", func(b *bookkeeping.Block) bool { b.FeesCollected.Raw++; return true }, false},
			{"fees-1", func(b *bookkeeping.Block) bool {
				if b.FeesCollected.Raw == 0 {
					return false
				}
				b.FeesCollected.Raw--
				return true
			}, false},
			{"fees-zero", func(b *bookkeeping.Block) bool {
				if b.FeesCollected.Raw == 0 {
					return false
				}
				b.FeesCollected.Raw = 0
				return true
			}, false},
			{"fees-x2", func(b *bookkeeping.Block) bool {
				if b.FeesCollected.Raw == 0 {
					return false
				}
				b.FeesCollected.Raw *= 2
				return true
			}, false},
			{"fees+200-and-payout+share", func(b *bookkeeping.Block) bool {
				b.FeesCollected.Raw += 200
				b.BlockHeader.ProposerPayout.Raw += 200 * proto.Payouts.Percent / 100
				return true
			}, false},
			{"fees-with-failed-group", func(b *bookkeeping.Block) bool {
				b.FeesCollected.Raw += 50_000_000 + proto.MinTxnFee
				return true
			}, false},
			{"proposer-closed", func(b *bookkeeping.Block) bool {
				if b.BlockHeader.ProposerPayout.Raw == 0 {
					b.BlockHeader.ProposerPayout.Raw = 1
				}
				b.BlockHeader.Proposer = basics.Address(ghost.SignatureVerifier)
				return true
			}, true},
		}
		for _, m := range muts {
			b := blk
			if !m.f(&b) {
				continue
			}
			refOK, refWhy, _ := c24Judge(proto, b, sinkStart, !m.gone)
			var merr error
			if c.Guard("Ledger.Validate", map[string]any{"case": caseID, "mutation": m.name}, func() { _, merr = u.validate(b, false) }) {
				continue
			}
			if cevInfra(merr) {
				c.Harness("test database error: %v", merr)
			}
			c.Eval(1)
			c.Distinct(fmt.Sprintf("%s|%s|mut:%s", cv, reg.name, m.name))
			if merr == nil && !refOK {
				c.Violation("block-breaking-payout-limits-validated", map[string]any{"case": caseID, "which": "mutant " + m.name, "reference": refWhy,
					"fees_collected": b.FeesCollected.Raw, "payout": b.ProposerPayout().Raw, "bonus": b.Bonus.Raw, "honest_payout": blk.ProposerPayout().Raw,
					"honest_fees_collected": blk.FeesCollected.Raw, "block": fmt.Sprintf("%x", protocol.Encode(&b))})
				return
			}
			switch {
			case merr != nil && !refOK:
				c.Count("block_mutants_rejected", 1)
				c.Count("mut:"+m.name, 1)
			case merr == nil:
				c.Count("block_mutants_within_limits_accepted", 1) // e.g. payout-1: altruism is allowed
			default:
				c.Count("block_mutants_within_limits_rejected", 1)
			}
		}
		u.add(validated)
		// the sink after the block
		sinkAfter := u.balance(u.sink)
		want := new(big.Int).Add(new(big.Int).SetUint64(sinkStart), sc.sinkInflow)
		want.Sub(want, new(big.Int).SetUint64(blk.ProposerPayout().Raw))
		c.Eval(1)
		if new(big.Int).SetUint64(sinkAfter).Cmp(want) != 0 {
			c.Violation("sink-balance-differs-from-reference", map[string]any{"case": caseID, "sink_before": sinkStart, "inflow": sc.sinkInflow.String(), "payout": blk.ProposerPayout().Raw,
				"sink_after": sinkAfter, "expected": want.String()})
			return
		}
		if blk.ProposerPayout().Raw > 0 && sinkAfter < proto.MinBalance {
			c.Violation("payout-took-sink-below-minimum", map[string]any{"case": caseID, "sink_before": sinkStart, "payout": blk.ProposerPayout().Raw, "sink_after": sinkAfter, "min_balance": proto.MinBalance})
			return
		}
		if ci < 2 && bi == 0 {
			c.Sample(map[string]any{"case": ci, "protocol": string(cv), "sink_regime": reg.name, "sink_before": sinkStart, "fees_collected": blk.FeesCollected.Raw, "bonus": blk.Bonus.Raw,
				"payout": blk.ProposerPayout().Raw, "allowed_by_reference": allowed.String(), "sink_after": sinkAfter})
		}
	}
}
