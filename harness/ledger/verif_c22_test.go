package ledger

// C22 (part rules): asset holder rules. Probe blocks carry exactly ONE asset transaction, so the
// state it was judged against is the model at the previous round. If the evaluator ACCEPTED the
// transaction, the reference rules (written from the protocol description, with the documented
// exceptions) must allow it and the holdings after the block must be exactly the reference result.
//
// Legitimate behaviours the reference allows (ledger/apply/asset.go): a transfer of amount 0 moves
// nothing and is accepted toward a frozen, a not-opted-in or the zero address; a close-out TO THE
// ASSET'S CREATOR is allowed from/into frozen holdings; the creator cannot close its own holding;
// a clawback cannot close; clawback ignores frozen flags.

import (
	"fmt"
	"testing"

	"github.com/algorand/go-algorand/data/basics"
	"github.com/algorand/go-algorand/data/transactions"
	"github.com/algorand/go-algorand/protocol"
	"verif.local/kit"
)

type c22Hold struct {
	h  basics.AssetHolding
	ok bool
}

func c22Get(m *hlModel, r basics.Round, a basics.Address, idx basics.AssetIndex) c22Hold {
	h, ok := m.assetHold[hlRes{a, basics.CreatableIndex(idx)}].at(r)
	return c22Hold{h, ok}
}

// c22Judge returns "" if the accepted transaction is allowed by the reference, else the rule broken.
func c22Judge(m *hlModel, r basics.Round, tx transactions.Transaction) (rule string, kinds []string) {
	pre := r - 1
	switch tx.Type {
	case protocol.AssetTransferTx:
		idx := tx.XferAsset
		cr, live := m.creator(pre, basics.CreatableIndex(idx), basics.AssetCreatable)
		var params basics.AssetParams
		if live {
			params, _ = m.assetParams[hlRes{cr, basics.CreatableIndex(idx)}].at(pre)
		}
		source := tx.Sender
		clawback := false
		if !tx.AssetSender.IsZero() {
			kinds = append(kinds, "clawback")
			if !live || params.Clawback.IsZero() || tx.Sender != params.Clawback {
				return "clawback-by-non-clawback-address", kinds
			}
			source = tx.AssetSender
			clawback = true
		}
		// expected holdings after, starting from the pre-state
		exp := map[basics.Address]c22Hold{}
		get := func(a basics.Address) c22Hold {
			if h, ok := exp[a]; ok {
				return h
			}
			return c22Get(m, pre, a, idx)
		}
		if tx.AssetAmount == 0 && tx.AssetReceiver == source && !clawback && !get(source).ok {
			kinds = append(kinds, "optin")
			if !live {
				return "optin-to-nonexistent-asset", kinds
			}
			exp[source] = c22Hold{basics.AssetHolding{Frozen: params.DefaultFrozen}, true}
		}
		move := func(from, to basics.Address, amt uint64, bypass bool, what string) string {
			if amt == 0 {
				return ""
			}
			f := get(from)
			if !f.ok {
				return what + "-from-account-not-opted-in"
			}
			if f.h.Frozen && !bypass {
				return what + "-out-of-frozen-holding"
			}
			if f.h.Amount < amt {
				return what + "-more-than-held"
			}
			f.h.Amount -= amt
			exp[from] = f
			t := get(to)
			if !t.ok {
				return what + "-to-account-not-opted-in"
			}
			if t.h.Frozen && !bypass {
				return what + "-into-frozen-holding"
			}
			if t.h.Amount+amt < t.h.Amount {
				return what + "-overflows-receiver"
			}
			t.h.Amount += amt
			exp[to] = t
			return ""
		}
		if tx.AssetAmount > 0 {
			kinds = append(kinds, "move")
			if f := get(source); f.ok && f.h.Frozen {
				kinds = append(kinds, "source-frozen")
			}
			if tt := get(tx.AssetReceiver); tt.ok && tt.h.Frozen {
				kinds = append(kinds, "receiver-frozen")
			}
		} else {
			kinds = append(kinds, "zero-amount")
		}
		if bad := move(source, tx.AssetReceiver, tx.AssetAmount, clawback, "transfer"); bad != "" {
			return bad, kinds
		}
		if !tx.AssetCloseTo.IsZero() {
			kinds = append(kinds, "close")
			if clawback {
				return "close-by-clawback", kinds
			}
			if _, isCreator := m.assetParams[hlRes{source, basics.CreatableIndex(idx)}].at(pre); isCreator {
				return "creator-closes-own-holding", kinds
			}
			sh := get(source)
			if !sh.ok {
				return "close-of-missing-holding", kinds
			}
			_, toCreator := m.assetParams[hlRes{tx.AssetCloseTo, basics.CreatableIndex(idx)}].at(pre)
			if toCreator {
				kinds = append(kinds, "close-to-creator")
			}
			if bad := move(source, tx.AssetCloseTo, sh.h.Amount, toCreator, "close"); bad != "" {
				return bad, kinds
			}
			exp[source] = c22Hold{}
		}
		// the holdings after the block must be exactly the expected ones (close-out must lose nothing)
		for a, want := range exp {
			got := c22Get(m, r, a, idx)
			if got.ok != want.ok || (want.ok && got.h != want.h) {
				return fmt.Sprintf("holdings-after-differ(%s: got %+v want %+v)", hlShort(a), got, want), kinds
			}
		}
	case protocol.AssetFreezeTx:
		kinds = append(kinds, "freeze")
		idx := tx.FreezeAsset
		cr, live := m.creator(pre, basics.CreatableIndex(idx), basics.AssetCreatable)
		if !live {
			return "freeze-of-nonexistent-asset", kinds
		}
		params, _ := m.assetParams[hlRes{cr, basics.CreatableIndex(idx)}].at(pre)
		if params.Freeze.IsZero() || tx.Sender != params.Freeze {
			return "freeze-by-non-freeze-address", kinds
		}
		got := c22Get(m, r, tx.FreezeAccount, idx)
		if !got.ok || got.h.Frozen != tx.AssetFrozen {
			return "freeze-did-not-take-effect", kinds
		}
	case protocol.AssetConfigTx:
		if tx.ConfigAsset == 0 {
			kinds = append(kinds, "create")
			return "", kinds
		}
		idx := tx.ConfigAsset
		cr, live := m.creator(pre, basics.CreatableIndex(idx), basics.AssetCreatable)
		if !live {
			return "config-of-nonexistent-asset", kinds
		}
		params, _ := m.assetParams[hlRes{cr, basics.CreatableIndex(idx)}].at(pre)
		if params.Manager.IsZero() || tx.Sender != params.Manager {
			return "config-by-non-manager", kinds
		}
		if tx.AssetParams == (basics.AssetParams{}) {
			kinds = append(kinds, "destroy")
			ch := c22Get(m, pre, cr, idx)
			if !ch.ok || ch.h.Amount != params.Total {
				return "destroy-while-creator-does-not-hold-everything", kinds
			}
		} else {
			kinds = append(kinds, "reconfigure")
		}
	}
	return "", kinds
}

func TestVerifC22Rules(t *testing.T) {
	c := kit.Start(t, "C22", "rules")
	defer c.Finish()
	c.Rule("HL histories weighted toward assets; between ordinary blocks, PROBE blocks carry exactly one asset transaction (transfer of 0/1/all/all+1, clawback by right and wrong address, freeze by right and wrong address, close-out incl. to creator, opt-in, reconfigure, destroy with and without outstanding holdings) so the pre-state is the model at the previous round; every ACCEPTED probe is judged by the reference holder rules and its resulting holdings compared with the reference result; distinct = distinct (transaction shape, frozen/role situation, verdict) tuples")
	c.Assume("legitimate behaviours allowed by the reference: zero-amount transfers bypass frozen/opt-in, close-out to the creator bypasses frozen, clawback bypasses frozen")
	nh := c.N(4, 40)
	blocks := c.N(200, 400)
	for h := 0; h < nh && c.Violations() < 5; h++ {
		r := c.Rand(22, uint64(h), 2)
		cfg := hlRandomConfig(r)
		cfg.Profile = "assets"
		cfg.OnDisk = false
		s := hlNewSim(t, c, r, cfg)
		for b := 0; b < blocks; b++ {
			if b%4 == 0 {
				s.step()
				continue
			}
			// probe block: exactly one asset transaction
			s.lastBlockGroups = s.lastBlockGroups[:0]
			ev, err := s.startEval()
			if err != nil {
				c.Harness("eval: %v", err)
			}
			kind := []string{"axfer", "axfer", "ainvalid", "aclose", "aclose", "aclawback", "aclawback", "afreeze", "afreeze", "adestroy", "aconfig", "aoptin"}[r.Intn(12)]
			txns := s.g.build(kind, ev)
			if len(txns) == 1 {
				s.offer(ev, "probe:"+kind, txns...)
			}
			if _, err := s.finishBlock(ev); err != nil {
				c.Harness("finishBlock: %v", err)
			}
			if len(s.lastBlockGroups) != 1 {
				continue
			}
			g := s.lastBlockGroups[0]
			tx := g.Group[0].Txn
			c.Eval(1)
			if g.Err != nil {
				c.Count("c22.probe_rejected:"+kind, 1)
				c.Distinct(fmt.Sprintf("rejected|%s", kind))
				continue
			}
			c.Count("c22.probe_accepted:"+kind, 1)
			rule, kinds := c22Judge(s.m, s.m.latest, tx)
			c.Distinct(fmt.Sprintf("accepted|%s|%v", kind, kinds))
			for _, k := range kinds {
				c.Count("c22.accepted_situation:"+k, 1)
			}
			if rule != "" {
				c.Violation("holder-rule:"+ruleClass(rule), map[string]any{"rule": rule, "round": s.m.latest, "txn": fmt.Sprintf("%+v", tx), "situation": kinds, "config": cfg.String(), "trace": s.traceTail(10)})
			}
		}
		if h < 2 {
			c.Sample(map[string]any{"history": h, "config": cfg.String(), "blocks": blocks, "stats": fmt.Sprint(s.stats)})
		}
		s.close()
	}
	c.Require("c22.accepted_situation:move", 15)
	c.Require("c22.accepted_situation:close", 3)
	c.Require("c22.accepted_situation:clawback", 3)
	c.Require("c22.accepted_situation:freeze", 3)
	c.Require("c22.probe_rejected:aclawback", 3)
	c.Require("c22.probe_rejected:afreeze", 3)
}

func ruleClass(rule string) string {
	for i := 0; i < len(rule); i++ {
		if rule[i] == '(' {
			return rule[:i]
		}
	}
	return rule
}
