package ledger

// C29 (part "ledger"): group ids bind the ordered member list; blocks are accepted only if their transactions
// match the header commitment and the header links to the previous block.
//
// Groups. Reference (cevGroupID): a group is bound iff it is a singleton with an empty id, or every member
// carries the same non-zero id equal to SHA-512/256("TG" || msgpack{txlist: ids}) over the members' ids (computed
// with an empty Group field) in order. Oracle: BlockEvaluator.TransactionGroup / TestTransactionGroup (and
// Ledger.Validate for blocks a non-validating proposer built around such a group) returning success for a group
// the reference calls unbound is a violation. The mutants are otherwise valid (funded payments with sufficient
// fees, no signature checking in the evaluator), and after the mutants the unmutated group must be accepted, so
// a rejection can only come from the binding rule.
//
// Blocks. An evaluator-generated block (groups, close-out, asset and application transactions with ApplyData)
// is validated, then mutated with the header untouched (or only the commitments / link fields touched):
// ContentsMatchHeader must be false for every payset mutant, PreCheck must fail for every link mutant, and
// Ledger.Validate (signature checking off) must reject all of them.

import (
	"bytes"
	"fmt"
	"testing"

	"github.com/algorand/go-algorand/crypto"
	"github.com/algorand/go-algorand/data/basics"
	"github.com/algorand/go-algorand/data/bookkeeping"
	"github.com/algorand/go-algorand/data/transactions"
	"github.com/algorand/go-algorand/ledger/eval"
	"github.com/algorand/go-algorand/protocol"
	"verif.local/kit"
)

// c29Bound is the reference verdict.
func c29Bound(g []transactions.SignedTxn) bool {
	if len(g) == 0 {
		return true
	}
	if len(g) == 1 && g[0].Txn.Group.IsZero() {
		return true
	}
	txns := make([]transactions.Transaction, len(g))
	for i := range g {
		txns[i] = g[i].Txn
		if g[i].Txn.Group != g[0].Txn.Group {
			return false
		}
	}
	if g[0].Txn.Group.IsZero() {
		return false
	}
	return cevGroupID(txns) == g[0].Txn.Group
}

type c29GroupMut struct {
	name string
	f    func(r *kit.Rand, u *cevUniverse, g []transactions.SignedTxn, rnd basics.Round) []transactions.SignedTxn
}

func c29CloneGroup(g []transactions.SignedTxn) []transactions.SignedTxn {
	out := make([]transactions.SignedTxn, len(g))
	for i := range g {
		out[i] = g[i]
		out[i].Txn.Note = append([]byte(nil), g[i].Txn.Note...)
	}
	return out
}

var c29GroupMuts = []c29GroupMut{
	{"member-dropped", func(r *kit.Rand, u *cevUniverse, g []transactions.SignedTxn, rnd basics.Round) []transactions.SignedTxn {
		if len(g) < 2 {
			return nil
		}
		i := r.Intn(len(g))
		return append(append([]transactions.SignedTxn{}, g[:i]...), g[i+1:]...)
	}},
	{"last-member-dropped", func(r *kit.Rand, u *cevUniverse, g []transactions.SignedTxn, rnd basics.Round) []transactions.SignedTxn {
		if len(g) < 2 {
			return nil
		}
		return g[:len(g)-1]
	}},
	{"member-added", func(r *kit.Rand, u *cevUniverse, g []transactions.SignedTxn, rnd basics.Round) []transactions.SignedTxn {
		if len(g) >= u.proto.MaxTxGroupSize || g[0].Txn.Group.IsZero() {
			return nil
		}
		tx := u.pay(u.accts[r.Intn(4)].addr, u.accts[4+r.Intn(4)].addr, uint64(r.Intn(100)), u.proto.MinTxnFee, rnd, u.note())
		tx.Group = g[0].Txn.Group
		i := r.Intn(len(g) + 1)
		out := append([]transactions.SignedTxn{}, g[:i]...)
		out = append(out, transactions.SignedTxn{Txn: tx})
		return append(out, g[i:]...)
	}},
	{"member-added-to-singleton", func(r *kit.Rand, u *cevUniverse, g []transactions.SignedTxn, rnd basics.Round) []transactions.SignedTxn {
		if len(g) != 1 {
			return nil
		}
		tx := u.pay(u.accts[r.Intn(4)].addr, u.accts[4+r.Intn(4)].addr, uint64(r.Intn(100)), u.proto.MinTxnFee, rnd, u.note())
		tx.Group = g[0].Txn.Group
		return append(append([]transactions.SignedTxn{}, g...), transactions.SignedTxn{Txn: tx})
	}},
	{"members-reordered", func(r *kit.Rand, u *cevUniverse, g []transactions.SignedTxn, rnd basics.Round) []transactions.SignedTxn {
		if len(g) < 2 {
			return nil
		}
		i := r.Intn(len(g) - 1)
		j := i + 1 + r.Intn(len(g)-i-1)
		g[i], g[j] = g[j], g[i]
		return g
	}},
	{"members-rotated", func(r *kit.Rand, u *cevUniverse, g []transactions.SignedTxn, rnd basics.Round) []transactions.SignedTxn {
		if len(g) < 3 {
			return nil
		}
		return append(append([]transactions.SignedTxn{}, g[1:]...), g[0])
	}},
	{"member-altered", func(r *kit.Rand, u *cevUniverse, g []transactions.SignedTxn, rnd basics.Round) []transactions.SignedTxn {
		if g[0].Txn.Group.IsZero() {
			return nil
		}
		t := &g[r.Intn(len(g))].Txn
		switch r.Intn(5) {
		case 0:
			t.Amount.Raw++
		case 1:
			t.Receiver = u.accts[7].addr
			if t.Receiver == u.accts[7].addr {
				t.Receiver = u.accts[6].addr
			}
		case 2:
			t.Note = append(t.Note, '!')
		case 3:
			t.Fee.Raw++
		case 4:
			t.Lease[0] ^= 1
		}
		return g
	}},
	{"zero-id-one-member", func(r *kit.Rand, u *cevUniverse, g []transactions.SignedTxn, rnd basics.Round) []transactions.SignedTxn {
		if len(g) < 2 {
			return nil
		}
		g[r.Intn(len(g))].Txn.Group = crypto.Digest{}
		return g
	}},
	{"zero-id-last-member", func(r *kit.Rand, u *cevUniverse, g []transactions.SignedTxn, rnd basics.Round) []transactions.SignedTxn {
		if len(g) < 2 {
			return nil
		}
		g[len(g)-1].Txn.Group = crypto.Digest{}
		return g
	}},
	{"zero-id-all-members", func(r *kit.Rand, u *cevUniverse, g []transactions.SignedTxn, rnd basics.Round) []transactions.SignedTxn {
		if len(g) < 2 {
			return nil
		}
		for i := range g {
			g[i].Txn.Group = crypto.Digest{}
		}
		return g
	}},
	{"singleton-wrong-id", func(r *kit.Rand, u *cevUniverse, g []transactions.SignedTxn, rnd basics.Round) []transactions.SignedTxn {
		if len(g) != 1 {
			return nil
		}
		r.Fill(g[0].Txn.Group[:])
		return g
	}},
	{"singleton-with-id-of-pair", func(r *kit.Rand, u *cevUniverse, g []transactions.SignedTxn, rnd basics.Round) []transactions.SignedTxn {
		if len(g) != 1 {
			return nil
		}
		other := u.pay(u.accts[1].addr, u.accts[5].addr, 7, u.proto.MinTxnFee, rnd, u.note())
		g[0].Txn.Group = cevGroupID([]transactions.Transaction{g[0].Txn, other})
		return g
	}},
	{"one-id-bitflip", func(r *kit.Rand, u *cevUniverse, g []transactions.SignedTxn, rnd basics.Round) []transactions.SignedTxn {
		if g[0].Txn.Group.IsZero() {
			return nil
		}
		g[r.Intn(len(g))].Txn.Group[r.Intn(32)] ^= 1 << uint(r.Intn(8))
		return g
	}},
	{"last-id-bitflip", func(r *kit.Rand, u *cevUniverse, g []transactions.SignedTxn, rnd basics.Round) []transactions.SignedTxn {
		if g[0].Txn.Group.IsZero() {
			return nil
		}
		g[len(g)-1].Txn.Group[r.Intn(32)] ^= 1 << uint(r.Intn(8))
		return g
	}},
	{"all-ids-consistently-wrong", func(r *kit.Rand, u *cevUniverse, g []transactions.SignedTxn, rnd basics.Round) []transactions.SignedTxn {
		if g[0].Txn.Group.IsZero() {
			return nil
		}
		var d crypto.Digest
		r.Fill(d[:])
		for i := range g {
			g[i].Txn.Group = d
		}
		return g
	}},
	{"all-ids-of-reversed-order", func(r *kit.Rand, u *cevUniverse, g []transactions.SignedTxn, rnd basics.Round) []transactions.SignedTxn {
		if len(g) < 2 {
			return nil
		}
		txns := make([]transactions.Transaction, len(g))
		for i := range g {
			txns[len(g)-1-i] = g[i].Txn
		}
		d := cevGroupID(txns)
		for i := range g {
			g[i].Txn.Group = d
		}
		return g
	}},
	{"all-ids-of-prefix", func(r *kit.Rand, u *cevUniverse, g []transactions.SignedTxn, rnd basics.Round) []transactions.SignedTxn {
		if len(g) < 2 {
			return nil
		}
		txns := make([]transactions.Transaction, len(g)-1)
		for i := range txns {
			txns[i] = g[i].Txn
		}
		d := cevGroupID(txns)
		for i := range g {
			g[i].Txn.Group = d
		}
		return g
	}},
}

func c29IsGroupErr(err error) bool {
	if err == nil {
		return false
	}
	s := err.Error()
	for _, k := range []string{"transactionGroup:", "inconsistent group", "incomplete group", "zero Group"} {
		if bytes.Contains([]byte(s), []byte(k)) {
			return true
		}
	}
	return false
}

func TestVerifC29Ledger(t *testing.T) {
	c := kit.Start(t, "C29", "ledger")
	defer c.Finish()
	c.Rule("per case a ledger (Future / v41 / v40) with an asset and applications; per block 4-8 valid groups of 1..16 payments (every size occurs) are each preceded by all applicable group mutants (member dropped / added / reordered / rotated / altered, zero id on one / last / all members, singleton with a random id or the id of a pair, one id bit-flipped, consistently wrong ids incl. the id of the reversed order and of a prefix) offered to TestTransactionGroup and TransactionGroup; the block additionally gets a close-out, an asset configuration and application calls; it is validated, then its payset / ApplyData / commitments / Branch / Branch512 / Round are mutated and offered to ContentsMatchHeader, PreCheck and Ledger.Validate; forged blocks built by a non-validating evaluator around an unbound group are offered to Ledger.Validate; distinct = (protocol, group size, mutation) and (protocol, block mutation)")
	c.Assume("trusted: SHA-512/256 and the msgpack encoding of Transaction; the payset differential rule assumes collision resistance")
	cvs := []protocol.ConsensusVersion{protocol.ConsensusFuture, protocol.ConsensusV41, protocol.ConsensusV40}
	ncases := c.N(8, 200)
	for ci := 0; ci < ncases && c.Violations() < 20; ci++ {
		c29Case(c, t, ci, cvs[ci%3])
	}
	c.Require("valid_groups_accepted", int64(c.N(100, 2500)))
	c.Require("group_mutants_rejected_by_binding_rule", int64(c.N(1000, 25000)))
	c.Require("forged_group_blocks_rejected", int64(c.N(40, 1000)))
	c.Require("honest_blocks_validated", int64(c.N(20, 500)))
	c.Require("block_mutants_rejected", int64(c.N(300, 7000)))
	for _, m := range c29GroupMuts {
		c.Require("rejected:"+m.name, 3)
	}
	for _, k := range []string{"blk:txn-dropped", "blk:txn-added", "blk:txns-swapped", "blk:txn-altered", "blk:applydata-altered", "blk:native<->sha256", "blk:branch-bitflip", "blk:round+1", "blk:round-1"} {
		c.Require(k, 3)
	}
}

func c29Case(c *kit.Ctx, t testing.TB, ci int, cv protocol.ConsensusVersion) {
	r := c.Rand(29, 100, uint64(ci))
	u := cevNewUniverse(c, t, r, cv, ci%4 == 3)
	defer u.close()
	a := u.accts
	nblocks := r.Range(4, 6)
	sizeCursor := ci * 7
	for bi := 0; bi < nblocks && c.Violations() < 20; bi++ {
		ev := u.startEval(true, true, nil)
		rnd := ev.Round()
		var accepted [][]transactions.SignedTxn
		ngroups := r.Range(4, 8)
		for gi := 0; gi < ngroups; gi++ {
			sizeCursor++
			n := 1 + sizeCursor%16
			if r.Chance(1, 3) {
				n = 1
			}
			txns := make([]transactions.Transaction, n)
			for i := range txns {
				txns[i] = u.pay(a[r.Intn(4)].addr, a[4+r.Intn(4)].addr, uint64(r.Range(1, 5000)), u.proto.MinTxnFee+uint64(r.Intn(10)), rnd, u.note())
			}
			if n > 1 || r.Chance(1, 3) {
				cevSetGroup(txns) // a singleton may carry its (correct) id too
			}
			honest := cevUnsigned(txns)
			if !c29Bound(honest) {
				c.Harness("reference calls the honest group unbound")
			}
			caseID := fmt.Sprintf("seed=%d case=%d block=%d group=%d size=%d proto=%s", c.Seed, ci, bi, gi, n, cv)
			for mi, mu := range c29GroupMuts {
				rm := c.Rand(29, 101, uint64(ci), uint64(bi), uint64(gi), uint64(mi))
				m := mu.f(rm, u, c29CloneGroup(honest), rnd)
				if m == nil || c29Bound(m) {
					continue
				}
				var terr, gerr error
				if c.Guard("TransactionGroup", map[string]any{"case": caseID, "mutation": mu.name}, func() {
					terr = ev.TestTransactionGroup(m)
					gerr = ev.TransactionGroup(cevWrap(m)...)
				}) {
					continue
				}
				c.Eval(2)
				c.Distinct(fmt.Sprintf("%s|%d|%s", cv, n, mu.name))
				if gerr == nil || terr == nil {
					which := "TransactionGroup"
					if gerr != nil {
						which = "TestTransactionGroup"
					}
					c.Violation("accepts-unbound-group", map[string]any{"case": caseID, "mutation": mu.name, "accepted_by": which,
						"group": fmt.Sprintf("%x", protocol.EncodeReflect(m)), "honest_group": fmt.Sprintf("%x", protocol.EncodeReflect(honest))})
					return
				}
				if c29IsGroupErr(gerr) {
					c.Count("group_mutants_rejected_by_binding_rule", 1)
					c.Count("rejected:"+mu.name, 1)
				} else {
					c.Count("group_mutants_rejected_by_other_rule", 1)
				}
			}
			if err := ev.TransactionGroup(cevWrap(honest)...); err != nil {
				c.Observation("C29: the unmutated group was rejected (mutant rejections of this group prove nothing): %s: %v", caseID, err)
				c.Count("valid_groups_rejected", 1)
				continue
			}
			c.Count("valid_groups_accepted", 1)
			accepted = append(accepted, honest)
		}
		// forged blocks around an unbound group: a fresh group that is NOT part of the honest block (its members must not
		// trip the duplicate check before the group check is reached)
		for fi := 0; fi < 3; fi++ {
			rf := c.Rand(29, 102, uint64(ci), uint64(bi), uint64(fi))
			n := rf.Range(1, 16)
			txns := make([]transactions.Transaction, n)
			for i := range txns {
				txns[i] = u.pay(a[rf.Intn(4)].addr, a[4+rf.Intn(4)].addr, uint64(rf.Range(1, 5000)), u.proto.MinTxnFee, rnd, u.note())
			}
			if n > 1 {
				cevSetGroup(txns)
			}
			var m []transactions.SignedTxn
			for try := 0; try < 20 && m == nil; try++ {
				mu := c29GroupMuts[rf.Intn(len(c29GroupMuts))]
				m = mu.f(rf, u, c29CloneGroup(cevUnsigned(txns)), rnd)
				if m != nil && c29Bound(m) {
					m = nil
				}
			}
			if m == nil {
				continue
			}
			forger := u.startEval(false, true, nil)
			for _, g := range accepted {
				if err := forger.TransactionGroup(cevWrap(g)...); err != nil {
					c.Harness("forger could not replay an accepted group: %v", err)
				}
			}
			c29ForgeGroupBlock(c, u, forger, m, fmt.Sprintf("seed=%d case=%d block=%d forgery=%d", c.Seed, ci, bi, fi))
		}
		// make the block richer: close-out, asset config, application calls (ApplyData with closing amount, ids, deltas)
		closer := cevKey(r)
		closerAddr := basics.Address(closer.SignatureVerifier)
		fund := u.pay(a[0].addr, closerAddr, 1_000_000, u.proto.MinTxnFee, rnd, u.note())
		closeOut := u.pay(closerAddr, a[1].addr, 10, u.proto.MinTxnFee, rnd, u.note())
		closeOut.CloseRemainderTo = a[2].addr
		acfg := transactions.Transaction{Type: protocol.AssetConfigTx, Header: u.hdr(a[1].addr, u.proto.MinTxnFee, rnd, u.note()),
			AssetConfigTxnFields: transactions.AssetConfigTxnFields{AssetParams: basics.AssetParams{Total: 5, UnitName: "Y", Manager: a[1].addr}}}
		extra := []transactions.Transaction{fund, closeOut, acfg, u.appCall(a[2].addr, u.counter, u.proto.MinTxnFee, rnd),
			u.appCall(a[3].addr, u.inner, 4*u.proto.MinTxnFee, rnd), u.axfer(a[1].addr, a[2].addr, 5, rnd)}
		for i := range extra {
			if err := ev.TransactionGroup(cevWrap(cevUnsigned(extra[i : i+1]))...); err != nil {
				c.Harness("C29: enrichment transaction %d rejected: %v", i, err)
			}
		}
		blk, _, err := u.finish(ev, basics.Address{}, true)
		if err != nil {
			c.Harness("GenerateBlock: %v", err)
		}
		prev, err := u.l.BlockHdr(u.l.Latest())
		if err != nil {
			c.Harness("BlockHdr: %v", err)
		}
		vb, err := u.validate(blk, false)
		if err != nil {
			c.Harness("C29: honest block rejected: %v", err)
		}
		if !blk.ContentsMatchHeader() || blk.BlockHeader.PreCheck(prev) != nil {
			c.Harness("C29: honest block fails ContentsMatchHeader/PreCheck")
		}
		c.Count("honest_blocks_validated", 1)
		c29BlockMutants(c, u, r, blk, prev, fmt.Sprintf("seed=%d case=%d block=%d proto=%s", c.Seed, ci, bi, cv))
		u.add(vb)
		if ci == 0 && bi == 0 {
			c.Sample(map[string]any{"protocol": string(cv), "block_round": uint64(blk.Round()), "payset_len": len(blk.Payset), "groups": len(accepted)})
		}
	}
}

func c29ForgeGroupBlock(c *kit.Ctx, u *cevUniverse, forger *eval.BlockEvaluator, unbound []transactions.SignedTxn, caseID string) {
	// the non-validating evaluator still runs the group check, so the forger splits the unbound group into the units
	// it does accept (members one by one with validation off would also fail the check) -- instead it writes the
	// payset directly: generate the block without the group, then append the group's members to the payset and
	// recompute every header field a proposer controls (commitments, counter).
	// blocks delimit groups by runs of equal non-zero ids: the forgery is only meaningful if, under that rule, some
	// decoded group is unbound per the reference (e.g. "all ids zeroed" decodes into perfectly valid singletons)
	someUnbound := false
	for i := 0; i < len(unbound); {
		j := i + 1
		for !unbound[i].Txn.Group.IsZero() && j < len(unbound) && unbound[j].Txn.Group == unbound[i].Txn.Group {
			j++
		}
		if !c29Bound(unbound[i:j]) {
			someUnbound = true
		}
		i = j
	}
	if !someUnbound {
		return
	}
	blk, _, err := u.finish(forger, basics.Address{}, true)
	if err != nil {
		c.Harness("forger GenerateBlock: %v", err)
	}
	for _, m := range unbound {
		stib, err := blk.BlockHeader.EncodeSignedTxn(m, transactions.ApplyData{})
		if err != nil {
			c.Harness("EncodeSignedTxn: %v", err)
		}
		blk.Payset = append(blk.Payset, stib)
	}
	blk.TxnCounter += uint64(len(unbound))
	for _, m := range unbound {
		blk.FeesCollected.Raw += m.Txn.Fee.Raw
	}
	if tc, err := blk.PaysetCommit(); err == nil {
		blk.TxnCommitments = tc
	}
	if u.proto.LoadTracking {
		size := 0
		for i := range blk.Payset {
			size += blk.Payset[i].GetEncodedLength()
		}
		blk.Load = eval.ComputeLoad(size, u.proto.MaxTxnBytesPerBlock)
	}
	var verr error
	if c.Guard("Ledger.Validate", map[string]any{"case": caseID}, func() { _, verr = u.validate(blk, false) }) {
		return
	}
	c.Eval(1)
	if verr == nil {
		c.Violation("block-with-unbound-group-validated", map[string]any{"case": caseID, "block": fmt.Sprintf("%x", protocol.Encode(&blk))})
		return
	}
	if c29IsGroupErr(verr) {
		c.Count("forged_group_blocks_rejected", 1)
	} else {
		c.Count("forged_group_blocks_rejected_other_reason", 1)
	}
}

func c29BlockMutants(c *kit.Ctx, u *cevUniverse, r *kit.Rand, blk bookkeeping.Block, prev bookkeeping.BlockHeader, caseID string) {
	orig := protocol.Encode(&blk)
	origPayset := protocol.Encode(blk.Payset)
	clone := func() bookkeeping.Block {
		var b bookkeeping.Block
		if err := protocol.Decode(orig, &b); err != nil {
			c.Harness("block clone: %v", err)
		}
		return b
	}
	type bm struct {
		name string
		kind string // payset | commit | link
		f    func(b *bookkeeping.Block) bool
	}
	n := len(blk.Payset)
	pick := func() int { return r.Intn(n) }
	withAD := func(b *bookkeeping.Block, pred func(*transactions.SignedTxnInBlock) bool) *transactions.SignedTxnInBlock {
		for _, i := range r.Perm(len(b.Payset)) {
			if pred(&b.Payset[i]) {
				return &b.Payset[i]
			}
		}
		return nil
	}
	muts := []bm{
		{"txn-dropped", "payset", func(b *bookkeeping.Block) bool {
			i := pick()
			b.Payset = append(append(transactions.Payset{}, b.Payset[:i]...), b.Payset[i+1:]...)
			return true
		}},
		{"last-txn-dropped", "payset", func(b *bookkeeping.Block) bool { b.Payset = b.Payset[:n-1]; return true }},
		{"txn-added", "payset", func(b *bookkeeping.Block) bool {
			tx := u.pay(u.accts[0].addr, u.accts[1].addr, 1, u.proto.MinTxnFee, b.Round(), u.note())
			stib, err := b.BlockHeader.EncodeSignedTxn(transactions.SignedTxn{Txn: tx}, transactions.ApplyData{})
			if err != nil {
				return false
			}
			i := r.Intn(n + 1)
			p := append(transactions.Payset{}, b.Payset[:i]...)
			p = append(p, stib)
			b.Payset = append(p, b.Payset[i:]...)
			return true
		}},
		{"last-txn-duplicated", "payset", func(b *bookkeeping.Block) bool { b.Payset = append(b.Payset, b.Payset[n-1]); return true }},
		{"txns-swapped", "payset", func(b *bookkeeping.Block) bool {
			i := r.Intn(n - 1)
			j := i + 1 + r.Intn(n-i-1)
			b.Payset[i], b.Payset[j] = b.Payset[j], b.Payset[i]
			return true
		}},
		{"txn-altered", "payset", func(b *bookkeeping.Block) bool {
			t := &b.Payset[pick()]
			switch r.Intn(3) {
			case 0:
				t.Txn.Fee.Raw++
			case 1:
				t.Txn.Note = append(t.Txn.Note, 'x')
			case 2:
				t.Txn.LastValid++
			}
			return true
		}},
		{"signature-altered", "payset", func(b *bookkeeping.Block) bool { b.Payset[pick()].Sig[r.Intn(64)] ^= 1; return true }},
		{"applydata-altered", "payset", func(b *bookkeeping.Block) bool {
			switch r.Intn(4) {
			case 0:
				if t := withAD(b, func(s *transactions.SignedTxnInBlock) bool { return s.ClosingAmount.Raw > 0 }); t != nil {
					t.ClosingAmount.Raw++
					return true
				}
			case 1:
				if t := withAD(b, func(s *transactions.SignedTxnInBlock) bool { return s.ApplyData.ConfigAsset != 0 }); t != nil {
					t.ApplyData.ConfigAsset++
					return true
				}
			case 2:
				if t := withAD(b, func(s *transactions.SignedTxnInBlock) bool { return len(s.EvalDelta.GlobalDelta) > 0 }); t != nil {
					for k, v := range t.EvalDelta.GlobalDelta {
						v.Uint++
						t.EvalDelta.GlobalDelta[k] = v
					}
					return true
				}
			case 3:
				if t := withAD(b, func(s *transactions.SignedTxnInBlock) bool { return len(s.EvalDelta.InnerTxns) > 0 }); t != nil {
					t.EvalDelta.InnerTxns = nil
					return true
				}
			}
			b.Payset[pick()].ReceiverRewards.Raw++
			return true
		}},
		{"genesis-flag-flipped", "payset", func(b *bookkeeping.Block) bool {
			t := &b.Payset[pick()]
			t.HasGenesisID = !t.HasGenesisID
			return true
		}},
		{"native<->sha256", "commit", func(b *bookkeeping.Block) bool {
			tc := &b.TxnCommitments
			tc.NativeSha512_256Commitment, tc.Sha256Commitment = tc.Sha256Commitment, tc.NativeSha512_256Commitment
			return true
		}},
		{"sha256-bitflip", "commit", func(b *bookkeeping.Block) bool { b.TxnCommitments.Sha256Commitment[r.Intn(32)] ^= 1; return true }},
		{"sha512-bitflip", "commit", func(b *bookkeeping.Block) bool { b.TxnCommitments.Sha512Commitment[r.Intn(64)] ^= 1; return true }},
		{"native-bitflip", "commit", func(b *bookkeeping.Block) bool {
			b.TxnCommitments.NativeSha512_256Commitment[r.Intn(32)] ^= 1
			return true
		}},
		{"sha256-zeroed", "commit", func(b *bookkeeping.Block) bool { b.TxnCommitments.Sha256Commitment = crypto.Digest{}; return true }},
		{"sha512:=sha256|native", "commit", func(b *bookkeeping.Block) bool {
			copy(b.TxnCommitments.Sha512Commitment[:32], b.TxnCommitments.Sha256Commitment[:])
			copy(b.TxnCommitments.Sha512Commitment[32:], b.TxnCommitments.NativeSha512_256Commitment[:])
			return true
		}},
		{"branch-bitflip", "link", func(b *bookkeeping.Block) bool { b.Branch[r.Intn(32)] ^= 1 << uint(r.Intn(8)); return true }},
		{"branch-of-grandparent", "link", func(b *bookkeeping.Block) bool { b.Branch = prev.Branch; return true }},
		{"branch512-bitflip", "link", func(b *bookkeeping.Block) bool { b.Branch512[r.Intn(64)] ^= 1; return true }},
		{"round+1", "link", func(b *bookkeeping.Block) bool { b.BlockHeader.Round++; return true }},
		{"round-1", "link", func(b *bookkeeping.Block) bool { b.BlockHeader.Round--; return true }},
	}
	for _, m := range muts {
		b := clone()
		if n < 2 || !m.f(&b) {
			continue
		}
		if bytes.Equal(protocol.Encode(&b), orig) {
			continue
		}
		var match bool
		var perr, verr error
		if c.Guard("block-checks", map[string]any{"case": caseID, "mutation": m.name}, func() {
			match = b.ContentsMatchHeader()
			perr = b.BlockHeader.PreCheck(prev)
			_, verr = u.validate(b, false)
		}) {
			continue
		}
		c.Eval(3)
		c.Distinct(fmt.Sprintf("%s|blk|%s", u.cv, m.name))
		wit := map[string]any{"case": caseID, "mutation": m.name, "block": fmt.Sprintf("%x", protocol.Encode(&b)), "honest_block": fmt.Sprintf("%x", orig)}
		bad := false
		switch m.kind {
		case "payset":
			if !bytes.Equal(protocol.Encode(b.Payset), origPayset) && match {
				c.Violation("contents-match-after-payset-mutation", wit)
				bad = true
			}
		case "commit":
			if match {
				c.Violation("contents-match-after-commitment-mutation", wit)
				bad = true
			}
		case "link":
			if perr == nil {
				c.Violation("precheck-accepts-broken-link", wit)
				bad = true
			}
		}
		if verr == nil {
			c.Violation("mutated-block-validated", wit)
			bad = true
		}
		if !bad {
			c.Count("block_mutants_rejected", 1)
			c.Count("blk:"+m.name, 1)
		}
	}
}
