package ledger

// C28 (part "rekey"): only the sender's CURRENT authorizer can authorize a transaction.
//
// A map-based model keeps, per sender, the address that currently authorizes it (itself unless rekeyed).
// Random rekey chains (plain key -> plain key -> back, -> multisig, -> logic-signature contract account,
// -> Falcon PQ account, unfunded targets, rekeys inside groups that take effect for later members) are driven
// through the path a transaction really takes: verify.TxnGroup (real signatures, the ledger's verified-
// transaction cache) and then BlockEvaluator.TransactionGroup. Every transaction claims an authorizer
// (current / stale / the sender although rekeyed / a stranger) and is properly signed by that claimed authorizer
// (sometimes with a broken signature).
//
// Oracle (one-directional, as the property): an accepted transaction must have been signed validly by the
// authorizer the model holds for its sender at that point. Blocks: a malicious proposer's block (built by a
// non-validating evaluator) that contains one transaction by a non-current authorizer, or a cached transaction
// whose signature was replaced, must be rejected by Ledger.Validate with real signature checking.

import (
	"fmt"
	"testing"

	"github.com/algorand/go-algorand/config"
	"github.com/algorand/go-algorand/crypto"
	"github.com/algorand/go-algorand/data/basics"
	"github.com/algorand/go-algorand/data/transactions"
	"github.com/algorand/go-algorand/data/transactions/logic"
	"github.com/algorand/go-algorand/data/transactions/verify"
	"github.com/algorand/go-algorand/protocol"
	"verif.local/kit"
)

type c28Principal struct {
	name string
	addr basics.Address
	kind string // ed, msig, lsig, pq
	sk   *crypto.SignatureSecrets
	sks  []*crypto.SignatureSecrets
	thr  uint8
	prog []byte
	pq   *crypto.FalconSigner
	salt basics.PQAddressSalt
}

func c28MsigAddr(thr uint8, sks []*crypto.SignatureSecrets) basics.Address {
	buf := append([]byte("MultisigAddr"), 1, thr)
	for _, k := range sks {
		buf = append(buf, k.SignatureVerifier[:]...)
	}
	return basics.Address(crypto.Hash(buf))
}

// c28Sign authorizes txn as principal p (p is the CLAIMED authorizer). broken produces an invalid signature.
func c28Sign(txn transactions.Transaction, p *c28Principal, broken bool, r *kit.Rand) (transactions.SignedTxn, error) {
	s := transactions.SignedTxn{Txn: txn}
	if p.addr != txn.Sender {
		s.AuthAddr = p.addr
	}
	switch p.kind {
	case "ed":
		s.Sig = p.sk.Sign(txn)
		if broken {
			s.Sig[r.Intn(64)] ^= 0x20
		}
	case "msig":
		s.Msig = crypto.MultisigSig{Version: 1, Threshold: p.thr, Subsigs: make([]crypto.MultisigSubsig, len(p.sks))}
		for i, k := range p.sks {
			s.Msig.Subsigs[i].Key = k.SignatureVerifier
		}
		signers := r.Perm(len(p.sks))[:p.thr]
		for j, i := range signers {
			s.Msig.Subsigs[i].Sig = p.sks[i].Sign(txn)
			if broken && j == 0 {
				s.Msig.Subsigs[i].Sig[r.Intn(64)] ^= 0x20
			}
		}
	case "lsig":
		s.Lsig.Logic = append([]byte(nil), p.prog...)
		if broken { // a different program: no longer the authorizer's program
			s.Lsig.Logic = append(append([]byte(nil), p.prog...), 0x48) // trailing `pop`... any change alters the hash
		}
	case "pq":
		sig, err := p.pq.Sign(txn)
		if err != nil {
			return s, err
		}
		if broken {
			sig = append([]byte(nil), sig...)
			sig[len(sig)/2] ^= 0x20
		}
		s.PQsig = transactions.PQSig{Scheme: protocol.PQSchemeFalcon1024, Salt: p.salt, PublicKey: append([]byte(nil), p.pq.PublicKey[:]...), Signature: sig}
	}
	return s, nil
}

type c28Step struct {
	Sender, Claimed, Current, RekeyTo string
	Broken                            bool
}

func TestVerifC28Rekey(t *testing.T) {
	c := kit.Start(t, "C28", "rekey")
	defer c.Finish()
	c.Rule("per case a fresh ledger (Future / v41 / v40 in turn) with funded senders of every account kind (ed25519, 2-of-3 multisig, logic-signature contract account, Falcon PQ) and unfunded authorizer targets; 30-60 steps, each a group of 1..4 payments whose members claim the current authorizer, a stale one, the rekeyed sender itself or a stranger, are signed by the claimed authorizer (1/8 with a broken signature) and may rekey (to another principal, back to the sender, within the group); verify.TxnGroup + BlockEvaluator.TransactionGroup decide; blocks are closed every few steps, fully validated with real signatures, and a forged sibling block with one non-current authorization is offered to Ledger.Validate; distinct = (protocol, sender kind, current-authorizer kind, claimed relation, rekey target kind, accepted)")
	c.Assume("model: authorizer(sender) = last accepted non-zero RekeyTo of that sender (the sender itself if RekeyTo == sender or never rekeyed); trusted: ed25519/Falcon primitives as used by the honest signer")
	cvs := []protocol.ConsensusVersion{protocol.ConsensusFuture, protocol.ConsensusV41, protocol.ConsensusV40}
	ncases := c.N(30, 450)
	for ci := 0; ci < ncases && c.Violations() < 20; ci++ {
		c28RekeyCase(c, t, ci, cvs[ci%3])
	}
	c.Require("accepted_by_current_authorizer", int64(c.N(400, 6000)))
	c.Require("accepted_after_rekey_by_new_authorizer", int64(c.N(120, 2000)))
	c.Require("rejected_stale_authorizer", int64(c.N(40, 600)))
	c.Require("rejected_sender_key_after_rekey", int64(c.N(15, 250)))
	c.Require("rejected_broken_signature", int64(c.N(25, 400)))
	c.Require("rekeys_applied", int64(c.N(120, 2000)))
	c.Require("members_with_zero_fee", int64(c.N(50, 800)))
	c.Require("rekey_back_to_sender", 10)
	c.Require("rekey_to_msig", 10)
	c.Require("rekey_to_lsig", 10)
	c.Require("rekey_to_pq", 5)
	c.Require("blocks_validated_with_signatures", int64(c.N(100, 1500)))
	c.Require("forged_blocks_rejected", int64(c.N(100, 1500)))
}

func c28RekeyCase(c *kit.Ctx, t testing.TB, ci int, cv protocol.ConsensusVersion) {
	r := c.Rand(28, 100, uint64(ci))
	proto := config.Consensus[cv]
	// principals
	var ps []*c28Principal
	for i := 0; i < 5; i++ {
		k := cevKey(r)
		ps = append(ps, &c28Principal{name: fmt.Sprintf("K%d", i), addr: basics.Address(k.SignatureVerifier), kind: "ed", sk: k})
	}
	for i := 0; i < 2; i++ {
		sks := []*crypto.SignatureSecrets{cevKey(r), cevKey(r), cevKey(r)}
		ps = append(ps, &c28Principal{name: fmt.Sprintf("M%d", i), addr: c28MsigAddr(2, sks), kind: "msig", sks: sks, thr: 2})
	}
	for i := 0; i < 2; i++ {
		ops, err := logic.AssembleString(fmt.Sprintf("#pragma version 6\nint %d\n", 1+i+ci*2)) // distinct approve-always programs
		if err != nil {
			c.Harness("assemble: %v", err)
		}
		ps = append(ps, &c28Principal{name: fmt.Sprintf("L%d", i), addr: basics.Address(crypto.HashObj(logic.Program(ops.Program))), kind: "lsig", prog: ops.Program})
	}
	if proto.PQSigEnabled() {
		var seed crypto.FalconSeed
		c.Rand(28, 101, uint64(ci%4)).Fill(seed[:]) // a few distinct PQ keys over the run
		signer, err := crypto.GenerateFalconSigner(seed)
		if err != nil {
			c.Harness("falcon: %v", err)
		}
		salt, addr, err := basics.CanonicalPQAddressSalt(protocol.PQSchemeFalcon1024, signer.PublicKey[:])
		if err != nil {
			c.Harness("pq addr: %v", err)
		}
		ps = append(ps, &c28Principal{name: "P0", addr: addr, kind: "pq", pq: &signer, salt: salt})
	}
	byAddr := map[basics.Address]*c28Principal{}
	for _, p := range ps {
		byAddr[p.addr] = p
	}
	// funded senders: K0..K2, M0, L0, P0 (K3, K4, M1, L1 are unfunded authorizer targets)
	funded := map[string]bool{"K0": true, "K1": true, "K2": true, "M0": true, "L0": true, "P0": true}
	extra := map[basics.Address]basics.AccountData{}
	var senders []*c28Principal
	for _, p := range ps {
		if funded[p.name] {
			extra[p.addr] = basics.AccountData{MicroAlgos: basics.MicroAlgos{Raw: 1_000_000_000_000}, Status: basics.Offline}
			senders = append(senders, p)
		}
	}
	env := cevNewEnv(c, t, r, cv, cevGenesis{nAccts: 1, balance: 1_000_000_000_000, sinkBal: 1_000_000_000, extra: extra, defaultCaches: ci%4 == 3})
	defer env.close()
	cache := env.l.VerifiedTransactionCache()

	auth := map[basics.Address]basics.Address{} // model: sender -> current authorizer
	prevAuth := map[basics.Address]basics.Address{}
	cur := func(m map[basics.Address]basics.Address, s basics.Address) basics.Address {
		if a, ok := m[s]; ok {
			return a
		}
		return s
	}
	pqFeeFactor := uint64(1)
	if proto.PQSigEnabled() {
		pqFeeFactor = 1 + uint64(proto.PQSchemeFeeContribution(protocol.PQSchemeFalcon1024)/1e6)
	}

	ev := env.startEval(true, true, nil)
	var blockGroups [][]transactions.SignedTxn // accepted groups of the block under construction
	var trace []c28Step
	nsteps := r.Range(30, 60)
	noteCtr := 0
	closeBlock := func() {
		// 1. the honest block must pass full validation (signatures through the real cache + PaysetGroups)
		blk, _, err := env.finish(ev, basics.Address{}, true)
		if err != nil {
			c.Harness("GenerateBlock: %v", err)
		}
		// 2. forged sibling: same groups plus one member by a non-current authorizer / with a replaced signature
		{
			c28Forged(c, env, r, ci, blockGroups, auth, cur, senders, ps, byAddr, &noteCtr)
		}
		vb, err := env.validate(blk, true)
		if err != nil {
			c.Observation("C28 rekey: honest block rejected by full validation (not a C28 violation): case %d: %v", ci, err)
			c.Count("honest_blocks_rejected", 1)
			vb, err = env.validate(blk, false)
			if err != nil {
				c.Harness("honest block rejected even without signature checking: %v", err)
			}
		} else {
			c.Count("blocks_validated_with_signatures", 1)
		}
		env.add(vb)
		blockGroups = nil
		ev = env.startEval(true, true, nil)
	}

	for step := 0; step < nsteps && c.Violations() < 20; step++ {
		gsize := 1
		if r.Chance(1, 4) {
			gsize = r.Range(2, 4)
		}
		work := map[basics.Address]basics.Address{} // model changes of this group
		get := func(s basics.Address) basics.Address {
			if a, ok := work[s]; ok {
				return a
			}
			return cur(auth, s)
		}
		var txns []transactions.Transaction
		type plan struct {
			claimed *c28Principal
			broken  bool
			rel     string
		}
		var plans []plan
		rnd := ev.Round()
		for i := 0; i < gsize; i++ {
			s := senders[r.Intn(len(senders))]
			current := get(s.addr)
			var claimed *c28Principal
			rel := ""
			switch r.Pick([]int{60, 12, 12, 16}) {
			case 0:
				claimed, rel = byAddr[current], "current"
			case 1:
				claimed, rel = byAddr[cur(prevAuth, s.addr)], "previous"
			case 2:
				claimed, rel = s, "sender-itself"
			case 3:
				claimed, rel = ps[r.Intn(len(ps))], "random"
			}
			if claimed.addr == current {
				rel = "current"
			} else if rel == "current" {
				rel = "random"
			}
			noteCtr++
			fee := proto.MinTxnFee * pqFeeFactor // enough for any signature kind
			tx := env.pay(s.addr, env.accts[0].addr, uint64(r.Intn(1000)), fee, rnd, []byte(fmt.Sprintf("c28-%d", noteCtr)))
			rekeyName := ""
			if r.Chance(2, 5) {
				var to basics.Address
				switch r.Intn(5) {
				case 0:
					to = s.addr // back to the sender itself
				case 1:
					to = ps[len(ps)-1].addr // the PQ principal where the protocol has one (else a logic-signature account)
				default:
					to = ps[r.Intn(len(ps))].addr
				}
				tx.RekeyTo = to
				rekeyName = byAddr[to].name
				// model: takes effect for later members of the group, if the group is accepted
				if to == s.addr {
					work[s.addr] = s.addr
				} else {
					work[s.addr] = to
				}
			}
			txns = append(txns, tx)
			plans = append(plans, plan{claimed: claimed, broken: r.Chance(1, 8), rel: rel})
			trace = append(trace, c28Step{Sender: s.name, Claimed: claimed.name, Current: byAddr[current].name, RekeyTo: rekeyName, Broken: plans[i].broken})
		}
		if gsize > 1 {
			if r.Bool() {
				// pooled fees: one member pays nothing, another pays for it (the authorizer rule must not depend on the fee)
				i := r.Intn(gsize)
				j := (i + 1 + r.Intn(gsize-1)) % gsize
				txns[j].Fee.Raw += txns[i].Fee.Raw
				txns[i].Fee.Raw = 0
				c.Count("members_with_zero_fee", 1)
			}
			cevSetGroup(txns)
		}
		// expectation per member, replaying the model through the group
		expectOK := true
		var why string
		replay := map[basics.Address]basics.Address{}
		getR := func(s basics.Address) basics.Address {
			if a, ok := replay[s]; ok {
				return a
			}
			return cur(auth, s)
		}
		stxns := make([]transactions.SignedTxn, gsize)
		for i := range txns {
			s, err := c28Sign(txns[i], plans[i].claimed, plans[i].broken, r)
			if err != nil {
				c.Harness("sign: %v", err)
			}
			stxns[i] = s
			if plans[i].claimed.addr != getR(txns[i].Sender) {
				expectOK = false
				why = fmt.Sprintf("member %d: claimed authorizer %s is not the current authorizer %s of %s", i, plans[i].claimed.name, byAddr[getR(txns[i].Sender)].name, byAddr[txns[i].Sender].name)
			} else if plans[i].broken {
				expectOK = false
				why = fmt.Sprintf("member %d: signature broken", i)
			}
			if !txns[i].RekeyTo.IsZero() {
				replay[txns[i].Sender] = txns[i].RekeyTo
			}
		}
		// the real path: stateless verification, then the evaluator
		hdr := env.nextHeader()
		var verr, eerr error
		c.Guard("verify+eval", map[string]any{"case": ci, "step": step}, func() {
			_, verr = verify.TxnGroup(stxns, &hdr, cache, env.l)
			if verr == nil {
				eerr = ev.TransactionGroup(cevWrap(stxns)...)
			}
		})
		accepted := verr == nil && eerr == nil
		c.Eval(1)
		for i := range plans {
			sk := byAddr[txns[i].Sender].kind
			ck := byAddr[cur(auth, txns[i].Sender)].kind
			tk := "-"
			if !txns[i].RekeyTo.IsZero() {
				tk = byAddr[txns[i].RekeyTo].kind
			}
			c.Distinct(fmt.Sprintf("%s|%s|%s|%s|%s|%v", cv, sk, ck, plans[i].rel, tk, accepted))
		}
		if accepted && !expectOK {
			tail := trace
			if len(tail) > 40 {
				tail = tail[len(tail)-40:]
			}
			c.Violation("accepts-non-current-authorizer", map[string]any{"case": fmt.Sprintf("seed=%d case=%d step=%d proto=%s", c.Seed, ci, step, cv), "why": why,
				"group": fmt.Sprintf("%x", protocol.EncodeReflect(stxns)), "steps_so_far(last 40)": tail})
			return
		}
		if !accepted {
			switch {
			case expectOK:
				c.Count("authorized_but_rejected", 1)
				c.Observation("C28 rekey: a group authorized per the model was rejected (not a C28 violation): case %d step %d: verify=%v eval=%v", ci, step, verr, eerr)
			case gsize == 1 && plans[0].broken && plans[0].rel == "current":
				c.Count("rejected_broken_signature", 1)
			case gsize == 1 && plans[0].rel == "sender-itself":
				c.Count("rejected_sender_key_after_rekey", 1)
				c.Count("rejected_stale_authorizer", 1)
			case gsize == 1 && plans[0].rel == "previous":
				c.Count("rejected_stale_authorizer", 1)
			default:
				c.Count("rejected_other_unauthorized", 1)
			}
			continue
		}
		// accepted and authorized: commit the model
		for i := range txns {
			s := txns[i].Sender
			c.Count("accepted_by_current_authorizer", 1)
			if plans[i].claimed.addr != s {
				c.Count("accepted_after_rekey_by_new_authorizer", 1)
			}
			if to := txns[i].RekeyTo; !to.IsZero() {
				prevAuth[s] = cur(auth, s)
				auth[s] = to
				c.Count("rekeys_applied", 1)
				if to == s {
					c.Count("rekey_back_to_sender", 1)
				} else {
					c.Count("rekey_to_"+byAddr[to].kind, 1)
				}
			}
		}
		blockGroups = append(blockGroups, stxns)
		if r.Chance(1, 4) {
			closeBlock()
		}
	}
	closeBlock()
	if ci < 3 {
		c.Sample(map[string]any{"case": ci, "protocol": string(cv), "steps": nsteps, "first_steps": trace[:min(8, len(trace))]})
	}
}

// c28Forged builds, on the current ledger tip, a block as a malicious proposer would (non-validating evaluator):
// the accepted groups of the honest block plus one forged member, and requires Ledger.Validate (real signature
// checking, real cache) to reject it.
func c28Forged(c *kit.Ctx, env *cevEnv, r *kit.Rand, ci int, groups [][]transactions.SignedTxn, auth map[basics.Address]basics.Address,
	cur func(map[basics.Address]basics.Address, basics.Address) basics.Address, senders, ps []*c28Principal, byAddr map[basics.Address]*c28Principal, noteCtr *int) {
	forger := env.startEval(false, true, nil)
	kind := r.Intn(3)
	if len(groups) == 0 && kind == 2 {
		kind = 0
	}
	replaced := -1
	if kind == 2 {
		replaced = r.Intn(len(groups))
	}
	desc := ""
	for gi, g := range groups {
		gg := g
		if gi == replaced {
			// a transaction whose honest version sits in the verified-transaction cache, with its authorization replaced
			gg = append([]transactions.SignedTxn(nil), g...)
			m := r.Intn(len(gg))
			v := gg[m]
			switch {
			case v.Sig != (crypto.Signature{}):
				v.Sig[r.Intn(64)] ^= 1
			case len(v.Msig.Subsigs) > 0:
				v.Msig.Subsigs = append([]crypto.MultisigSubsig(nil), v.Msig.Subsigs...)
				for i := range v.Msig.Subsigs {
					if v.Msig.Subsigs[i].Sig != (crypto.Signature{}) {
						v.Msig.Subsigs[i].Sig[3] ^= 1
						break
					}
				}
			case len(v.PQsig.Signature) > 0:
				b := append([]byte(nil), v.PQsig.Signature...)
				b[len(b)/3] ^= 1
				v.PQsig.Signature = b
			default:
				// logic-signature authorized: claim it for an approve-all program that is not the authorizer
				v.Lsig.Logic = []byte{6, 0x81, 1}
			}
			gg[m] = v
			desc = fmt.Sprintf("authorization of a cached transaction replaced (group %d member %d)", gi, m)
		}
		if err := forger.TransactionGroup(cevWrap(gg)...); err != nil {
			c.Harness("forger could not replay an accepted group: %v", err)
		}
	}
	if kind != 2 {
		// an extra payment from a funded sender, authorized by somebody who is not its current authorizer
		// (kind 0: validly signed by a stranger / stale key; kind 1: by the sender's own key although rekeyed, if any)
		var s, claimed *c28Principal
		for try := 0; try < 50 && claimed == nil; try++ {
			s = senders[r.Intn(len(senders))]
			current := cur(auth, s.addr)
			if kind == 1 && current != s.addr {
				claimed = s
			} else if kind == 0 {
				p := ps[r.Intn(len(ps))]
				if p.addr != current {
					claimed = p
				}
			}
			if try == 25 {
				kind = 0
			}
		}
		if claimed == nil {
			return
		}
		*noteCtr++
		fee := env.proto.MinTxnFee * 3
		tx := env.pay(s.addr, env.accts[0].addr, 12345, fee, forger.Round(), []byte(fmt.Sprintf("c28-forged-%d", *noteCtr)))
		st, err := c28Sign(tx, claimed, false, r)
		if err != nil {
			c.Harness("sign: %v", err)
		}
		if err := forger.TransactionGroup(cevWrap([]transactions.SignedTxn{st})...); err != nil {
			c.Harness("forger could not add the forged payment: %v", err)
		}
		desc = fmt.Sprintf("payment from %s (current authorizer %s) validly signed by %s", s.name, byAddr[cur(auth, s.addr)].name, claimed.name)
	}
	blk, _, err := env.finish(forger, basics.Address{}, true)
	if err != nil {
		c.Harness("forger GenerateBlock: %v", err)
	}
	var verr error
	c.Guard("Ledger.Validate", map[string]any{"case": ci, "forgery": desc}, func() {
		_, verr = env.validate(blk, true)
	})
	c.Eval(1)
	if verr == nil {
		c.Violation("block-with-unauthorized-txn-validated", map[string]any{"case": fmt.Sprintf("seed=%d case=%d round=%d", c.Seed, ci, blk.Round()), "forgery": desc,
			"block": fmt.Sprintf("%x", protocol.Encode(&blk))})
		return
	}
	c.Count("forged_blocks_rejected", 1)
}
