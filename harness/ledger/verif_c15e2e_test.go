package ledger

// C15 (end-to-end part): a catchpoint label commits to a unique ledger state.
// Two REAL ledgers X and Y run the same PRNG history (same seed: identical blocks, verified by
// comparing block hashes) up to one block in which exactly one transaction differs, so that the
// two resulting states differ in exactly one way; both then run on (empty blocks) until the
// catchpoint tracker has committed to those states. The label of a catchpoint round is
// H(block hash, trie root, totals, state-proof data hash, online-account hashes): because the
// differing transaction necessarily changes the block hash, the state commitment is compared with
// the block hash held fixed, i.e. label(X's block, Y's committed state) against X's real label —
// exactly what a catching-up node computes when it is handed Y's state for X's label.
// Oracle: none beyond (in)equality. States that differ must give different labels. The pair
// box (name+x, value) / box (name, x+value) is the recorded known finding kv-preimage-boundary-shift
// (KvHashBuilderV6 hashes key||value); every other equality is a violation with its own key.

import (
	"bytes"
	"fmt"
	"testing"

	"github.com/algorand/avm-abi/apps"
	"github.com/algorand/go-algorand/config"
	"github.com/algorand/go-algorand/crypto"
	"github.com/algorand/go-algorand/data/basics"
	"github.com/algorand/go-algorand/data/bookkeeping"
	"github.com/algorand/go-algorand/data/transactions"
	"github.com/algorand/go-algorand/data/txntest"
	"github.com/algorand/go-algorand/ledger/ledgercore"
	"github.com/algorand/go-algorand/ledger/store/trackerdb"
	"github.com/algorand/go-algorand/protocol"
	"verif.local/kit"
)

// c15Label recomputes a label from first-stage commitments the way catchpointTracker.createCatchpoint does.
func c15Label(p config.ConsensusParams, rnd basics.Round, blockHash crypto.Digest, i trackerdb.CatchpointFirstStageInfo) string {
	switch {
	case p.EnableCatchpointsWithOnlineAccounts:
		return ledgercore.MakeLabel(ledgercore.MakeCatchpointLabelMakerCurrent(rnd, &blockHash, &i.TrieBalancesHash, i.Totals, &i.StateProofVerificationHash, &i.OnlineAccountsHash, &i.OnlineRoundParamsHash))
	case p.EnableCatchpointsWithSPContexts:
		return ledgercore.MakeLabel(ledgercore.MakeCatchpointLabelMakerV7(rnd, &blockHash, &i.TrieBalancesHash, i.Totals, &i.StateProofVerificationHash))
	default:
		return ledgercore.MakeLabel(ledgercore.MakeCatchpointLabelMakerV6(rnd, &blockHash, &i.TrieBalancesHash, i.Totals))
	}
}

type c15Side struct {
	s      *hlSim
	stages map[basics.Round]trackerdb.CatchpointFirstStageInfo
	labels map[basics.Round]string
	note   uint64
}

func (x *c15Side) observe() {
	cpFlush(x.s)
	if f, ok := cpPendingFirstStage(x.s); ok {
		if info, ok := cpFirstStage(x.s.l, f); ok {
			x.stages[f] = info
		}
	}
	if lbl := x.s.l.GetLastCatchpointLabel(); lbl != "" {
		if rnd, _, err := ledgercore.ParseCatchpointLabel(lbl); err == nil {
			x.labels[rnd] = lbl
		}
	}
}

// block builds one scripted block; every group must be accepted (else the case is unusable).
func (x *c15Side) block(groups ...[]*txntest.Txn) error {
	s := x.s
	s.lastBlockGroups = s.lastBlockGroups[:0]
	ev, err := s.startEval()
	if err != nil {
		return err
	}
	for _, g := range groups {
		for _, tx := range g {
			x.note++
			tx.Note = []byte(fmt.Sprintf("c15-%d", x.note))
		}
		if err := s.offer(ev, "scripted", g...); err != nil {
			return err
		}
	}
	if _, err := s.finishBlock(ev); err != nil {
		return err
	}
	x.observe()
	return nil
}

// c15StateDiff lists how the two reference models differ at round r (accounts, resources, kv).
func c15StateDiff(a, b *hlModel, r basics.Round) []string {
	var out []string
	o := kit.FPOptions{NilEqualsEmpty: true}
	addrs := map[basics.Address]bool{}
	for k := range a.accts {
		addrs[k] = true
	}
	for k := range b.accts {
		addrs[k] = true
	}
	for ad := range addrs {
		if kit.Fingerprint(a.fullAccount(r, ad), o) != kit.Fingerprint(b.fullAccount(r, ad), o) {
			out = append(out, "account "+hlShort(ad))
		}
	}
	keys := map[string]bool{}
	for k := range a.kv {
		keys[k] = true
	}
	for k := range b.kv {
		keys[k] = true
	}
	for k := range keys {
		va, oka := a.kv[k].at(r)
		vb, okb := b.kv[k].at(r)
		if oka != okb || !bytes.Equal(va, vb) {
			out = append(out, fmt.Sprintf("kv %x", k))
		}
	}
	return out
}

// c15EqualStates: the label must be a function of the state. One chain creates a ZERO-LENGTH box
// in round r and deletes it in round r+1 (plus a control box with a value). Ledger X commits after
// every block, so the creation is in the tracker DB before the deletion is committed; twin ledger T
// receives the same blocks but skips the one commit that would separate the two rounds, so creation
// and deletion reach its tracker DB in one commit (for it the box never existed on disk). Same
// blocks, same state: every catchpoint label both produce must be equal.
func c15EqualStates(t *testing.T, c *kit.Ctx) {
	n := c.N(3, 12)
	for i := 0; i < n && c.Violations() < 5; i++ {
		cr := c.Rand(15, 7000+uint64(i), 99)
		cfg := hlConfig{
			Proto:              []protocol.ConsensusVersion{hlProtoShort, hlProtoMid, hlProtoCurrentMid}[cr.Intn(3)],
			MaxAcctLookback:    []uint64{1, 2, 4}[cr.Intn(3)],
			Archival:           cr.Bool(),
			OnDisk:             true,
			Storage:            "sqlite",
			NAccounts:          12,
			NOnline:            4,
			CatchpointInterval: 4,
			CatchpointTracking: 1,
			Profile:            "apps",
		}
		lb := cpLookback(config.Consensus[cfg.Proto])
		L := basics.Round(cfg.MaxAcctLookback)
		X := &c15Side{s: hlNewSim(t, c, c.Rand(15, 7000+uint64(i)), cfg), stages: map[basics.Round]trackerdb.CatchpointFirstStageInfo{}, labels: map[basics.Round]string{}}
		X.s.g.weights["rekey"], X.s.g.weights["payclose"] = 0, 0
		var chain []bookkeeping.Block
		X.s.onBlock = append(X.s.onBlock, func(vb *ledgercore.ValidatedBlock) { chain = append(chain, vb.Block()) })
		func() {
			defer X.s.close()
			for k, np := 0, cr.Range(0, 4); k < np; k++ {
				X.s.step()
				X.observe()
			}
			u := X.s.u
			creator, payer := u.keyed[5], u.keyed[8]
			approval, clear := hlPrograms()
			if err := X.block([]*txntest.Txn{{Type: protocol.ApplicationCallTx, Sender: creator, ApprovalProgram: approval, ClearStateProgram: clear,
				GlobalStateSchema: basics.StateSchema{NumUint: 1, NumByteSlice: 3}, LocalStateSchema: basics.StateSchema{NumUint: 1, NumByteSlice: 2}}}); err != nil {
				c.Harness("equal-state case %d: app creation: %v", i, err)
			}
			var app basics.AppIndex
			for idx, h := range X.s.m.creators {
				if x, ok := h.at(X.s.m.latest); ok && x.ctype == basics.AppCreatable && x.addr == creator && h.lastChange(X.s.m.latest) == X.s.m.latest {
					app = basics.AppIndex(idx)
				}
			}
			if err := X.block([]*txntest.Txn{{Type: protocol.PaymentTx, Sender: payer, Receiver: app.Address(), Amount: 50_000_000}}); err != nil {
				c.Harness("equal-state case %d: funding: %v", i, err)
			}
			// r must not be a round at which the background syncer commits on its own (first-stage and
			// catchpoint rounds are multiples of 4 here), nor may r+1 follow such a boundary
			for (X.s.m.latest+1)%4 != 1 && (X.s.m.latest+1)%4 != 2 {
				X.s.emptyBlock()
				X.observe()
			}
			box := func(op, nm string, arg []byte) []*txntest.Txn {
				args := [][]byte{[]byte(op), []byte(nm)}
				if arg != nil {
					args = append(args, arg)
				}
				return []*txntest.Txn{{Type: protocol.ApplicationCallTx, Sender: payer, ApplicationID: app, ApplicationArgs: args, Boxes: []transactions.BoxRef{{Name: []byte(nm)}}}}
			}
			name := string(cr.Bytes(cr.Range(1, 12)))
			if err := X.block(box("bcreate", name, u64(0)), box("bput", name+"-full", cr.Bytes(cr.Range(1, 9)))); err != nil {
				c.Harness("equal-state case %d: box creation: %v", i, err)
			}
			r := X.s.m.latest
			if err := X.block(box("bdel", name, nil), box("bdel", name+"-full", nil)); err != nil {
				c.Harness("equal-state case %d: box deletion: %v", i, err)
			}
			target := (r + 1 + lb + 3) / 4 * 4
			for X.s.m.latest < target+L+1 {
				X.s.emptyBlock()
				X.observe()
			}
			// twin T: same blocks, commits after every block except the one that would commit round r alone
			lc := X.s.lcfg
			T := &c15Side{s: cpTwin(X.s, c.Rand(15, 7000+uint64(i), 1), lc, "c15-t"), stages: map[basics.Round]trackerdb.CatchpointFirstStageInfo{}, labels: map[basics.Round]string{}}
			defer T.s.close()
			sawR := false
			for _, blk := range chain {
				if err := cpAddBlock(T.s, blk); err != nil {
					c.Harness("equal-state case %d: twin rejects block %d: %v", i, blk.Round(), err)
				}
				if blk.Round() == r+L {
					continue // no commit here: rounds r and r+1 go to the tracker DB together
				}
				T.observe()
				if T.s.l.LatestTrackerCommitted() == r {
					sawR = true
				}
			}
			if sawR {
				c.Count("c15e2e.twin_committed_between_create_and_delete", 1) // the background syncer did it on its own
			} else {
				c.Count("c15e2e.delete_committed_together_with_create", 1)
			}
			c.Count("c15e2e.delete_committed_after_create_was_persisted", 1)
			for rnd, lx := range X.labels {
				lt, ok := T.labels[rnd]
				if !ok || rnd < r+1+lb {
					continue
				}
				c.Eval(1)
				c.Count("c15e2e.equal_state_labels_compared", 1)
				c.Distinct(fmt.Sprintf("equal-state|%d|%d", len(name), cfg.MaxAcctLookback))
				if lx != lt {
					w := map[string]any{"case": i, "config": cfg.String(), "app": app, "box": fmt.Sprintf("%x", name), "created_in_round": r, "deleted_in_round": r + 1, "catchpoint_round": rnd,
						"label_committing_after_every_block": lx, "label_committing_both_rounds_together": lt, "twin_committed_round_r_separately": sawR, "trace_X": X.s.traceTail(25), "trace_T": T.s.traceTail(25)}
					if ix, ok := X.stages[rnd-lb]; ok {
						w["X_commitments"] = cpStageStr(ix)
					}
					if it, ok := T.stages[rnd-lb]; ok {
						w["T_commitments"] = cpStageStr(it)
					}
					c.Violation("equal-state-different-label:empty-box-deleted", w)
				}
			}
		}()
	}
}

func TestVerifC15E2E(t *testing.T) {
	c := kit.Start(t, "C15", "e2e")
	defer c.Finish()
	c.Rule("pairs of real on-disk ledgers with catchpoint tracking run the same PRNG-generated prefix history (0–8 blocks; block hashes compared), the same scripted setup (HL application funded, asset created and opted into, global and local state written), then ONE block in which one transaction differs: box (name, value) vs the bytes moved across the name|value boundary by k bytes [expected collision], or a control difference: one box value byte, one box name byte, a payment amount (two account balances), an asset transfer amount (two holdings), the frozen bit of one holding, a global state value, a local state value, a persisted zero-length box deleted vs kept; then empty blocks until both catchpoint trackers have written the first-stage commitments and labels for a balances round after the differing block; labels recomputed for X's block hash from each ledger's committed (trie root, totals, state-proof hash, online hashes) and compared; distinct = (class, name length, value length, shift) tuples; plus equal-state cases: one chain creates a zero-length box in round r and deletes it in round r+1, ledger X commits after every block (creation persisted before the deletion is committed), a twin fed the same blocks commits both rounds together; their real labels must be equal")
	c.Assume("the differing transaction changes the block hash, so the comparison holds the block hash fixed (X's); SHA-512/256 does not collide on the generated inputs")
	hlRegisterProtos()
	classes := []string{"boundary-shift", "box-value-byte", "asset-frozen-bit", "account-balance", "boundary-shift", "box-name-byte", "asset-holding", "global-state-value", "boundary-shift", "local-state-value", "boundary-shift", "empty-box-deleted-vs-kept", "asset-frozen-bit"}
	n := c.N(13, 65)
	for i := 0; i < n && c.Violations() < 5; i++ {
		class := classes[i%len(classes)]
		cr := c.Rand(15, uint64(i), 99)
		cfg := hlConfig{
			Proto:              []protocol.ConsensusVersion{hlProtoShort, hlProtoMid, hlProtoCurrentMid}[cr.Intn(3)],
			MaxAcctLookback:    []uint64{1, 2, 4}[cr.Intn(3)],
			Archival:           cr.Bool(),
			OnDisk:             true,
			Storage:            "sqlite",
			NAccounts:          12,
			NOnline:            4,
			CatchpointInterval: 4,
			CatchpointTracking: []int64{1, 2}[cr.Intn(2)],
			Profile:            "apps",
		}
		p := config.Consensus[cfg.Proto]
		lb := cpLookback(p)
		X := &c15Side{s: hlNewSim(t, c, c.Rand(15, uint64(i)), cfg), stages: map[basics.Round]trackerdb.CatchpointFirstStageInfo{}, labels: map[basics.Round]string{}}
		Y := &c15Side{s: cpCloneSim(X.s, "c15-y"), stages: map[basics.Round]trackerdb.CatchpointFirstStageInfo{}, labels: map[basics.Round]string{}}
		for _, s := range []*c15Side{X, Y} {
			// the scripted part needs its accounts alive and not rekeyed
			s.s.g.weights["rekey"] = 0
			s.s.g.weights["payclose"] = 0
		}
		both := func(f func(s *c15Side) error) bool {
			for _, s := range []*c15Side{X, Y} {
				if err := f(s); err != nil {
					c.Count("c15e2e.case_unusable", 1)
					c.Observation("case %d (%s) unusable: %v", i, class, err)
					return false
				}
			}
			return true
		}
		func() {
			defer X.s.close()
			defer Y.s.close()
			// identical PRNG prefix
			for k, np := 0, cr.Range(0, 8); k < np; k++ {
				both(func(s *c15Side) error { s.s.step(); s.observe(); return nil })
			}
			u := X.s.u
			creator, assetCreator, holder, payer, payee := u.keyed[5], u.keyed[6], u.keyed[7], u.keyed[8], u.keyed[9]
			approval, clear := hlPrograms()
			// setup block 1: the application and the asset
			if !both(func(s *c15Side) error {
				return s.block(
					[]*txntest.Txn{{Type: protocol.ApplicationCallTx, Sender: creator, ApprovalProgram: approval, ClearStateProgram: clear,
						GlobalStateSchema: basics.StateSchema{NumUint: 1, NumByteSlice: 3}, LocalStateSchema: basics.StateSchema{NumUint: 1, NumByteSlice: 2}}},
					[]*txntest.Txn{{Type: protocol.AssetConfigTx, Sender: assetCreator, AssetParams: basics.AssetParams{Total: 1_000_000, UnitName: "u", AssetName: "c15", Manager: assetCreator, Freeze: assetCreator}}},
				)
			}) {
				return
			}
			var app basics.AppIndex
			var asset basics.AssetIndex
			for idx, h := range X.s.m.creators {
				if cr, ok := h.at(X.s.m.latest); ok && h.lastChange(X.s.m.latest) == X.s.m.latest {
					if cr.ctype == basics.AppCreatable && cr.addr == creator {
						app = basics.AppIndex(idx)
					}
					if cr.ctype == basics.AssetCreatable && cr.addr == assetCreator {
						asset = basics.AssetIndex(idx)
					}
				}
			}
			if app == 0 || asset == 0 {
				c.Harness("setup block did not create the app/asset")
			}
			// setup block 2: fund the app account, opt in, write some state and an unrelated box
			if !both(func(s *c15Side) error {
				return s.block(
					[]*txntest.Txn{{Type: protocol.PaymentTx, Sender: payer, Receiver: app.Address(), Amount: 50_000_000}},
					[]*txntest.Txn{{Type: protocol.AssetTransferTx, Sender: holder, XferAsset: asset, AssetReceiver: holder}},
					[]*txntest.Txn{{Type: protocol.ApplicationCallTx, Sender: holder, ApplicationID: app, OnCompletion: transactions.OptInOC}},
					[]*txntest.Txn{{Type: protocol.ApplicationCallTx, Sender: payer, ApplicationID: app, ApplicationArgs: [][]byte{[]byte("gput"), []byte("k0"), []byte("global-0")}}},
					[]*txntest.Txn{{Type: protocol.ApplicationCallTx, Sender: payer, ApplicationID: app, ApplicationArgs: [][]byte{[]byte("bput"), []byte("other"), []byte("unrelated")}, Boxes: []transactions.BoxRef{{Name: []byte("other")}}}},
					[]*txntest.Txn{{Type: protocol.ApplicationCallTx, Sender: payer, ApplicationID: app, ApplicationArgs: [][]byte{[]byte("bcreate"), []byte("emptyE"), u64(0)}, Boxes: []transactions.BoxRef{{Name: []byte("emptyE")}}}},
				)
			}) {
				return
			}
			// the differing block
			nameLen := cr.Range(2, 20)
			name := cr.Bytes(nameLen)
			value := cr.Bytes([]int{0, 1, 2, 7, 33, 200}[cr.Intn(6)])
			boxCall := func(nm, val []byte) []*txntest.Txn {
				return []*txntest.Txn{{Type: protocol.ApplicationCallTx, Sender: payer, ApplicationID: app, ApplicationArgs: [][]byte{[]byte("bput"), nm, val}, Boxes: []transactions.BoxRef{{Name: nm}}}}
			}
			var gx, gy []*txntest.Txn
			shape := ""
			switch class {
			case "boundary-shift":
				k := cr.Range(1, nameLen-1)
				gx = boxCall(name, value)
				gy = boxCall(name[:nameLen-k], append(append([]byte{}, name[nameLen-k:]...), value...))
				shape = fmt.Sprintf("name%d|value%d|shift%d", nameLen, len(value), k)
			case "box-value-byte":
				if len(value) == 0 {
					value = []byte{7}
				}
				v2 := append([]byte{}, value...)
				v2[cr.Intn(len(v2))] ^= 1 << uint(cr.Intn(8))
				gx, gy = boxCall(name, value), boxCall(name, v2)
				shape = fmt.Sprintf("name%d|value%d", nameLen, len(value))
			case "box-name-byte":
				n2 := append([]byte{}, name...)
				n2[cr.Intn(len(n2))] ^= 1 << uint(cr.Intn(8))
				gx, gy = boxCall(name, value), boxCall(n2, value)
				shape = fmt.Sprintf("name%d|value%d", nameLen, len(value))
			case "account-balance":
				amt := cr.Uint64n(1_000_000)
				gx = []*txntest.Txn{{Type: protocol.PaymentTx, Sender: payer, Receiver: payee, Amount: amt}}
				gy = []*txntest.Txn{{Type: protocol.PaymentTx, Sender: payer, Receiver: payee, Amount: amt + 1}}
				shape = fmt.Sprintf("amount%d", amt%7)
			case "asset-holding":
				amt := cr.Uint64n(1000)
				gx = []*txntest.Txn{{Type: protocol.AssetTransferTx, Sender: assetCreator, XferAsset: asset, AssetReceiver: holder, AssetAmount: amt}}
				gy = []*txntest.Txn{{Type: protocol.AssetTransferTx, Sender: assetCreator, XferAsset: asset, AssetReceiver: holder, AssetAmount: amt + 1}}
				shape = fmt.Sprintf("amount%d", amt%7)
			case "empty-box-deleted-vs-kept":
				// X deletes the persisted zero-length box, Y's delete names a box that never existed (same fee, no effect)
				del := func(nm string) []*txntest.Txn {
					return []*txntest.Txn{{Type: protocol.ApplicationCallTx, Sender: payer, ApplicationID: app, ApplicationArgs: [][]byte{[]byte("bdel"), []byte(nm)}, Boxes: []transactions.BoxRef{{Name: []byte(nm)}}}}
				}
				gx, gy = del("emptyE"), del("never-existed")
				shape = "empty"
			case "asset-frozen-bit":
				// exactly ONE holding differs: X freezes the holder's holding, Y's freeze transaction leaves it unfrozen
				gx = []*txntest.Txn{{Type: protocol.AssetFreezeTx, Sender: assetCreator, FreezeAsset: asset, FreezeAccount: holder, AssetFrozen: true}}
				gy = []*txntest.Txn{{Type: protocol.AssetFreezeTx, Sender: assetCreator, FreezeAsset: asset, FreezeAccount: holder, AssetFrozen: false}}
				shape = "frozen"
			case "global-state-value":
				v := cr.Bytes(cr.Range(1, 16))
				v2 := append([]byte{}, v...)
				v2[cr.Intn(len(v2))] ^= 1
				gx = []*txntest.Txn{{Type: protocol.ApplicationCallTx, Sender: payer, ApplicationID: app, ApplicationArgs: [][]byte{[]byte("gput"), []byte("k1"), v}}}
				gy = []*txntest.Txn{{Type: protocol.ApplicationCallTx, Sender: payer, ApplicationID: app, ApplicationArgs: [][]byte{[]byte("gput"), []byte("k1"), v2}}}
				shape = fmt.Sprintf("value%d", len(v))
			case "local-state-value":
				v := cr.Bytes(cr.Range(1, 16))
				v2 := append([]byte{}, v...)
				v2[cr.Intn(len(v2))] ^= 1
				gx = []*txntest.Txn{{Type: protocol.ApplicationCallTx, Sender: holder, ApplicationID: app, ApplicationArgs: [][]byte{[]byte("lput"), []byte("k1"), v}}}
				gy = []*txntest.Txn{{Type: protocol.ApplicationCallTx, Sender: holder, ApplicationID: app, ApplicationArgs: [][]byte{[]byte("lput"), []byte("k1"), v2}}}
				shape = fmt.Sprintf("value%d", len(v))
			}
			same := []*txntest.Txn{{Type: protocol.PaymentTx, Sender: u.keyed[10], Receiver: u.keyed[11], Amount: 12345}}
			prefixEqual := X.s.m.hdrs[X.s.m.latest].Hash() == Y.s.m.hdrs[Y.s.m.latest].Hash()
			if !prefixEqual {
				for rr := basics.Round(0); rr <= X.s.m.latest; rr++ {
					if X.s.m.hdrs[rr].Hash() != Y.s.m.hdrs[rr].Hash() {
						o := kit.FPOptions{NilEqualsEmpty: true}
						c.Harness("case %d: the two ledgers' histories differ at round %d before the differing block (generator not deterministic?)\nX: %s\nY: %s", i, rr, kit.Describe(X.s.m.hdrs[rr], o), kit.Describe(Y.s.m.hdrs[rr], o))
					}
				}
			}
			if err := X.block(same, gx); err != nil {
				c.Count("c15e2e.case_unusable", 1)
				c.Observation("case %d (%s) unusable: %v", i, class, err)
				return
			}
			if err := Y.block(same, gy); err != nil {
				c.Count("c15e2e.case_unusable", 1)
				c.Observation("case %d (%s) unusable: %v", i, class, err)
				return
			}
			div := X.s.m.latest
			// run on until a catchpoint whose balances round is >= div has been labelled by both
			target := (div + lb + 3) / 4 * 4 // first catchpoint round with balances round >= div
			for X.s.m.latest < target+basics.Round(cfg.MaxAcctLookback)+1 {
				both(func(s *c15Side) error { s.s.emptyBlock(); s.observe(); return nil })
			}
			f := target - lb
			diff := c15StateDiff(X.s.m, Y.s.m, f)
			if len(diff) == 0 {
				c.Harness("case %d (%s): the two states do not differ at round %d", i, class, f)
			}
			ix, okx := X.stages[f]
			iy, oky := Y.stages[f]
			lx, oklx := X.labels[target]
			_, okly := Y.labels[target]
			if !okx || !oky || !oklx || !okly {
				c.Count("c15e2e.catchpoint_not_produced", 1)
				return
			}
			hx := X.s.m.hdrs[target].Hash()
			if c15Label(p, target, crypto.Digest(hx), ix) != lx {
				c.Harness("case %d: recomputed label differs from the tracker's own label (harness formula out of date)", i)
			}
			ly := c15Label(p, target, crypto.Digest(hx), iy)
			c.Eval(1)
			c.Count("c15e2e.pairs."+class, 1)
			c.Distinct(class + "|" + shape)
			w := map[string]any{"case": i, "class": class, "shape": shape, "config": cfg.String(), "app": app, "catchpoint_round": target, "balances_round": f,
				"state_difference": diff, "label_X": lx, "label_for_X_block_with_Y_state": ly,
				"X_commitments": cpStageStr(ix), "Y_commitments": cpStageStr(iy), "box_key_X": fmt.Sprintf("%x", apps.MakeBoxKey(uint64(app), string(name)))}
			if ly == lx {
				if class == "boundary-shift" {
					c.Count("c15e2e.boundary_shift_collisions", 1)
					c.Violation("kv-preimage-boundary-shift", w)
				} else {
					c.Violation("label-collision:"+class, w)
				}
			} else {
				c.Count("c15e2e.distinguished."+class, 1)
			}
			if i < 4 {
				c.Sample(map[string]any{"case": i, "class": class, "shape": shape, "state_difference": diff, "labels_equal": ly == lx, "catchpoint_round": target})
			}
		}()
	}
	c.Require("c15e2e.pairs.boundary-shift", int64(c.N(3, 20)))
	c.Require("c15e2e.distinguished.box-value-byte", 1)
	c.Require("c15e2e.distinguished.account-balance", 1)
	c.Require("c15e2e.distinguished.asset-holding", 1)
	c.Require("c15e2e.distinguished.box-name-byte", 1)
	c.Require("c15e2e.pairs.asset-frozen-bit", 1)
	c.Require("c15e2e.distinguished.empty-box-deleted-vs-kept", 1)
	c15EqualStates(t, c)
	c.Require("c15e2e.equal_state_labels_compared", int64(c.N(2, 8)))
	c.Require("c15e2e.delete_committed_after_create_was_persisted", int64(c.N(2, 8)))
	c.Require("c15e2e.delete_committed_together_with_create", int64(c.N(2, 8)))
}
