package ledger

// C13: consensus sees the right online stake for every round.
// Oracle: reference model — online fields of an account at round rnd (with pending rewards at
// rnd's level) and circulation = Σ online stake at rnd minus, when the protocol says so and
// rnd != 0, the stake of accounts whose keys expired before voteRnd.

import (
	"fmt"
	"math/big"
	"testing"

	"github.com/algorand/go-algorand/data/basics"
	"github.com/algorand/go-algorand/ledger/ledgercore"
	"verif.local/kit"
)

func c13Check(s *hlSim, after string) {
	c, l, m := s.c, s.l, s.m
	latest := m.latest
	p := m.proto(latest)
	lo := basics.Round(0)
	if uint64(latest) > p.MaxBalLookback {
		lo = latest - basics.Round(p.MaxBalLookback)
	}
	db := l.LatestTrackerCommitted()
	// rounds: every round of the guaranteed window on small windows, else a sample incl. boundaries
	var rounds []basics.Round
	for r := lo; r <= latest; r++ {
		rounds = append(rounds, r)
	}
	if len(rounds) > 12 {
		pick := []basics.Round{lo, lo + 1, latest, latest - 1, db, db + 1}
		pick = append(pick, s.probeRounds...) // first round after each commit of a big flush
		for i := 0; i < 5; i++ {
			pick = append(pick, lo+basics.Round(s.r.Uint64n(uint64(latest-lo)+1)))
		}
		rounds = rounds[:0]
		for _, r := range pick {
			if r >= lo && r <= latest {
				rounds = append(rounds, r)
			}
		}
	}
	for _, rnd := range rounds {
		loc := "memory"
		if rnd < db {
			loc = "history"
		} else if rnd == db {
			loc = "db-round"
		}
		for _, a := range s.u.keyed {
			got, err := l.LookupAgreement(rnd, a)
			want := m.onlineData(rnd, a)
			c.Eval(1)
			c.Count("c13.lookup_agreement."+loc, 1)
			if want.MicroAlgosWithRewards.Raw > 0 {
				c.Count("c13.online_answers", 1)
			}
			hist := len(m.accts[a].v)
			c.Distinct(fmt.Sprintf("%s|%d", loc, min(hist, 12)))
			if err != nil || got != want {
				c.Violation("lookup-agreement-differs", map[string]any{"round": rnd, "latest": latest, "dbRound": db, "window_low": lo, "addr": a.String(), "got": fmt.Sprintf("%+v", got), "want": fmt.Sprintf("%+v", want), "error": fmt.Sprint(err), "after": after, "config": s.cfg.String(), "trace": s.traceTail(25)})
			}
		}
		// circulation for several vote rounds incl. the key-expiry boundaries present at rnd
		voteRnds := map[basics.Round]bool{rnd: true, rnd + 1: true, rnd + basics.Round(p.MaxBalLookback): true}
		for _, a := range s.u.keyed {
			if d := m.acct(rnd, a); d.Status == basics.Online && d.VoteLastValid != 0 {
				voteRnds[d.VoteLastValid] = true
				voteRnds[d.VoteLastValid+1] = true
				if d.VoteLastValid > 0 {
					voteRnds[d.VoteLastValid-1] = true
				}
			}
		}
		for vr := range voteRnds {
			if vr < rnd {
				continue
			}
			got, err := l.OnlineCirculation(rnd, vr)
			want, expired := m.circulation(rnd, vr)
			c.Eval(1)
			c.Count("c13.circulation."+loc, 1)
			if expired.Sign() > 0 && p.ExcludeExpiredCirculation && rnd != 0 {
				c.Count("c13.circulation_with_expired_excluded", 1)
			}
			if err != nil || new(big.Int).SetUint64(got.Raw).Cmp(want) != 0 {
				c.Violation("online-circulation-differs", map[string]any{"round": rnd, "voteRnd": vr, "latest": latest, "dbRound": db, "got": got.Raw, "want": want.String(), "expired_stake": expired.String(), "error": fmt.Sprint(err), "after": after, "config": s.cfg.String(), "trace": s.traceTail(25)})
			}
		}
	}
}

func TestVerifC13(t *testing.T) {
	c := kit.Start(t, "C13", "online")
	defer c.Finish()
	c.Rule("HL histories rich in keyreg online/offline, short participation keys (expiry inside the run), closes of online accounts, suspensions, balance changes of online accounts and rewards-level changes, under PRNG schedules (forced commits, reloads, reopen, and histories in which a stalled committer makes ONE commit cover more than 500 rounds) and reduced balance-lookback protocols; after every block and schedule action LookupAgreement(rnd, addr) for every keyed account and OnlineCirculation(rnd, voteRnd) (voteRnd at the key-expiry boundaries ±1) are compared with the reference model for every round of the window [latest−MaxBalLookback, latest] (in memory, at the DB round, and in the online history tables); distinct = distinct (location of the round, length of the account's history) pairs")
	c.Assume("rounds older than latest−MaxBalLookback are outside what consensus asks for and are not judged")
	nh := c.N(4, 24)
	blocks := c.N(80, 220)
	for h := 0; h < nh && c.Violations() < 5; h++ {
		r := c.Rand(13, uint64(h))
		cfg := hlRandomConfig(r)
		cfg.Profile = "status"
		s := hlNewSim(t, c, r, cfg)
		s.onBlock = append(s.onBlock, func(vb *ledgercore.ValidatedBlock) {})
		for b := 0; b < blocks; b++ {
			s.step()
			c13Check(s, "block")
			act := s.scheduleAction()
			c.Count("schedule."+act, 1)
			if act != "none" && act != "wait-bq" {
				c13Check(s, act)
			}
		}
		for k, v := range s.stats {
			c.Count("gen."+k, v)
		}
		if h < 2 {
			c.Sample(map[string]any{"history": h, "config": cfg.String(), "blocks": blocks, "trace_tail": s.traceTail(6)})
		}
		s.close()
	}
	// big-flush histories: a single tracker commit of more than 500 rounds (stalled committer), with
	// online-account changes in every region of the range, then the same lookups.
	nbig := c.N(1, 3)
	for h := 0; h < nbig && c.Violations() < 5; h++ {
		r := c.Rand(1313, uint64(h))
		cfg := hlRandomConfig(r)
		cfg.Profile = "status"
		s := hlNewSim(t, c, r, cfg)
		for b := 0; b < 6; b++ {
			s.step()
		}
		c13Check(s, "block")
		s.bigFlush(840 + r.Intn(40))
		c13Check(s, "big-flush")
		for b := 0; b < 8; b++ {
			s.step()
			c13Check(s, "block-after-big-flush")
			if b == 3 {
				s.flush()
				c13Check(s, "flush-after-big-flush")
			}
		}
		s.reload()
		c13Check(s, "reload-after-big-flush")
		if h == 0 {
			c.Sample(map[string]any{"big_flush_history": h, "config": cfg.String(), "trace_tail": s.traceTail(14)})
		}
		s.close()
	}
	c.Require("bigflush.single_commit_over_500_rounds", 1)
	c.Require("c13.lookup_agreement.history", 100)
	c.Require("c13.lookup_agreement.db-round", 100)
	c.Require("c13.online_answers", 200)
	c.Require("c13.circulation_with_expired_excluded", 10)
	c.Require("schedule.reload", 2)
}
