package ledger

// C16: catchpoint catchup reproduces the source state and rejects tampering.
//
// (a) A PRNG history (apps with boxes and global/local state, assets, online accounts, closed
// accounts) runs on a real ledger that stores catchpoint files. A file written by the real writer
// is restored into a FRESH ledger through the real accessor in the order catchup/catchpointService.go
// uses (cpRestore). Oracle = the per-round reference model: every account / resource / creator /
// box / totals / online-account / circulation answer of the restored ledger, at every round from the
// catchpoint's balances round to its block round (and, for the online history, back to the lookback
// horizon the file carries), must equal the model; VerifyCatchpoint must accept the producer's
// label; the restored ledger must then accept the producer's next blocks and report the same next
// labels.
//
// (b) The file is mutated (one change per case, classes below). Oracle: a mutated file for which
// the whole restore succeeds, VerifyCatchpoint (producer's label, real chain block) succeeds AND
// the adopted state (full dump of the tracker database: accounts, resources, boxes, online-account
// history, online round params, state-proof verification data, totals, trie root) differs from the
// state adopted from the unmodified file is a violation, keyed by the mutation class. Mutations
// that are rejected, or that are accepted and lead to the identical state (fields the accessor
// documents as ignored, re-chunking, chunk order), are only counted: the property demands nothing
// about them. The box name|value boundary shift is the recorded known finding
// kv-preimage-boundary-shift.

import (
	"bytes"
	"context"
	"encoding/hex"
	"fmt"
	"math/big"
	"sort"
	"strings"
	"sync"
	"testing"

	"github.com/algorand/avm-abi/apps"
	"github.com/algorand/go-algorand/config"
	"github.com/algorand/go-algorand/crypto/merkletrie"
	"github.com/algorand/go-algorand/data/basics"
	"github.com/algorand/go-algorand/data/bookkeeping"
	"github.com/algorand/go-algorand/data/transactions"
	"github.com/algorand/go-algorand/data/txntest"
	"github.com/algorand/go-algorand/ledger/encoded"
	"github.com/algorand/go-algorand/ledger/ledgercore"
	"github.com/algorand/go-algorand/ledger/store/trackerdb"
	"github.com/algorand/go-algorand/protocol"
	"github.com/algorand/msgp/msgp"
	"verif.local/kit"
)

// ---- decoded catchpoint file ------------------------------------------------------------------

type c16Item struct {
	kind  string // "content", "sp", "chunk", "raw"
	chunk CatchpointSnapshotChunkV6
	raw   cpEntry
}

type c16Doc struct {
	hdr   CatchpointFileHeader
	sp    catchpointStateProofVerificationContext
	items []c16Item // tar order
}

func c16Decode(entries []cpEntry) (*c16Doc, error) {
	d := &c16Doc{}
	for _, e := range entries {
		switch {
		case e.Name == CatchpointContentFileName:
			if err := protocol.Decode(e.Data, &d.hdr); err != nil {
				return nil, err
			}
			d.items = append(d.items, c16Item{kind: "content"})
		case e.Name == catchpointSPVerificationFileName:
			if err := protocol.Decode(e.Data, &d.sp); err != nil {
				return nil, err
			}
			d.items = append(d.items, c16Item{kind: "sp"})
		case strings.HasPrefix(e.Name, catchpointBalancesFileNamePrefix):
			var ch CatchpointSnapshotChunkV6
			if err := protocol.Decode(e.Data, &ch); err != nil {
				return nil, err
			}
			d.items = append(d.items, c16Item{kind: "chunk", chunk: ch})
		default:
			d.items = append(d.items, c16Item{kind: "raw", raw: e})
		}
	}
	return d, nil
}

func (d *c16Doc) encode() []cpEntry {
	var out []cpEntry
	n := 0
	for _, it := range d.items {
		switch it.kind {
		case "content":
			out = append(out, cpEntry{CatchpointContentFileName, protocol.Encode(&d.hdr)})
		case "sp":
			out = append(out, cpEntry{catchpointSPVerificationFileName, protocol.Encode(&d.sp)})
		case "chunk":
			n++
			ch := it.chunk
			out = append(out, cpEntry{fmt.Sprintf(catchpointBalancesFileNameTemplate, n), protocol.Encode(&ch)})
		default:
			out = append(out, it.raw)
		}
	}
	return out
}

func (d *c16Doc) clone() *c16Doc {
	// deep copy through the encoding (the doc is small)
	c, err := c16Decode(d.encode())
	if err != nil {
		panic(err)
	}
	return c
}

type c16Ref struct{ item, idx int }

func (d *c16Doc) refs(kind string) []c16Ref {
	var out []c16Ref
	for i, it := range d.items {
		if it.kind != "chunk" {
			continue
		}
		n := 0
		switch kind {
		case "acct":
			n = len(it.chunk.Balances)
		case "kv":
			n = len(it.chunk.KVs)
		case "oa":
			n = len(it.chunk.OnlineAccounts)
		case "orp":
			n = len(it.chunk.OnlineRoundParams)
		}
		for j := 0; j < n; j++ {
			out = append(out, c16Ref{i, j})
		}
	}
	return out
}

type c16ResRef struct {
	c16Ref
	aidx uint64
	rd   trackerdb.ResourcesData
}

// resources lists the resources (sorted, so that the PRNG choice is reproducible) satisfying pred.
func (d *c16Doc) resources(pred func(rd *trackerdb.ResourcesData) bool) []c16ResRef {
	var out []c16ResRef
	for _, ref := range d.refs("acct") {
		b := d.items[ref.item].chunk.Balances[ref.idx]
		var ids []uint64
		for id := range b.Resources {
			ids = append(ids, id)
		}
		sort.Slice(ids, func(i, j int) bool { return ids[i] < ids[j] })
		for _, id := range ids {
			var rd trackerdb.ResourcesData
			if protocol.Decode(b.Resources[id], &rd) == nil && pred(&rd) {
				out = append(out, c16ResRef{ref, id, rd})
			}
		}
	}
	return out
}

func (d *c16Doc) setRes(r c16ResRef, rd trackerdb.ResourcesData) {
	d.items[r.item].chunk.Balances[r.idx].Resources[r.aidx] = protocol.Encode(&rd)
}

func (d *c16Doc) chunkItems() []int {
	var out []int
	for i, it := range d.items {
		if it.kind == "chunk" {
			out = append(out, i)
		}
	}
	return out
}

// split re-chunks the file the way a writer with smaller chunk limits would: every balances
// chunk with more than one record is cut in two; an account with several resources may be cut
// across chunks with ExpectingMoreEntries. A legitimate encoding of the same state.
func (d *c16Doc) split(r *kit.Rand) {
	var out []c16Item
	for _, it := range d.items {
		if it.kind != "chunk" {
			out = append(out, it)
			continue
		}
		ch := it.chunk
		switch {
		case len(ch.Balances) > 1:
			k := r.Range(1, len(ch.Balances)-1)
			a := CatchpointSnapshotChunkV6{Balances: append([]encoded.BalanceRecordV6{}, ch.Balances[:k]...)}
			b := CatchpointSnapshotChunkV6{Balances: append([]encoded.BalanceRecordV6{}, ch.Balances[k:]...)}
			// cut the first account of the second half across the chunks if it has >= 2 resources
			if first := b.Balances[0]; len(first.Resources) >= 2 && !first.ExpectingMoreEntries {
				var ids []uint64
				for id := range first.Resources {
					ids = append(ids, id)
				}
				sort.Slice(ids, func(i, j int) bool { return ids[i] < ids[j] })
				cut := r.Range(1, len(ids)-1)
				p1 := encoded.BalanceRecordV6{Address: first.Address, AccountData: first.AccountData, Resources: map[uint64]msgp.Raw{}, ExpectingMoreEntries: true}
				p2 := encoded.BalanceRecordV6{Address: first.Address, AccountData: first.AccountData, Resources: map[uint64]msgp.Raw{}}
				for i, id := range ids {
					if i < cut {
						p1.Resources[id] = first.Resources[id]
					} else {
						p2.Resources[id] = first.Resources[id]
					}
				}
				a.Balances = append(a.Balances, p1)
				b.Balances[0] = p2
			}
			out = append(out, c16Item{kind: "chunk", chunk: a}, c16Item{kind: "chunk", chunk: b})
		case len(ch.KVs) > 1:
			k := r.Range(1, len(ch.KVs)-1)
			out = append(out, c16Item{kind: "chunk", chunk: CatchpointSnapshotChunkV6{KVs: append([]encoded.KVRecordV6{}, ch.KVs[:k]...)}},
				c16Item{kind: "chunk", chunk: CatchpointSnapshotChunkV6{KVs: append([]encoded.KVRecordV6{}, ch.KVs[k:]...)}})
		case len(ch.OnlineAccounts) > 1:
			k := r.Range(1, len(ch.OnlineAccounts)-1)
			out = append(out, c16Item{kind: "chunk", chunk: CatchpointSnapshotChunkV6{OnlineAccounts: append([]encoded.OnlineAccountRecordV6{}, ch.OnlineAccounts[:k]...)}},
				c16Item{kind: "chunk", chunk: CatchpointSnapshotChunkV6{OnlineAccounts: append([]encoded.OnlineAccountRecordV6{}, ch.OnlineAccounts[k:]...)}})
		case len(ch.OnlineRoundParams) > 1:
			k := r.Range(1, len(ch.OnlineRoundParams)-1)
			out = append(out, c16Item{kind: "chunk", chunk: CatchpointSnapshotChunkV6{OnlineRoundParams: append([]encoded.OnlineRoundParamsRecordV6{}, ch.OnlineRoundParams[:k]...)}},
				c16Item{kind: "chunk", chunk: CatchpointSnapshotChunkV6{OnlineRoundParams: append([]encoded.OnlineRoundParamsRecordV6{}, ch.OnlineRoundParams[k:]...)}})
		default:
			out = append(out, it)
		}
	}
	d.items = out
}

// ---- mutations ------------------------------------------------------------------------------------

// A mutation edits the decoded file (and may post-process the tar stream). It returns a
// description for the witness, the record kind it touched (for the evidence), and ok=false when the
// file offers no target for it.
type c16Mut struct {
	class string
	apply func(d *c16Doc, r *kit.Rand) (desc, kind string, ok bool)
	// stream, when set, post-processes the serialised tar stream
	stream func(tarBytes []byte, r *kit.Rand) ([]byte, string)
	// presplit: apply a benign re-chunking first (so that there are several chunks of a kind)
	presplit bool
}

func c16FlipByte(b []byte, r *kit.Rand) ([]byte, int) {
	out := append([]byte{}, b...)
	i := r.Intn(len(out))
	out[i] ^= 1 << uint(r.Intn(8))
	return out, i
}

func c16EditAcct(d *c16Doc, r *kit.Rand, pred func(*trackerdb.BaseAccountData) bool, edit func(*trackerdb.BaseAccountData)) (string, bool) {
	var cands []c16Ref
	for _, ref := range d.refs("acct") {
		var bad trackerdb.BaseAccountData
		b := d.items[ref.item].chunk.Balances[ref.idx]
		if protocol.Decode(b.AccountData, &bad) == nil && pred(&bad) {
			cands = append(cands, ref)
		}
	}
	if len(cands) == 0 {
		return "", false
	}
	ref := cands[r.Intn(len(cands))]
	b := &d.items[ref.item].chunk.Balances[ref.idx]
	var bad trackerdb.BaseAccountData
	protocol.Decode(b.AccountData, &bad)
	before := fmt.Sprintf("%+v", bad)
	edit(&bad)
	raw := protocol.Encode(&bad)
	// every partial record of the same account carries the account data
	for _, o := range d.refs("acct") {
		ob := &d.items[o.item].chunk.Balances[o.idx]
		if ob.Address == b.Address {
			ob.AccountData = raw
		}
	}
	return fmt.Sprintf("account %s: %s -> %+v", b.Address, before, bad), true
}

func c16EditTKV(kv basics.TealKeyValue, r *kit.Rand) (basics.TealKeyValue, string) {
	var keys []string
	for k := range kv {
		keys = append(keys, k)
	}
	sort.Strings(keys)
	k := keys[r.Intn(len(keys))]
	out := kv.Clone()
	v := out[k]
	if v.Type == basics.TealUintType {
		v.Uint++
	} else if len(v.Bytes) > 0 {
		nb, _ := c16FlipByte([]byte(v.Bytes), r)
		v.Bytes = string(nb)
	} else {
		v.Bytes = "x"
	}
	out[k] = v
	return out, k
}

func c16Mutations(alt *c16Doc) []c16Mut {
	any := func(*trackerdb.BaseAccountData) bool { return true }
	acct := func(class string, pred func(*trackerdb.BaseAccountData) bool, edit func(*trackerdb.BaseAccountData)) c16Mut {
		return c16Mut{class: class, apply: func(d *c16Doc, r *kit.Rand) (string, string, bool) {
			desc, ok := c16EditAcct(d, r, pred, edit)
			return desc, "account", ok
		}}
	}
	res := func(class, kind string, pred func(*trackerdb.ResourcesData) bool, edit func(*trackerdb.ResourcesData, *kit.Rand) string) c16Mut {
		return c16Mut{class: class, apply: func(d *c16Doc, r *kit.Rand) (string, string, bool) {
			c := d.resources(pred)
			if len(c) == 0 {
				return "", kind, false
			}
			t := c[r.Intn(len(c))]
			rd := t.rd
			what := edit(&rd, r)
			d.setRes(t, rd)
			return fmt.Sprintf("resource %d of %s: %s", t.aidx, d.items[t.item].chunk.Balances[t.idx].Address, what), kind, true
		}}
	}
	isHolding := func(rd *trackerdb.ResourcesData) bool { return rd.IsAsset() && rd.IsHolding() }
	isAssetParams := func(rd *trackerdb.ResourcesData) bool { return rd.IsAsset() && rd.IsOwning() }
	hasGlobal := func(rd *trackerdb.ResourcesData) bool { return rd.IsApp() && rd.IsOwning() && len(rd.GlobalState) > 0 }
	hasLocal := func(rd *trackerdb.ResourcesData) bool { return rd.IsApp() && rd.IsHolding() && len(rd.KeyValue) > 0 }
	isAppParams := func(rd *trackerdb.ResourcesData) bool { return rd.IsApp() && rd.IsOwning() }
	pickKV := func(d *c16Doc, r *kit.Rand, pred func(kv encoded.KVRecordV6) bool) (*encoded.KVRecordV6, bool) {
		var c []c16Ref
		for _, ref := range d.refs("kv") {
			if pred(d.items[ref.item].chunk.KVs[ref.idx]) {
				c = append(c, ref)
			}
		}
		if len(c) == 0 {
			return nil, false
		}
		ref := c[r.Intn(len(c))]
		return &d.items[ref.item].chunk.KVs[ref.idx], true
	}
	const boxPrefix = 3 + 8 // "bx:" + app id
	pickRef := func(d *c16Doc, r *kit.Rand, kind string) (c16Ref, bool) {
		c := d.refs(kind)
		if len(c) == 0 {
			return c16Ref{}, false
		}
		return c[r.Intn(len(c))], true
	}
	drop := func(kind string) c16Mut {
		return c16Mut{class: "drop-" + kind, apply: func(d *c16Doc, r *kit.Rand) (string, string, bool) {
			ref, ok := pickRef(d, r, kind)
			if !ok {
				return "", kind, false
			}
			ch := &d.items[ref.item].chunk
			switch kind {
			case "acct":
				ch.Balances = append(append([]encoded.BalanceRecordV6{}, ch.Balances[:ref.idx]...), ch.Balances[ref.idx+1:]...)
			case "kv":
				ch.KVs = append(append([]encoded.KVRecordV6{}, ch.KVs[:ref.idx]...), ch.KVs[ref.idx+1:]...)
			case "oa":
				ch.OnlineAccounts = append(append([]encoded.OnlineAccountRecordV6{}, ch.OnlineAccounts[:ref.idx]...), ch.OnlineAccounts[ref.idx+1:]...)
			case "orp":
				ch.OnlineRoundParams = append(append([]encoded.OnlineRoundParamsRecordV6{}, ch.OnlineRoundParams[:ref.idx]...), ch.OnlineRoundParams[ref.idx+1:]...)
			}
			if ch.empty() { // a chunk emptied by the drop disappears from the file
				d.items = append(d.items[:ref.item:ref.item], d.items[ref.item+1:]...)
			}
			return fmt.Sprintf("record %d of item %d dropped", ref.idx, ref.item), kind, true
		}}
	}
	// dupOrMove copies (or moves) a record into the same or another chunk
	dupOrMove := func(kind string, move, other bool) c16Mut {
		class := "dup-" + kind
		if move {
			class = "move-" + kind
		}
		if other {
			class += "-other-chunk"
		}
		return c16Mut{class: class, presplit: true, apply: func(d *c16Doc, r *kit.Rand) (string, string, bool) {
			ref, ok := pickRef(d, r, kind)
			if !ok {
				return "", kind, false
			}
			dst := ref.item
			if other {
				var c []int
				for _, i := range d.chunkItems() {
					if i != ref.item {
						c = append(c, i)
					}
				}
				if len(c) == 0 {
					return "", kind, false
				}
				dst = c[r.Intn(len(c))]
			}
			src := &d.items[ref.item].chunk
			to := &d.items[dst].chunk
			switch kind {
			case "acct":
				rec := src.Balances[ref.idx]
				if move {
					// (moving one part of an account that is cut across chunks breaks adjacency: rejected, also fine)
					src.Balances = append(append([]encoded.BalanceRecordV6{}, src.Balances[:ref.idx]...), src.Balances[ref.idx+1:]...)
				}
				to.Balances = append(to.Balances, rec)
			case "kv":
				rec := src.KVs[ref.idx]
				if move {
					src.KVs = append(append([]encoded.KVRecordV6{}, src.KVs[:ref.idx]...), src.KVs[ref.idx+1:]...)
				}
				to.KVs = append(to.KVs, rec)
			case "oa":
				rec := src.OnlineAccounts[ref.idx]
				if move {
					src.OnlineAccounts = append(append([]encoded.OnlineAccountRecordV6{}, src.OnlineAccounts[:ref.idx]...), src.OnlineAccounts[ref.idx+1:]...)
				}
				to.OnlineAccounts = append(to.OnlineAccounts, rec)
			case "orp":
				rec := src.OnlineRoundParams[ref.idx]
				if move {
					src.OnlineRoundParams = append(append([]encoded.OnlineRoundParamsRecordV6{}, src.OnlineRoundParams[:ref.idx]...), src.OnlineRoundParams[ref.idx+1:]...)
				}
				to.OnlineRoundParams = append(to.OnlineRoundParams, rec)
			}
			if move && src.empty() {
				d.items = append(d.items[:ref.item:ref.item], d.items[ref.item+1:]...)
			}
			return fmt.Sprintf("record %d of item %d -> item %d (move=%v)", ref.idx, ref.item, dst, move), kind, true
		}}
	}
	hdr := func(class string, edit func(h *CatchpointFileHeader, r *kit.Rand) string) c16Mut {
		return c16Mut{class: class, apply: func(d *c16Doc, r *kit.Rand) (string, string, bool) {
			return edit(&d.hdr, r), "header", true
		}}
	}
	editOA := func(class string, edit func(rec *encoded.OnlineAccountRecordV6, data *trackerdb.BaseOnlineAccountData, r *kit.Rand) string) c16Mut {
		return c16Mut{class: class, apply: func(d *c16Doc, r *kit.Rand) (string, string, bool) {
			ref, ok := pickRef(d, r, "oa")
			if !ok {
				return "", "online-account", false
			}
			rec := &d.items[ref.item].chunk.OnlineAccounts[ref.idx]
			var data trackerdb.BaseOnlineAccountData
			if err := protocol.Decode(rec.Data, &data); err != nil {
				return "", "online-account", false
			}
			what := edit(rec, &data, r)
			rec.Data = protocol.Encode(&data)
			return fmt.Sprintf("online account row %s@%d: %s", rec.Address, rec.UpdateRound, what), "online-account", true
		}}
	}
	editORP := func(class string, edit func(rec *encoded.OnlineRoundParamsRecordV6, data *ledgercore.OnlineRoundParamsData, r *kit.Rand) string) c16Mut {
		return c16Mut{class: class, apply: func(d *c16Doc, r *kit.Rand) (string, string, bool) {
			ref, ok := pickRef(d, r, "orp")
			if !ok {
				return "", "round-params", false
			}
			rec := &d.items[ref.item].chunk.OnlineRoundParams[ref.idx]
			var data ledgercore.OnlineRoundParamsData
			if err := protocol.Decode(rec.Data, &data); err != nil {
				return "", "round-params", false
			}
			what := edit(rec, &data, r)
			rec.Data = protocol.Encode(&data)
			return fmt.Sprintf("round params row %d: %s", rec.Round, what), "round-params", true
		}}
	}
	itemIndex := func(d *c16Doc, kind string) int {
		for i, it := range d.items {
			if it.kind == kind {
				return i
			}
		}
		return -1
	}

	return []c16Mut{
		// --- account records
		acct("acct-balance-plus1", any, func(b *trackerdb.BaseAccountData) { b.MicroAlgos.Raw++ }),
		acct("acct-balance-minus1", func(b *trackerdb.BaseAccountData) bool { return b.MicroAlgos.Raw > 0 }, func(b *trackerdb.BaseAccountData) { b.MicroAlgos.Raw-- }),
		acct("acct-status-flip", func(b *trackerdb.BaseAccountData) bool { return b.Status != basics.NotParticipating }, func(b *trackerdb.BaseAccountData) {
			if b.Status == basics.Online {
				b.Status = basics.Offline
			} else {
				b.Status = basics.Online
			}
		}),
		acct("acct-rewardsbase", any, func(b *trackerdb.BaseAccountData) { b.RewardsBase++ }),
		acct("acct-authaddr", any, func(b *trackerdb.BaseAccountData) { b.AuthAddr[3] ^= 1 }),
		acct("acct-update-round", any, func(b *trackerdb.BaseAccountData) { b.UpdateRound++ }),
		acct("acct-vote-last-valid", func(b *trackerdb.BaseAccountData) bool { return b.Status == basics.Online }, func(b *trackerdb.BaseAccountData) { b.VoteLastValid += 1000 }),
		acct("acct-box-totals", func(b *trackerdb.BaseAccountData) bool { return b.TotalBoxes > 0 }, func(b *trackerdb.BaseAccountData) { b.TotalBoxBytes++ }),
		acct("acct-incentive-eligible", any, func(b *trackerdb.BaseAccountData) { b.IncentiveEligible = !b.IncentiveEligible }),
		{class: "acct-address-byte", apply: func(d *c16Doc, r *kit.Rand) (string, string, bool) {
			ref, ok := pickRef(d, r, "acct")
			if !ok {
				return "", "account", false
			}
			b := &d.items[ref.item].chunk.Balances[ref.idx]
			old := b.Address
			b.Address[r.Intn(32)] ^= 1 << uint(r.Intn(8))
			return fmt.Sprintf("address %s -> %s", old, b.Address), "account", true
		}},
		{class: "acct-expecting-more-flag", apply: func(d *c16Doc, r *kit.Rand) (string, string, bool) {
			ref, ok := pickRef(d, r, "acct")
			if !ok {
				return "", "account", false
			}
			b := &d.items[ref.item].chunk.Balances[ref.idx]
			b.ExpectingMoreEntries = !b.ExpectingMoreEntries
			return fmt.Sprintf("ExpectingMoreEntries of %s -> %v", b.Address, b.ExpectingMoreEntries), "account", true
		}},
		// --- partial records of an account cut across chunks (ExpectingMoreEntries = true)
		{class: "partial-record-account-data", presplit: true, apply: func(d *c16Doc, r *kit.Rand) (string, string, bool) {
			find := func() []c16Ref {
				var c []c16Ref
				for _, ref := range d.refs("acct") {
					if d.items[ref.item].chunk.Balances[ref.idx].ExpectingMoreEntries {
						c = append(c, ref)
					}
				}
				return c
			}
			cands := find()
			for tries := 0; len(cands) == 0 && tries < 3; tries++ {
				d.split(r)
				cands = find()
			}
			if len(cands) == 0 {
				return "", "account", false
			}
			ref := cands[r.Intn(len(cands))]
			b := &d.items[ref.item].chunk.Balances[ref.idx]
			var bad trackerdb.BaseAccountData
			if protocol.Decode(b.AccountData, &bad) != nil {
				return "", "account", false
			}
			bad.MicroAlgos.Raw += 1_000_000
			b.AccountData = protocol.Encode(&bad)
			return fmt.Sprintf("account data of the NON-FINAL partial record (ExpectingMoreEntries) of %s changed (+1 Algo); the final record keeps the genuine data", b.Address), "account", true
		}},
		{class: "prepended-partial-record", apply: func(d *c16Doc, r *kit.Rand) (string, string, bool) {
			var cands []c16Ref
			for _, ref := range d.refs("acct") {
				bs := d.items[ref.item].chunk.Balances
				if !bs[ref.idx].ExpectingMoreEntries && (ref.idx == 0 || bs[ref.idx-1].Address != bs[ref.idx].Address) && ref.idx > 0 {
					cands = append(cands, ref)
				}
			}
			if len(cands) == 0 {
				return "", "account", false
			}
			ref := cands[r.Intn(len(cands))]
			ch := &d.items[ref.item].chunk
			orig := ch.Balances[ref.idx]
			var bad trackerdb.BaseAccountData
			if protocol.Decode(orig.AccountData, &bad) != nil {
				return "", "account", false
			}
			bad.MicroAlgos.Raw += 1_000_000
			extra := encoded.BalanceRecordV6{Address: orig.Address, AccountData: protocol.Encode(&bad), ExpectingMoreEntries: true}
			nb := append([]encoded.BalanceRecordV6{}, ch.Balances[:ref.idx]...)
			nb = append(nb, extra)
			nb = append(nb, ch.Balances[ref.idx:]...)
			ch.Balances = nb
			return fmt.Sprintf("a resource-less record with ExpectingMoreEntries=true and altered account data (+1 Algo) inserted in front of the genuine record of %s", orig.Address), "account", true
		}},
		// --- resources
		res("asset-amount", "asset-holding", isHolding, func(rd *trackerdb.ResourcesData, r *kit.Rand) string {
			if rd.Amount > 0 && r.Bool() {
				rd.Amount--
			} else {
				rd.Amount++
			}
			return fmt.Sprintf("Amount -> %d", rd.Amount)
		}),
		res("asset-frozen-bit", "asset-holding", isHolding, func(rd *trackerdb.ResourcesData, r *kit.Rand) string {
			rd.Frozen = !rd.Frozen
			return fmt.Sprintf("Frozen -> %v", rd.Frozen)
		}),
		res("asset-params-total", "asset-params", isAssetParams, func(rd *trackerdb.ResourcesData, r *kit.Rand) string {
			rd.Total++
			return "Total+1"
		}),
		res("asset-params-clawback", "asset-params", isAssetParams, func(rd *trackerdb.ResourcesData, r *kit.Rand) string {
			rd.Clawback[0] ^= 1
			return "Clawback byte"
		}),
		res("app-global-value", "app-params", hasGlobal, func(rd *trackerdb.ResourcesData, r *kit.Rand) string {
			var k string
			rd.GlobalState, k = c16EditTKV(rd.GlobalState, r)
			return fmt.Sprintf("global key %q changed", k)
		}),
		res("app-local-value", "app-local", hasLocal, func(rd *trackerdb.ResourcesData, r *kit.Rand) string {
			var k string
			rd.KeyValue, k = c16EditTKV(rd.KeyValue, r)
			return fmt.Sprintf("local key %q changed", k)
		}),
		res("app-program-byte", "app-params", isAppParams, func(rd *trackerdb.ResourcesData, r *kit.Rand) string {
			var i int
			rd.ApprovalProgram, i = c16FlipByte(rd.ApprovalProgram, r)
			return fmt.Sprintf("approval program byte %d", i)
		}),
		res("res-update-round", "resource", func(*trackerdb.ResourcesData) bool { return true }, func(rd *trackerdb.ResourcesData, r *kit.Rand) string {
			rd.UpdateRound++
			return "UpdateRound+1"
		}),
		{class: "res-index", apply: func(d *c16Doc, r *kit.Rand) (string, string, bool) {
			c := d.resources(func(*trackerdb.ResourcesData) bool { return true })
			if len(c) == 0 {
				return "", "resource", false
			}
			t := c[r.Intn(len(c))]
			m := d.items[t.item].chunk.Balances[t.idx].Resources
			raw := m[t.aidx]
			delete(m, t.aidx)
			m[t.aidx+1000] = raw
			return fmt.Sprintf("resource %d renumbered %d", t.aidx, t.aidx+1000), "resource", true
		}},
		{class: "res-to-other-account", apply: func(d *c16Doc, r *kit.Rand) (string, string, bool) {
			c := d.resources(func(*trackerdb.ResourcesData) bool { return true })
			accts := d.refs("acct")
			if len(c) == 0 || len(accts) < 2 {
				return "", "resource", false
			}
			t := c[r.Intn(len(c))]
			from := &d.items[t.item].chunk.Balances[t.idx]
			for tries := 0; tries < 20; tries++ {
				o := accts[r.Intn(len(accts))]
				to := &d.items[o.item].chunk.Balances[o.idx]
				if to.Address == from.Address {
					continue
				}
				if _, has := to.Resources[t.aidx]; has {
					continue
				}
				if to.Resources == nil {
					to.Resources = map[uint64]msgp.Raw{}
				}
				to.Resources[t.aidx] = from.Resources[t.aidx]
				delete(from.Resources, t.aidx)
				return fmt.Sprintf("resource %d moved from %s to %s", t.aidx, from.Address, to.Address), "resource", true
			}
			return "", "resource", false
		}},
		{class: "drop-resource", apply: func(d *c16Doc, r *kit.Rand) (string, string, bool) {
			c := d.resources(func(*trackerdb.ResourcesData) bool { return true })
			if len(c) == 0 {
				return "", "resource", false
			}
			t := c[r.Intn(len(c))]
			delete(d.items[t.item].chunk.Balances[t.idx].Resources, t.aidx)
			return fmt.Sprintf("resource %d dropped", t.aidx), "resource", true
		}},
		// --- boxes
		{class: "kv-value-byte", apply: func(d *c16Doc, r *kit.Rand) (string, string, bool) {
			kv, ok := pickKV(d, r, func(kv encoded.KVRecordV6) bool { return len(kv.Value) > 0 })
			if !ok {
				return "", "box", false
			}
			var i int
			kv.Value, i = c16FlipByte(kv.Value, r)
			return fmt.Sprintf("box %x value byte %d", kv.Key, i), "box", true
		}},
		{class: "kv-value-length", apply: func(d *c16Doc, r *kit.Rand) (string, string, bool) {
			kv, ok := pickKV(d, r, func(kv encoded.KVRecordV6) bool { return true })
			if !ok {
				return "", "box", false
			}
			if len(kv.Value) > 0 && r.Bool() {
				kv.Value = kv.Value[:len(kv.Value)-1]
			} else {
				kv.Value = append(append([]byte{}, kv.Value...), 0)
			}
			return fmt.Sprintf("box %x value length -> %d", kv.Key, len(kv.Value)), "box", true
		}},
		{class: "kv-name-byte", apply: func(d *c16Doc, r *kit.Rand) (string, string, bool) {
			kv, ok := pickKV(d, r, func(kv encoded.KVRecordV6) bool { return len(kv.Key) > boxPrefix })
			if !ok {
				return "", "box", false
			}
			old := append([]byte{}, kv.Key...)
			nk := append([]byte{}, kv.Key...)
			nk[boxPrefix+r.Intn(len(nk)-boxPrefix)] ^= 1 << uint(r.Intn(8))
			kv.Key = nk
			return fmt.Sprintf("box %x -> %x", old, nk), "box", true
		}},
		{class: "kv-app-id-byte", apply: func(d *c16Doc, r *kit.Rand) (string, string, bool) {
			kv, ok := pickKV(d, r, func(kv encoded.KVRecordV6) bool { return len(kv.Key) >= boxPrefix })
			if !ok {
				return "", "box", false
			}
			old := append([]byte{}, kv.Key...)
			nk := append([]byte{}, kv.Key...)
			nk[3+r.Intn(8)] ^= 1 << uint(r.Intn(8))
			kv.Key = nk
			return fmt.Sprintf("box %x -> %x", old, nk), "box", true
		}},
		{class: "kv-preimage-boundary-shift", apply: func(d *c16Doc, r *kit.Rand) (string, string, bool) {
			// name -> value: the last k bytes of the name become the first bytes of the value;
			// value -> name: the first k bytes of the value are appended to the name.
			// The owning account's TotalBoxes/TotalBoxBytes stay correct in both directions.
			toValue := r.Bool()
			kv, ok := pickKV(d, r, func(kv encoded.KVRecordV6) bool {
				if toValue {
					return len(kv.Key) > boxPrefix+1
				}
				return len(kv.Value) > 0 && len(kv.Key) >= boxPrefix
			})
			if !ok {
				toValue = !toValue
				kv, ok = pickKV(d, r, func(kv encoded.KVRecordV6) bool {
					if toValue {
						return len(kv.Key) > boxPrefix+1
					}
					return len(kv.Value) > 0 && len(kv.Key) >= boxPrefix
				})
				if !ok {
					return "", "box", false
				}
			}
			oldK, oldV := append([]byte{}, kv.Key...), append([]byte{}, kv.Value...)
			if toValue {
				k := r.Range(1, len(oldK)-boxPrefix-1)
				kv.Key = append([]byte{}, oldK[:len(oldK)-k]...)
				kv.Value = append(append([]byte{}, oldK[len(oldK)-k:]...), oldV...)
			} else {
				k := r.Range(1, len(oldV))
				kv.Key = append(append([]byte{}, oldK...), oldV[:k]...)
				kv.Value = append([]byte{}, oldV[k:]...)
			}
			return fmt.Sprintf("box (%x | %x) -> (%x | %x)", oldK, oldV, kv.Key, kv.Value), "box", true
		}},
		// --- dropped / duplicated / moved records
		drop("acct"), drop("kv"), drop("oa"), drop("orp"),
		dupOrMove("acct", false, false), dupOrMove("acct", false, true), dupOrMove("kv", false, false), dupOrMove("kv", false, true),
		dupOrMove("oa", false, false), dupOrMove("oa", false, true), dupOrMove("orp", false, false), dupOrMove("orp", false, true),
		dupOrMove("acct", true, true), dupOrMove("kv", true, true), dupOrMove("oa", true, true), dupOrMove("orp", true, true),
		{class: "add-account", apply: func(d *c16Doc, r *kit.Rand) (string, string, bool) {
			items := d.chunkItems()
			if len(items) == 0 {
				return "", "account", false
			}
			var a basics.Address
			r.Fill(a[:])
			bad := trackerdb.BaseAccountData{}
			if r.Bool() {
				bad.MicroAlgos.Raw = 1
			}
			ch := &d.items[items[r.Intn(len(items))]].chunk
			ch.Balances = append(ch.Balances, encoded.BalanceRecordV6{Address: a, AccountData: protocol.Encode(&bad)})
			return fmt.Sprintf("account %s with %d microalgos added", a, bad.MicroAlgos.Raw), "account", true
		}},
		{class: "add-kv", apply: func(d *c16Doc, r *kit.Rand) (string, string, bool) {
			items := d.chunkItems()
			if len(items) == 0 {
				return "", "box", false
			}
			ch := &d.items[items[r.Intn(len(items))]].chunk
			key := append([]byte("bx:"), r.Bytes(8+r.Range(1, 8))...)
			ch.KVs = append(ch.KVs, encoded.KVRecordV6{Key: key, Value: r.Bytes(r.Intn(9))})
			return fmt.Sprintf("box %x added", key), "box", true
		}},
		// --- header
		hdr("header-totals", func(h *CatchpointFileHeader, r *kit.Rand) string {
			f := []*uint64{&h.Totals.Online.Money.Raw, &h.Totals.Online.RewardUnits, &h.Totals.Offline.Money.Raw, &h.Totals.Offline.RewardUnits, &h.Totals.NotParticipating.Money.Raw, &h.Totals.NotParticipating.RewardUnits, &h.Totals.RewardsLevel}
			i := r.Intn(len(f))
			if *f[i] > 0 && r.Bool() {
				*f[i]--
			} else {
				*f[i]++
			}
			return fmt.Sprintf("totals field %d changed by one", i)
		}),
		hdr("header-totals-shift-between-classes", func(h *CatchpointFileHeader, r *kit.Rand) string {
			h.Totals.Online.Money.Raw--
			h.Totals.Offline.Money.Raw++
			return "one microalgo moved from online to offline totals"
		}),
		hdr("header-blocks-round", func(h *CatchpointFileHeader, r *kit.Rand) string {
			old := h.BlocksRound
			h.BlocksRound = basics.Round(int64(h.BlocksRound) + []int64{-1, 1, -4, 4, -8, 8}[r.Intn(6)])
			return fmt.Sprintf("BlocksRound %d -> %d", old, h.BlocksRound)
		}),
		hdr("header-balances-round", func(h *CatchpointFileHeader, r *kit.Rand) string {
			old := h.BalancesRound
			h.BalancesRound = basics.Round(int64(h.BalancesRound) + []int64{-1, 1, 4}[r.Intn(3)])
			return fmt.Sprintf("BalancesRound %d -> %d (a field the accessor documents as not trusted)", old, h.BalancesRound)
		}),
		hdr("header-block-digest", func(h *CatchpointFileHeader, r *kit.Rand) string {
			h.BlockHeaderDigest[r.Intn(32)] ^= 1
			return "BlockHeaderDigest byte (a field the accessor documents as ignored)"
		}),
		hdr("header-label-field", func(h *CatchpointFileHeader, r *kit.Rand) string {
			h.Catchpoint = fmt.Sprintf("%d#%s", h.BlocksRound, strings.Repeat("A", 52))
			return "Catchpoint label field of the header replaced (ignored: the requested label is what counts)"
		}),
		hdr("header-counts", func(h *CatchpointFileHeader, r *kit.Rand) string {
			f := []*uint64{&h.TotalAccounts, &h.TotalChunks, &h.TotalKVs, &h.TotalOnlineAccounts, &h.TotalOnlineRoundParams}
			i := r.Intn(len(f))
			if *f[i] > 0 && r.Bool() {
				*f[i]--
			} else {
				*f[i] += uint64(r.Range(1, 3))
			}
			return fmt.Sprintf("count field %d changed (progress information)", i)
		}),
		hdr("header-version", func(h *CatchpointFileHeader, r *kit.Rand) string {
			old := h.Version
			c := []uint64{CatchpointFileVersionV5, CatchpointFileVersionV6, CatchpointFileVersionV7, CatchpointFileVersionV8, 0, CatchpointFileVersionV8 + 1}
			for h.Version == old {
				h.Version = c[r.Intn(len(c))]
			}
			return fmt.Sprintf("Version %o -> %o", old, h.Version)
		}),
		// --- chunk order and sections
		{class: "chunk-order-swap", presplit: true, apply: func(d *c16Doc, r *kit.Rand) (string, string, bool) {
			items := d.chunkItems()
			if len(items) < 2 {
				return "", "chunk", false
			}
			i := r.Intn(len(items))
			j := r.Intn(len(items) - 1)
			if j >= i {
				j++
			}
			a, b := items[i], items[j]
			d.items[a], d.items[b] = d.items[b], d.items[a]
			return fmt.Sprintf("balances chunks at positions %d and %d swapped", a, b), "chunk", true
		}},
		{class: "chunk-order-reverse", presplit: true, apply: func(d *c16Doc, r *kit.Rand) (string, string, bool) {
			items := d.chunkItems()
			if len(items) < 2 {
				return "", "chunk", false
			}
			for i, j := 0, len(items)-1; i < j; i, j = i+1, j-1 {
				d.items[items[i]], d.items[items[j]] = d.items[items[j]], d.items[items[i]]
			}
			return "balances chunks reversed", "chunk", true
		}},
		{class: "content-not-first", apply: func(d *c16Doc, r *kit.Rand) (string, string, bool) {
			i := itemIndex(d, "content")
			if i < 0 || len(d.items) < 2 {
				return "", "header", false
			}
			it := d.items[i]
			d.items = append(d.items[:i:i], d.items[i+1:]...)
			pos := r.Range(1, len(d.items))
			d.items = append(d.items[:pos:pos], append([]c16Item{it}, d.items[pos:]...)...)
			return fmt.Sprintf("content.msgpack moved to position %d", pos), "header", true
		}},
		{class: "content-twice", apply: func(d *c16Doc, r *kit.Rand) (string, string, bool) {
			d.items = append(d.items, c16Item{kind: "content"})
			return "second content.msgpack appended", "header", true
		}},
		{class: "sp-section-last", apply: func(d *c16Doc, r *kit.Rand) (string, string, bool) {
			i := itemIndex(d, "sp")
			if i < 0 {
				return "", "stateproof-data", false
			}
			it := d.items[i]
			d.items = append(d.items[:i:i], d.items[i+1:]...)
			d.items = append(d.items, it)
			return "state proof verification section moved to the end", "stateproof-data", true
		}},
		{class: "sp-section-dropped", apply: func(d *c16Doc, r *kit.Rand) (string, string, bool) {
			i := itemIndex(d, "sp")
			if i < 0 || len(d.sp.Data) == 0 {
				return "", "stateproof-data", false
			}
			d.items = append(d.items[:i:i], d.items[i+1:]...)
			return "state proof verification section dropped", "stateproof-data", true
		}},
		{class: "sp-context-field", apply: func(d *c16Doc, r *kit.Rand) (string, string, bool) {
			if itemIndex(d, "sp") < 0 || len(d.sp.Data) == 0 {
				return "", "stateproof-data", false
			}
			i := r.Intn(len(d.sp.Data))
			ctx := &d.sp.Data[i]
			switch r.Intn(4) {
			case 0:
				ctx.OnlineTotalWeight.Raw++
				return fmt.Sprintf("context %d OnlineTotalWeight+1", i), "stateproof-data", true
			case 1:
				ctx.LastAttestedRound++
				return fmt.Sprintf("context %d LastAttestedRound+1", i), "stateproof-data", true
			case 2:
				if len(ctx.VotersCommitment) == 0 {
					ctx.VotersCommitment = []byte{1}
				} else {
					ctx.VotersCommitment, _ = c16FlipByte(ctx.VotersCommitment, r)
				}
				return fmt.Sprintf("context %d VotersCommitment byte", i), "stateproof-data", true
			default:
				ctx.Version = protocol.ConsensusVersion(string(ctx.Version) + "x")
				return fmt.Sprintf("context %d Version", i), "stateproof-data", true
			}
		}},
		{class: "sp-context-dropped", apply: func(d *c16Doc, r *kit.Rand) (string, string, bool) {
			if itemIndex(d, "sp") < 0 || len(d.sp.Data) == 0 {
				return "", "stateproof-data", false
			}
			i := r.Intn(len(d.sp.Data))
			d.sp.Data = append(append([]ledgercore.StateProofVerificationContext{}, d.sp.Data[:i]...), d.sp.Data[i+1:]...)
			return fmt.Sprintf("context %d dropped", i), "stateproof-data", true
		}},
		{class: "sp-context-added", apply: func(d *c16Doc, r *kit.Rand) (string, string, bool) {
			if itemIndex(d, "sp") < 0 {
				return "", "stateproof-data", false
			}
			d.sp.Data = append(d.sp.Data, ledgercore.StateProofVerificationContext{LastAttestedRound: basics.Round(1000 + r.Intn(1000)), VotersCommitment: r.Bytes(64), OnlineTotalWeight: basics.MicroAlgos{Raw: 5}, Version: d.hdrProto()})
			return "bogus context appended", "stateproof-data", true
		}},
		// --- online account history
		editOA("oa-microalgos", func(rec *encoded.OnlineAccountRecordV6, data *trackerdb.BaseOnlineAccountData, r *kit.Rand) string {
			data.MicroAlgos.Raw++
			return "MicroAlgos+1"
		}),
		editOA("oa-vote-last-valid", func(rec *encoded.OnlineAccountRecordV6, data *trackerdb.BaseOnlineAccountData, r *kit.Rand) string {
			data.VoteLastValid += 100
			rec.VoteLastValid += 100
			return "VoteLastValid+100 (row and data)"
		}),
		editOA("oa-vote-last-valid-column", func(rec *encoded.OnlineAccountRecordV6, data *trackerdb.BaseOnlineAccountData, r *kit.Rand) string {
			rec.VoteLastValid += 100
			return "VoteLastValid column +100 (data untouched)"
		}),
		editOA("oa-normalized-balance", func(rec *encoded.OnlineAccountRecordV6, data *trackerdb.BaseOnlineAccountData, r *kit.Rand) string {
			rec.NormalizedOnlineBalance++
			return "NormalizedOnlineBalance+1"
		}),
		editOA("oa-update-round", func(rec *encoded.OnlineAccountRecordV6, data *trackerdb.BaseOnlineAccountData, r *kit.Rand) string {
			rec.UpdateRound++
			return "UpdateRound+1"
		}),
		editOA("oa-address", func(rec *encoded.OnlineAccountRecordV6, data *trackerdb.BaseOnlineAccountData, r *kit.Rand) string {
			rec.Address[r.Intn(32)] ^= 1
			return "address byte"
		}),
		editOA("oa-vote-id", func(rec *encoded.OnlineAccountRecordV6, data *trackerdb.BaseOnlineAccountData, r *kit.Rand) string {
			data.VoteID[0] ^= 1
			return "VoteID byte"
		}),
		// --- online round params
		editORP("orp-online-supply", func(rec *encoded.OnlineRoundParamsRecordV6, data *ledgercore.OnlineRoundParamsData, r *kit.Rand) string {
			data.OnlineSupply++
			return "OnlineSupply+1"
		}),
		editORP("orp-rewards-level", func(rec *encoded.OnlineRoundParamsRecordV6, data *ledgercore.OnlineRoundParamsData, r *kit.Rand) string {
			data.RewardsLevel++
			return "RewardsLevel+1"
		}),
		editORP("orp-round", func(rec *encoded.OnlineRoundParamsRecordV6, data *ledgercore.OnlineRoundParamsData, r *kit.Rand) string {
			rec.Round += 1000
			return "round+1000"
		}),
		// --- benign re-encodings (must restore to the same state if accepted)
		{class: "rechunk", presplit: true, apply: func(d *c16Doc, r *kit.Rand) (string, string, bool) {
			d.split(r)
			return "file re-chunked twice (same records, smaller chunks, accounts cut across chunks)", "chunk", true
		}},
		{class: "unknown-section", apply: func(d *c16Doc, r *kit.Rand) (string, string, bool) {
			pos := r.Range(1, len(d.items))
			d.items = append(d.items[:pos:pos], append([]c16Item{{kind: "raw", raw: cpEntry{"extra.msgpack", r.Bytes(r.Range(1, 40))}}}, d.items[pos:]...)...)
			return fmt.Sprintf("unknown section inserted at %d", pos), "section", true
		}},
		{class: "empty-chunk", apply: func(d *c16Doc, r *kit.Rand) (string, string, bool) {
			pos := r.Range(1, len(d.items))
			d.items = append(d.items[:pos:pos], append([]c16Item{{kind: "chunk"}}, d.items[pos:]...)...)
			return fmt.Sprintf("empty balances chunk inserted at %d", pos), "chunk", true
		}},
		{class: "zero-size-entry", apply: func(d *c16Doc, r *kit.Rand) (string, string, bool) {
			pos := r.Range(1, len(d.items))
			d.items = append(d.items[:pos:pos], append([]c16Item{{kind: "raw", raw: cpEntry{"balances.99.msgpack", nil}}}, d.items[pos:]...)...)
			return fmt.Sprintf("zero-size tar entry inserted at %d", pos), "chunk", true
		}},
		{class: "chunk-trailing-bytes", apply: func(d *c16Doc, r *kit.Rand) (string, string, bool) {
			items := d.chunkItems()
			if len(items) == 0 {
				return "", "chunk", false
			}
			i := items[r.Intn(len(items))]
			ch := d.items[i].chunk
			n := 0
			for _, j := range items {
				if j <= i {
					n++
				}
			}
			d.items[i] = c16Item{kind: "raw", raw: cpEntry{fmt.Sprintf(catchpointBalancesFileNameTemplate, n), append(protocol.Encode(&ch), r.Bytes(r.Range(1, 9))...)}}
			return fmt.Sprintf("garbage appended to chunk at item %d", i), "chunk", true
		}},
		// --- another genuine file offered for this label
		{class: "substitute-file-of-other-round", apply: func(d *c16Doc, r *kit.Rand) (string, string, bool) {
			if alt == nil {
				return "", "file", false
			}
			keepRound := r.Bool()
			want := d.hdr.BlocksRound
			o := alt.clone()
			d.hdr, d.sp, d.items = o.hdr, o.sp, o.items
			if keepRound {
				d.hdr.BlocksRound = want
				return fmt.Sprintf("the producer's genuine file of round %d with BlocksRound rewritten to %d", o.hdr.BlocksRound, want), "file", true
			}
			return fmt.Sprintf("the producer's genuine (self-consistent) file of round %d offered for the label of round %d", o.hdr.BlocksRound, want), "file", true
		}},
		// --- stream level
		{class: "truncated-stream", apply: func(d *c16Doc, r *kit.Rand) (string, string, bool) { return "", "stream", true },
			stream: func(b []byte, r *kit.Rand) ([]byte, string) {
				cut := r.Range(1, len(b)-1)
				return b[:cut], fmt.Sprintf("tar stream of %d bytes cut after %d bytes", len(b), cut)
			}},
		{class: "truncated-at-entry-boundary", apply: func(d *c16Doc, r *kit.Rand) (string, string, bool) {
			if len(d.items) < 2 {
				return "", "stream", false
			}
			k := r.Range(1, len(d.items)-1)
			d.items = d.items[:len(d.items)-k]
			return fmt.Sprintf("last %d tar entries missing (stream ends cleanly)", k), "stream", true
		}},
		{class: "stream-byte-flip", apply: func(d *c16Doc, r *kit.Rand) (string, string, bool) { return "", "stream", true },
			stream: func(b []byte, r *kit.Rand) ([]byte, string) {
				out, i := c16FlipByte(b, r)
				return out, fmt.Sprintf("bit flipped in byte %d of the %d-byte tar stream", i, len(b))
			}},
	}
}

func (d *c16Doc) hdrProto() protocol.ConsensusVersion {
	if len(d.sp.Data) > 0 {
		return d.sp.Data[0].Version
	}
	return protocol.ConsensusCurrentVersion
}

// ---- adopted state ---------------------------------------------------------------------------------

// c16Dump lists everything the restored ledger adopted, read from its tracker database.
func c16Dump(c *kit.Ctx, l *Ledger) []string {
	var out []string
	add := func(f string, a ...any) { out = append(out, fmt.Sprintf(f, a...)) }
	add("latest %d", l.Latest())
	err := l.trackerDB().Snapshot(func(ctx context.Context, tx trackerdb.SnapshotScope) error {
		ar, err := tx.MakeAccountsReader()
		if err != nil {
			return err
		}
		rnd, err := ar.AccountsRound()
		if err != nil {
			return err
		}
		add("dbround %d", rnd)
		hr, err := ar.AccountsHashRound(ctx)
		if err != nil {
			return err
		}
		add("hashround %d", hr)
		tot, err := ar.AccountsTotals(ctx, false)
		if err != nil {
			return err
		}
		add("totals %+v", tot)
		it := tx.MakeEncodedAccountsBatchIter()
		for {
			bals, _, err := it.Next(ctx, 1000, 100000)
			if err != nil {
				it.Close()
				return err
			}
			if len(bals) == 0 {
				break
			}
			for _, b := range bals {
				if !b.ExpectingMoreEntries {
					add("acct %s %x", b.Address, []byte(b.AccountData))
				}
				for id, raw := range b.Resources {
					add("res %s %d %x", b.Address, id, []byte(raw))
				}
			}
		}
		it.Close()
		kvs, err := tx.MakeKVsIter(ctx)
		if err != nil {
			return err
		}
		for kvs.Next() {
			k, v, err := kvs.KeyValue()
			if err != nil {
				kvs.Close()
				return err
			}
			add("kv %x = %x (nil=%v)", k, v, v == nil)
		}
		kvs.Close()
		oa, err := tx.MakeOrderedOnlineAccountsIter(ctx, false, 0)
		if err != nil {
			return err
		}
		for oa.Next() {
			rec, err := oa.GetItem()
			if err != nil {
				oa.Close()
				return err
			}
			add("oa %s %d nob=%d vlv=%d %x", rec.Address, rec.UpdateRound, rec.NormalizedOnlineBalance, rec.VoteLastValid, []byte(rec.Data))
		}
		oa.Close()
		orp, err := tx.MakeOnlineRoundParamsIter(ctx, false, 0)
		if err != nil {
			return err
		}
		for orp.Next() {
			rec, err := orp.GetItem()
			if err != nil {
				orp.Close()
				return err
			}
			add("orp %d %x", rec.Round, []byte(rec.Data))
		}
		orp.Close()
		sp, err := tx.MakeSpVerificationCtxReader().GetAllSPContexts(ctx)
		if err != nil {
			return err
		}
		for _, s := range sp {
			add("sp %d %x %d %s", s.LastAttestedRound, []byte(s.VotersCommitment), s.OnlineTotalWeight.Raw, s.Version)
		}
		return nil
	})
	if err != nil {
		c.Harness("dump of the restored ledger: %v", err)
	}
	err = l.trackerDB().Transaction(func(ctx context.Context, tx trackerdb.TransactionScope) error {
		mc, err := tx.MakeMerkleCommitter(false)
		if err != nil {
			return err
		}
		trie, err := merkletrie.MakeTrie(mc, trackerdb.TrieMemoryConfig)
		if err != nil {
			return err
		}
		root, err := trie.RootHash()
		if err != nil {
			return err
		}
		add("trie %s", root)
		return nil
	})
	if err != nil {
		c.Harness("trie root of the restored ledger: %v", err)
	}
	sort.Strings(out)
	return out
}

func c16Diff(a, b []string) []string {
	in := func(s []string) map[string]bool {
		m := map[string]bool{}
		for _, x := range s {
			m[x] = true
		}
		return m
	}
	ma, mb := in(a), in(b)
	var out []string
	for _, x := range a {
		if !mb[x] && len(out) < 12 {
			out = append(out, "- "+kitTrunc(x, 300))
		}
	}
	for _, x := range b {
		if !ma[x] && len(out) < 24 {
			out = append(out, "+ "+kitTrunc(x, 300))
		}
	}
	return out
}

func kitTrunc(s string, n int) string {
	if len(s) > n {
		return s[:n] + "…"
	}
	return s
}

// ---- (a) restored ledger vs reference model ---------------------------------------------------------

// c16CompareModel compares every answer of the restored ledger with the model for the rounds
// [balances round, block round]; online-account answers also for the history the file carries.
func c16CompareModel(c *kit.Ctx, l *Ledger, m *hlModel, u *hlUniverse, bal, top basics.Round) []string {
	var bad []string
	mis := func(f string, a ...any) {
		if len(bad) < 30 {
			bad = append(bad, fmt.Sprintf(f, a...))
		}
	}
	o := kit.FPOptions{NilEqualsEmpty: true}
	for rr := bal; rr <= top; rr++ {
		for _, a := range m.addresses() {
			want := m.acct(rr, a)
			got, _, err := l.LookupWithoutRewards(rr, a)
			c.Eval(1)
			c.Count("c16.records_compared.account", 1)
			if err != nil || got != want {
				mis("round %d LookupWithoutRewards(%s): got %+v err %v want %+v", rr, a, got, err, want)
			}
			wantR := m.acctWithRewards(rr, a)
			gotR, _, wr, err := l.LookupAccount(rr, a)
			if err != nil || gotR != wantR || wr != want.MicroAlgos {
				mis("round %d LookupAccount(%s): got %+v err %v want %+v", rr, a, gotR, err, wantR)
			}
			if want.IsZero() {
				if len(m.accts[a].v) > 1 || (len(m.accts[a].v) == 1 && m.accts[a].v[0].rnd > 0) {
					c.Count("c16.closed_or_absent_accounts_compared", 1)
				}
			}
		}
		resKeys := map[hlRes]basics.CreatableType{}
		for k := range m.assetParams {
			resKeys[k] = basics.AssetCreatable
		}
		for k := range m.assetHold {
			resKeys[k] = basics.AssetCreatable
		}
		for k := range m.appParams {
			resKeys[k] = basics.AppCreatable
		}
		for k := range m.appLocal {
			resKeys[k] = basics.AppCreatable
		}
		for k, ct := range resKeys {
			c.Eval(1)
			if ct == basics.AssetCreatable {
				wp, okp := m.assetParams[k].at(rr)
				wh, okh := m.assetHold[k].at(rr)
				got, err := l.LookupAsset(rr, k.addr, basics.AssetIndex(k.idx))
				if err != nil || (got.AssetParams != nil) != okp || (got.AssetHolding != nil) != okh || (okp && *got.AssetParams != wp) || (okh && *got.AssetHolding != wh) {
					mis("round %d LookupAsset(%s,%d): got %s err %v want params(%v)=%+v holding(%v)=%+v", rr, k.addr, k.idx, c16AssetStr(got), err, okp, wp, okh, wh)
				}
				if okp || okh {
					c.Count("c16.records_compared.asset", 1)
				}
			} else {
				wp, okp := m.appParams[k].at(rr)
				wl, okl := m.appLocal[k].at(rr)
				got, err := l.LookupApplication(rr, k.addr, basics.AppIndex(k.idx))
				badApp := err != nil || (got.AppParams != nil) != okp || (got.AppLocalState != nil) != okl
				if !badApp && okp && kit.Fingerprint(*got.AppParams, o) != kit.Fingerprint(wp, o) {
					badApp = true
				}
				if !badApp && okl && kit.Fingerprint(*got.AppLocalState, o) != kit.Fingerprint(wl, o) {
					badApp = true
				}
				if badApp {
					mis("round %d LookupApplication(%s,%d) differs (err %v): want params(%v)=%+v local(%v)=%+v", rr, k.addr, k.idx, err, okp, wp, okl, wl)
				}
				if okp {
					c.Count("c16.records_compared.app_params", 1)
					if len(wp.GlobalState) > 0 {
						c.Count("c16.records_compared.app_global_state", 1)
					}
				}
				if okl {
					c.Count("c16.records_compared.app_local", 1)
					if len(wl.KeyValue) > 0 {
						c.Count("c16.records_compared.app_local_state", 1)
					}
				}
			}
		}
		for idx, h := range m.creators {
			for _, ct := range []basics.CreatableType{basics.AssetCreatable, basics.AppCreatable} {
				want, okw := m.creator(rr, idx, ct)
				got, ok, err := l.GetCreatorForRound(rr, idx, ct)
				c.Eval(1)
				if err != nil || ok != okw || (ok && got != want) {
					mis("round %d GetCreatorForRound(%d,%v): got %s %v err %v want %s %v", rr, idx, ct, got, ok, err, want, okw)
				}
			}
			_ = h
		}
		for key := range m.kv {
			want, okw := m.kv[key].at(rr)
			got, err := l.LookupKv(rr, key)
			c.Eval(1)
			if err != nil || (got != nil) != okw || (okw && !bytes.Equal(got, want)) {
				mis("round %d LookupKv(%x): got %x (nil=%v) err %v want %x (present=%v)", rr, key, got, got == nil, err, want, okw)
			}
			if okw {
				c.Count("c16.records_compared.box", 1)
				if len(want) == 0 {
					c.Count("c16.records_compared.empty_box", 1)
				}
			}
		}
		// box listings per application
		for _, app := range c16Apps(m) {
			prefix := apps.MakeBoxKey(uint64(app), "")
			want := m.kvKeys(rr, prefix)
			got, err := l.LookupKeysByPrefix(rr, prefix, 1000)
			sort.Strings(got)
			c.Eval(1)
			if err != nil || fmt.Sprint(got) != fmt.Sprint(want) {
				mis("round %d LookupKeysByPrefix(app %d): got %x err %v want %x", rr, app, got, err, want)
			}
			if len(want) > 0 {
				c.Count("c16.records_compared.box_listing", 1)
			}
		}
		wantT := m.totals(rr)
		gotT, err := l.Totals(rr)
		c.Eval(1)
		c.Count("c16.records_compared.totals", 1)
		if err != nil || gotT != wantT {
			mis("round %d Totals: got %+v err %v want %+v", rr, gotT, err, wantT)
		}
	}
	// online history: the file carries MaxBalLookback rounds before the balances round
	p := m.proto(top)
	lo := (bal + 1).SubSaturate(basics.Round(p.MaxBalLookback))
	for rr := lo; rr <= top; rr++ {
		for _, a := range u.keyed {
			want := m.onlineData(rr, a)
			got, err := l.LookupAgreement(rr, a)
			c.Eval(1)
			c.Count("c16.records_compared.online_account", 1)
			if want.MicroAlgosWithRewards.Raw > 0 {
				c.Count("c16.records_compared.online_account_nonzero", 1)
			}
			if err != nil || got != want {
				mis("round %d LookupAgreement(%s): got %+v err %v want %+v", rr, a, got, err, want)
			}
		}
		vr := rr + basics.Round(p.MaxBalLookback)
		want, _ := m.circulation(rr, vr)
		got, err := l.OnlineCirculation(rr, vr)
		c.Eval(1)
		c.Count("c16.records_compared.circulation", 1)
		if err != nil || new(big.Int).SetUint64(got.Raw).Cmp(want) != 0 {
			mis("OnlineCirculation(%d,%d): got %d err %v want %s", rr, vr, got.Raw, err, want)
		}
	}
	return bad
}

// c16KvCollision reports two different boxes of the file whose key||value byte strings coincide
// (KvHashBuilderV6 gives them the same trie leaf).
func c16KvCollision(d *c16Doc) (string, bool) {
	seen := map[string][]byte{}
	for _, ref := range d.refs("kv") {
		kv := d.items[ref.item].chunk.KVs[ref.idx]
		pre := string(kv.Key) + string(kv.Value)
		if other, ok := seen[pre]; ok && !bytes.Equal(other, kv.Key) {
			return fmt.Sprintf("key %x (value %d bytes) and key %x: both hash the bytes %x", other, len(pre)-len(other), kv.Key, pre), true
		}
		seen[pre] = kv.Key
	}
	return "", false
}

// c16Apps lists every application index that ever existed, sorted.
func c16Apps(m *hlModel) []basics.AppIndex {
	var out []basics.AppIndex
	for _, idx := range m.appAccounts() {
		out = append(out, idx)
	}
	sort.Slice(out, func(i, j int) bool { return out[i] < out[j] })
	return out
}

func c16AssetStr(r ledgercore.AssetResource) string {
	s := ""
	if r.AssetParams != nil {
		s += fmt.Sprintf("params=%+v ", *r.AssetParams)
	}
	if r.AssetHolding != nil {
		s += fmt.Sprintf("holding=%+v", *r.AssetHolding)
	}
	return s
}

// c16Step is hlSim.step plus, on request, a few scripted groups that make sure the state contains
// what the campaign needs whatever the PRNG chose: a funded application with an empty-valued box,
// a box with a multi-byte name and a box with a value.
func c16Step(a *hlSim, scripted bool) {
	a.lastBlockGroups = a.lastBlockGroups[:0]
	ev, err := a.startEval()
	if err != nil {
		a.c.Harness("StartEvaluator: %v", err)
	}
	for i, n := 0, a.g.groupsPerBlock(); i < n; i++ {
		a.g.offerRandom(ev)
	}
	if live := a.g.liveApps(); scripted && len(live) > 0 {
		app := live[a.r.Intn(len(live))].idx
		box := func(name string, val []byte) *txntest.Txn {
			return &txntest.Txn{Type: protocol.ApplicationCallTx, Sender: a.g.funded(), ApplicationID: app, Note: a.g.nextNote(),
				ApplicationArgs: [][]byte{[]byte("bput"), []byte(name), val}, Boxes: []transactions.BoxRef{{Name: []byte(name)}}}
		}
		a.offer(ev, "scripted-fund", &txntest.Txn{Type: protocol.PaymentTx, Sender: a.g.funded(), Receiver: app.Address(), Amount: 2_000_000, Note: a.g.nextNote()})
		a.offer(ev, "scripted-box", box(fmt.Sprintf("empty%d", ev.Round()%3), []byte{}))
		a.offer(ev, "scripted-box", box("ab", []byte("c")))
		a.offer(ev, "scripted-box", box(fmt.Sprintf("name-%d", ev.Round()%4), a.r.Bytes(a.r.Range(1, 40))))
	}
	if _, err := a.finishBlock(ev); err != nil {
		a.c.Violation("generated-block-rejected", map[string]any{"round": a.m.latest + 1, "error": err.Error(), "config": a.cfg.String(), "trace": a.traceTail(30)})
		a.c.Harness("cannot continue after %v", err)
	}
}

// ---- the test ------------------------------------------------------------------------------------------

type c16Case struct {
	idx    int
	mut    c16Mut
	desc   string
	kind   string
	stream []byte
}

type c16Outcome struct {
	stage    string
	err      string
	verified bool
	dump     []string
}

func TestVerifC16(t *testing.T) {
	c := kit.Start(t, "C16", "restore")
	defer c.Finish()
	c.Rule("PRNG histories (HL generator, profile tilted to apps/boxes/assets; online accounts with short keys; closes) on a real ledger storing catchpoint files (reduced-lookback protocols, interval 4/8); the newest files that contain boxes are (a) restored into fresh on-disk ledgers via the real accessor in production order and compared answer by answer with the reference model over [balances round, block round] (+ online history), then fed the producer's next blocks and compared on the next labels; (b) mutated one change at a time (≈75 classes × PRNG-chosen target records: account fields, asset/app resources, boxes incl. the name|value boundary shift, records dropped/duplicated/moved/added, header totals/rounds/digest/counts/version, chunk order and sections, state-proof data, online-account and round-params rows, truncation and bit flips of the tar stream, benign re-encodings) and restored the same way; distinct = (mutation class, record kind, outcome stage)")
	c.Assume("the block source offered to the restoring node is the producer's real chain (block authenticity is agreement's concern); SHA-512/256 does not collide on the generated inputs; a mutated file that is accepted and yields the identical adopted state is not a violation")
	hlRegisterProtos()
	nh := c.N(2, 6)
	blocks := c.N(50, 90)
	filesPerHistory := c.N(1, 2)
	perClass := c.N(2, 5)
	workers := 8
	for h := 0; h < nh && c.Violations() < 10; h++ {
		r := c.Rand(16, uint64(h))
		cfg := hlConfig{
			Proto:              []protocol.ConsensusVersion{hlProtoMid, hlProtoShort, hlProtoCurrentMid}[(h+r.Intn(3))%3],
			MaxAcctLookback:    []uint64{1, 2, 4}[r.Intn(3)],
			Archival:           r.Bool(),
			OnDisk:             true,
			Storage:            "sqlite",
			NAccounts:          12,
			NOnline:            4,
			CatchpointInterval: []uint64{4, 8}[r.Intn(2)],
			CatchpointTracking: 2,
			Profile:            "apps",
		}
		p := config.Consensus[cfg.Proto]
		lb := cpLookback(p)
		a := hlNewSim(t, c, r, cfg)
		src := cpBlockSource{0: a.genesis.Block}
		labels := map[basics.Round]string{}
		a.onBlock = append(a.onBlock, func(vb *ledgercore.ValidatedBlock) { src[vb.Block().Round()] = vb.Block() })
		sample := func() {
			if lbl := a.l.GetLastCatchpointLabel(); lbl != "" {
				if rnd, _, err := ledgercore.ParseCatchpointLabel(lbl); err == nil {
					labels[rnd] = lbl
				}
			}
		}
		for i := 0; i < blocks; i++ {
			c16Step(a, i%5 == 4)
			sample()
			switch r.Pick([]int{40, 25, 25, 4, 3, 3}) {
			case 1:
				a.settle()
			case 2:
				cpFlush(a)
			case 3:
				a.settle()
				a.l.FlushCaches()
			case 4:
				a.reload()
			case 5:
				a.reopen()
			}
			sample()
		}
		cpFlush(a)
		sample()
		for k, v := range a.stats {
			c.Count("gen."+k, v)
		}
		// the newest catchpoint files, preferring those that contain boxes
		type cand struct {
			rnd         basics.Round
			entries     []cpEntry
			doc         *c16Doc
			genuineOnly bool // restore + model comparison + continuation only (no mutation campaign)
		}
		var cands []cand
		iv := basics.Round(cfg.CatchpointInterval)
		// an older file, so that the restored ledger has several catchpoint intervals of the producer's chain to continue with
		for rnd := (a.l.Latest()/iv - 4) * iv; rnd >= 2*iv && rnd < a.l.Latest(); rnd -= iv {
			if entries, err := cpReadCatchpointFile(a.l, rnd); err == nil {
				if doc, err := c16Decode(entries); err == nil {
					cands = append(cands, cand{rnd, entries, doc, true})
					break
				}
			}
		}
		for rnd := a.l.Latest() / iv * iv; rnd >= iv && len(cands) < filesPerHistory+4; rnd -= iv {
			entries, err := cpReadCatchpointFile(a.l, rnd)
			if err != nil {
				continue
			}
			doc, err := c16Decode(entries)
			if err != nil {
				c.Violation("catchpoint-file-undecodable", map[string]any{"round": rnd, "error": err.Error()})
				continue
			}
			if len(doc.refs("kv")) == 0 && rnd > 3*iv {
				c.Count("c16.files_without_boxes_skipped", 1)
				continue
			}
			cands = append(cands, cand{rnd, entries, doc, false})
		}
		genesis, lcfgBase, model, uni := a.genesis, a.lcfg, a.m, a.u
		a.l.Close()
		a.l = nil
		var altDoc *c16Doc
		for _, f := range cands {
			if f.genuineOnly {
				altDoc = f.doc
			}
		}
		campaigns := 0
		for fi, f := range cands {
			if !f.genuineOnly && campaigns >= filesPerHistory {
				continue
			}
			label, ok := labels[f.rnd]
			if !ok {
				label = f.doc.hdr.Catchpoint
			}
			if label != f.doc.hdr.Catchpoint {
				c.Violation("file-label-differs-from-reported-label", map[string]any{"round": f.rnd, "reported": label, "file": f.doc.hdr.Catchpoint})
			}
			bal := f.rnd - lb
			// re-encoding the decoded file must be the identity (else the harness, not the mutation, changes the file)
			if re := f.doc.encode(); len(re) != len(f.entries) {
				c.Harness("re-encoding changed the entry count")
			} else {
				for i := range re {
					if re[i].Name != f.entries[i].Name || !bytes.Equal(re[i].Data, f.entries[i].Data) {
						c.Harness("re-encoding of entry %s is not the identity", re[i].Name)
					}
				}
			}
			c.Count("c16.files", 1)
			c.Count("c16.file_accounts", len(f.doc.refs("acct")))
			c.Count("c16.file_boxes", len(f.doc.refs("kv")))
			c.Count("c16.file_online_account_rows", len(f.doc.refs("oa")))
			c.Count("c16.file_round_params_rows", len(f.doc.refs("orp")))
			c.Count("c16.file_stateproof_contexts", len(f.doc.sp.Data))
			c.Count("c16.file_resources", len(f.doc.resources(func(*trackerdb.ResourcesData) bool { return true })))

			// ---- (a) restore the unmodified file ------------------------------------------------
			// restored node 1: MaxAcctLookback >= CatchpointLookback keeps the tracker DB at the balances round (dump baseline)
			lcDump := lcfgBase
			lcDump.MaxAcctLookback = uint64(lb) + 4
			lcDump.CatchpointTracking = 1
			// the mutation campaign opens hundreds of ledgers: no fsync per transaction (an operator
			// setting without influence on what is accepted); the genuine-file restores keep the default
			lcMut := lcDump
			lcMut.LedgerSynchronousMode = 0
			lcMut.AccountsRebuildSynchronousMode = 0
			lcMut.DisableLedgerLRUCache = true // opening a ledger otherwise allocates ~100 MB of LRU buffers
			lcMut.TxPoolSize, lcMut.VerifiedTranscationsCacheSize = 100, 100
			base := cpRestore(c, genesis, lcDump, cpTar(f.entries), label, src)
			if desc, collide := c16KvCollision(f.doc); collide && base.Stage == "build-trie" {
				// the known finding met in the wild: the history itself created two legal boxes of one
				// application whose key||value coincide (e.g. ("ab","c") and ("abc","")); their trie leaves are
				// equal, the producer's trie holds one of them, and the restoring node refuses the honest file
				// ("same account more than once"). Same root cause, same key; another file is used instead.
				c.Count("c16.genuine_files_with_colliding_boxes", 1)
				c.Violation("kv-preimage-boundary-shift", map[string]any{"manifestation": "an HONEST catchpoint file is rejected by the restoring node because the state holds two legal boxes with equal key||value", "boxes": desc, "round": f.rnd, "label": label, "stage": base.Stage, "error": fmt.Sprint(base.Err), "config": cfg.String()})
				cpRemove(base.Dir)
				continue
			}
			if !f.genuineOnly {
				campaigns++
			}
			if base.Stage != "adopted" {
				c.Violation("genuine-file-rejected", map[string]any{"round": f.rnd, "label": label, "stage": base.Stage, "error": fmt.Sprint(base.Err), "config": cfg.String(), "trace": a.traceTail(30)})
				continue
			}
			c.Count("c16.restores_of_genuine_files", 1)
			baseDump := c16Dump(c, base.L)
			if bad := c16CompareModel(c, base.L, model, uni, bal, f.rnd); len(bad) > 0 {
				c.Violation("restored-state-differs", map[string]any{"round": f.rnd, "balances_round": bal, "label": label, "config": cfg.String(), "mismatches": bad, "trace": a.traceTail(30)})
			}
			base.L.Close()
			// restored node 2: a node with a short MaxAcctLookback (commits right after the restore); answers at the block round
			lc2 := lcfgBase
			lc2.MaxAcctLookback = []uint64{1, 2, 4}[r.Intn(3)]
			lc2.Archival = !lcfgBase.Archival
			lc2.CatchpointTracking = 1
			seenNext := map[basics.Round]bool{}
			second := cpRestore(c, genesis, lc2, cpTar(f.entries), label, src)
			if second.Stage != "adopted" {
				c.Violation("genuine-file-rejected", map[string]any{"round": f.rnd, "label": label, "stage": second.Stage, "error": fmt.Sprint(second.Err), "config": cfg.String(), "restore_config": "short MaxAcctLookback"})
			} else {
				c.Count("c16.restores_of_genuine_files", 1)
				if bad := c16CompareModel(c, second.L, model, uni, f.rnd, f.rnd); len(bad) > 0 {
					c.Violation("restored-state-differs", map[string]any{"round": f.rnd, "at": "block round, node with short MaxAcctLookback", "label": label, "config": cfg.String(), "mismatches": bad})
				}
				// continue the chain on the restored node: it must accept the producer's next blocks and make the same labels
				rs := &hlSim{t: t, c: c, r: r, cfg: cfg, l: second.L}
				for rr := f.rnd + 1; ; rr++ {
					blk, ok := src[rr]
					if !ok {
						break
					}
					if err := second.L.AddBlock(blk, cpCert()); err != nil {
						c.Violation("restored-ledger-rejects-next-block", map[string]any{"catchpoint_round": f.rnd, "block": rr, "error": err.Error(), "config": cfg.String()})
						break
					}
					c.Count("c16.next_blocks_accepted_by_restored_ledger", 1)
					cpFlush(rs)
					if lbl := second.L.GetLastCatchpointLabel(); lbl != "" {
						if rnd, _, err := ledgercore.ParseCatchpointLabel(lbl); err == nil && rnd > f.rnd && !seenNext[rnd] {
							seenNext[rnd] = true
							if want, ok := labels[rnd]; ok {
								c.Eval(1)
								c.Count("c16.next_labels_compared", 1)
								if want != lbl {
									c.Violation("restored-ledger-next-label-differs", map[string]any{"restored_from": f.rnd, "round": rnd, "restored": lbl, "producer": want, "config": cfg.String()})
								}
							}
						}
					}
				}
				second.L.Close()
			}
			if f.genuineOnly {
				cpRemove(base.Dir)
				cpRemove(second.Dir)
				continue
			}

			// ---- (b) mutations ----------------------------------------------------------------------
			muts := c16Mutations(altDoc)
			var cases []*c16Case
			for mi, mu := range muts {
				n := perClass
				if mu.class == "kv-preimage-boundary-shift" {
					n = perClass * 2
				}
				for k := 0; k < n; k++ {
					mr := c.Rand(16, uint64(h), uint64(fi), uint64(mi), uint64(k))
					d := f.doc.clone()
					if mu.presplit {
						d.split(mr)
					}
					desc, kind, ok := mu.apply(d, mr)
					if !ok {
						c.Count("c16.mutation_without_target."+mu.class, 1)
						break
					}
					stream := cpTar(d.encode())
					if mu.stream != nil {
						stream, desc = mu.stream(stream, mr)
					}
					if bytes.Equal(stream, cpTar(f.entries)) {
						c.Count("c16.mutation_was_identity", 1)
						continue
					}
					cases = append(cases, &c16Case{idx: len(cases), mut: mu, desc: desc, kind: kind, stream: stream})
				}
			}
			outs := make([]c16Outcome, len(cases))
			var wg sync.WaitGroup
			ch := make(chan *c16Case)
			for w := 0; w < workers; w++ {
				wg.Add(1)
				go func() {
					defer wg.Done()
					for cs := range ch {
						res := cpRestore(c, genesis, lcMut, cs.stream, label, src)
						o := c16Outcome{stage: res.Stage, verified: res.Verified}
						if res.Err != nil {
							o.err = res.Err.Error()
						}
						if res.L != nil {
							o.dump = c16Dump(c, res.L)
							res.L.Close()
						}
						cpRemove(res.Dir)
						outs[cs.idx] = o
					}
				}()
			}
			for _, cs := range cases {
				ch <- cs
			}
			close(ch)
			wg.Wait()
			baseJoined := strings.Join(baseDump, "\n")
			for _, cs := range cases {
				o := outs[cs.idx]
				c.Eval(1)
				c.Count("c16.mutations", 1)
				c.Count("c16.mutations."+cs.mut.class, 1)
				c.Distinct(cs.mut.class + "|" + cs.kind + "|" + o.stage)
				c.Count("c16.outcome."+cs.mut.class+"@"+strings.SplitN(o.stage, ":", 2)[0], 1)
				w := map[string]any{"history": h, "config": cfg.String(), "catchpoint_round": f.rnd, "label": label, "class": cs.mut.class, "mutation": cs.desc, "stage": o.stage, "error": o.err}
				switch {
				case o.stage != "adopted" && o.verified:
					// VerifyCatchpoint accepted the mutated file and a later step (CompleteCatchup switches the
					// tables, then reloads) failed although it succeeds for the genuine file: the file's content
					// differs in a way verification did not notice, and the node is left with it.
					c.Count("c16.verified_then_failed", 1)
					w["note"] = "VerifyCatchpoint succeeded; the restore then failed at a later step, which does not fail for the genuine file"
					if cs.mut.class == "kv-preimage-boundary-shift" {
						c.Violation("kv-preimage-boundary-shift", w)
					} else {
						c.Violation("accepted-tampered:"+cs.mut.class, w)
					}
				case o.stage != "adopted":
					c.Count("c16.rejected", 1)
					c.Count("c16.rejected_at."+strings.SplitN(o.stage, ":", 2)[0], 1)
				case strings.Join(o.dump, "\n") == baseJoined:
					c.Count("c16.accepted_with_identical_state", 1)
					c.Count("c16.accepted_with_identical_state."+cs.mut.class, 1)
				default:
					w["state_difference"] = c16Diff(baseDump, o.dump)
					w["stream_hex_prefix"] = hex.EncodeToString(cs.stream[:min(len(cs.stream), 64)])
					c.Count("c16.accepted_with_different_state", 1)
					if cs.mut.class == "kv-preimage-boundary-shift" {
						c.Violation("kv-preimage-boundary-shift", w)
					} else {
						c.Violation("accepted-tampered:"+cs.mut.class, w)
					}
				}
			}
			if h == 0 && fi == 0 {
				c.Sample(map[string]any{"history": h, "config": cfg.String(), "catchpoint_round": f.rnd, "balances_round": bal, "label": label, "accounts": len(f.doc.refs("acct")), "boxes": len(f.doc.refs("kv")), "online_rows": len(f.doc.refs("oa")), "round_params_rows": len(f.doc.refs("orp")), "sp_contexts": len(f.doc.sp.Data), "mutations": len(cases)})
			}
			cpRemove(base.Dir)
			cpRemove(second.Dir)
		}
		a.close()
	}
	c.Require("c16.restores_of_genuine_files", 4)
	c.Require("c16.records_compared.account", 100)
	c.Require("c16.records_compared.box", 5)
	c.Require("c16.records_compared.empty_box", 1)
	c.Require("c16.records_compared.box_listing", 1)
	c.Require("c16.records_compared.asset", 10)
	c.Require("c16.records_compared.app_global_state", 1)
	c.Require("c16.records_compared.app_local", 1)
	c.Require("c16.records_compared.online_account_nonzero", 10)
	c.Require("c16.closed_or_absent_accounts_compared", 1)
	c.Require("c16.rejected", int64(c.N(80, 500)))
	c.Require("c16.mutations.kv-preimage-boundary-shift", 2)
	c.Require("c16.mutations.kv-value-byte", 1)
	c.Require("c16.mutations.acct-balance-plus1", 1)
	c.Require("c16.mutations.asset-amount", 1)
	c.Require("c16.mutations.oa-microalgos", 1)
	c.Require("c16.mutations.orp-online-supply", 1)
	c.Require("c16.mutations.header-totals", 1)
	c.Require("c16.mutations.truncated-stream", 1)
	c.Require("c16.next_blocks_accepted_by_restored_ledger", 8)
	c.Require("c16.next_labels_compared", 1)
}

var _ = bookkeeping.Block{}
