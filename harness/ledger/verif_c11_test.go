package ledger

// C11: a committed transaction cannot be committed again while it is still valid; leases.
// Monitors: (a) global exactly-once over every block of every history (a txid in two committed
// blocks); (b) every committed transaction is re-offered to the evaluator at later rounds, after
// every kind of schedule action (commit, reload, reopen) — acceptance while round <= LastValid is a
// violation; (c) completeness of the duplicate-detection state: after every step each committed txid
// whose LastValid >= next round must be reported by CheckDup; (d) reference lease table.

import (
	"context"
	"errors"
	"fmt"
	"os"
	"testing"

	"github.com/algorand/go-algorand/data/basics"
	"github.com/algorand/go-algorand/data/transactions"
	"github.com/algorand/go-algorand/ledger/ledgercore"
	"github.com/algorand/go-algorand/ledger/store/trackerdb"
	"verif.local/kit"
)

type c11Committed struct {
	stxn  transactions.SignedTxn
	round basics.Round
}

// c11CheckTail asks the ledger's duplicate detection about every committed transaction that is still
// inside its validity window.
func c11CheckTail(s *hlSim, committed []c11Committed, after string) {
	c := s.c
	next := s.l.Latest() + 1
	proto := s.m.proto(s.l.Latest())
	for _, ct := range committed {
		tx := ct.stxn.Txn
		if tx.LastValid < next {
			continue
		}
		// lease probe: a DIFFERENT transaction of the same sender with the same lease must be refused while
		// the committed holder of the lease is still active (round <= its LastValid)
		if tx.Lease != [32]byte{} && s.m.proto(s.l.Latest()).SupportTransactionLeases {
			var other transactions.Txid
			other[0] = 0xfe
			copy(other[1:], tx.Lease[:8])
			lerr := s.l.CheckDup(proto, next, next, next+1, other, ledgercore.Txlease{Sender: tx.Sender, Lease: tx.Lease})
			var lil2 *ledgercore.LeaseInLedgerError
			c.Eval(1)
			c.Count("c11.leasecheck", 1)
			c.Distinct(fmt.Sprintf("lease|age%d|%s", min(int(next-ct.round), 16), after))
			if !errors.As(lerr, &lil2) {
				c.Violation("active-lease-not-detected", map[string]any{"sender": tx.Sender.String(), "lease": fmt.Sprintf("%x", tx.Lease[:4]), "holder_txid": ct.stxn.ID().String(), "committed_round": ct.round, "lease_active_until": tx.LastValid, "next_round": next, "after_action": after, "checkdup_error": fmt.Sprint(lerr), "dbRound": s.l.LatestTrackerCommitted(), "config": s.cfg.String(), "trace": s.traceTail(25)})
			}
		}
		c.Eval(1)
		c.Count("c11.dupcheck", 1)
		err := s.l.CheckDup(proto, next, tx.FirstValid, tx.LastValid, ct.stxn.ID(), ledgercore.Txlease{Sender: tx.Sender, Lease: tx.Lease})
		var til *ledgercore.TransactionInLedgerError
		var lil *ledgercore.LeaseInLedgerError
		if errors.As(err, &til) || errors.As(err, &lil) {
			c.Distinct(fmt.Sprintf("age%d|%s", min(int(next-ct.round), 16), after))
			continue
		}
		c.Violation("committed-txn-not-detected-as-duplicate", map[string]any{"debug": c11Debug(s, ct), "txid": ct.stxn.ID().String(), "committed_round": ct.round, "first_valid": tx.FirstValid, "last_valid": tx.LastValid, "next_round": next, "after_action": after, "checkdup_error": fmt.Sprint(err), "dbRound": s.l.LatestTrackerCommitted(), "config": s.cfg.String(), "trace": s.traceTail(25)})
	}
}

// c11Debug describes the duplicate-detection state for the witness.
func c11Debug(s *hlSim, ct c11Committed) string {
	tt := &s.l.txTail
	tt.tailMu.RLock()
	defer tt.tailMu.RUnlock()
	_, in := tt.lastValid[ct.stxn.Txn.LastValid][ct.stxn.ID()]
	var keys []basics.Round
	for k := range tt.lastValid {
		keys = append(keys, k)
	}
	out := fmt.Sprintf("inLastValidMap=%v lowWaterMark=%d lastValidRounds=%v", in, tt.lowWaterMark, keys)
	var rows []string
	_ = s.l.trackerDBs.Snapshot(func(ctx context.Context, tx trackerdb.SnapshotScope) error {
		ar, err := tx.MakeAccountsReader()
		if err != nil {
			return err
		}
		data, _, base, err := ar.LoadTxTail(ctx, s.l.LatestTrackerCommitted())
		if err != nil {
			rows = append(rows, "LoadTxTail error: "+err.Error())
			return nil
		}
		for i, rd := range data {
			has := false
			for _, id := range rd.TxnIDs {
				if id == ct.stxn.ID() {
					has = true
				}
			}
			rows = append(rows, fmt.Sprintf("r%d(hdr %d,n=%d,has=%v)", int(base)+i, rd.Hdr.Round, len(rd.TxnIDs), has))
		}
		return nil
	})
	return out + " dbTxTailRows=" + fmt.Sprint(rows)
}

func TestVerifC11(t *testing.T) {
	c := kit.Start(t, "C11", "nodup")
	defer c.Finish()
	c.Rule("HL histories with short validity windows (MaxTxnLife 6/12), leases, replays; after every block and every schedule action (forced commit, reload, reopen, cache flush) every committed transaction still inside its validity window is (1) looked up through Ledger.CheckDup (must be reported as in-ledger) and (2) sampled ones are re-offered to a fresh evaluator (must be rejected); every block's txids are checked for global uniqueness; lease reuse is compared with a reference lease table; distinct = distinct (age in rounds, preceding schedule action) pairs")
	nh := c.N(5, 60)
	blocks := c.N(70, 200)
	for h := 0; h < nh && c.Violations() < 5; h++ {
		r := c.Rand(11, uint64(h))
		cfg := hlRandomConfig(r)
		cfg.Profile = "dup"
		s := hlNewSim(t, c, r, cfg)
		var committed []c11Committed
		seen := map[transactions.Txid]basics.Round{}
		// reference lease table: (sender, lease) -> expiry round of the newest accepted holder
		type lk struct {
			a basics.Address
			l [32]byte
		}
		leases := map[lk]basics.Round{}
		s.onBlock = append(s.onBlock, func(vb *ledgercore.ValidatedBlock) {
			blk := vb.Block()
			flat, err := blk.DecodePaysetFlat()
			if err != nil {
				c.Harness("decode payset: %v", err)
			}
			var visit func(stxn transactions.SignedTxn)
			for _, stad := range flat {
				stxn := stad.SignedTxn
				visit = func(stxn transactions.SignedTxn) {
					id := stxn.ID()
					c.Eval(1)
					c.Count("c11.txids", 1)
					if prev, dup := seen[id]; dup {
						c.Violation("txid-in-two-blocks", map[string]any{"txid": id.String(), "first_round": prev, "second_round": blk.Round(), "trace": s.traceTail(25)})
					}
					seen[id] = blk.Round()
					if stxn.Txn.Lease != [32]byte{} {
						k := lk{stxn.Txn.Sender, stxn.Txn.Lease}
						if exp, ok := leases[k]; ok && blk.Round() <= exp {
							c.Violation("lease-reused-before-expiry", map[string]any{"sender": stxn.Txn.Sender.String(), "round": blk.Round(), "active_until": exp, "txid": id.String(), "trace": s.traceTail(25)})
						} else if ok {
							c.Count("c11.lease_reuse_after_expiry", 1)
						}
						leases[k] = stxn.Txn.LastValid
						c.Count("c11.leases", 1)
					}
				}
				visit(stxn)
				committed = append(committed, c11Committed{stxn, blk.Round()})
			}
			// forget what can no longer matter
			keep := committed[:0]
			for _, ct := range committed {
				if ct.stxn.Txn.LastValid+2 >= blk.Round() {
					keep = append(keep, ct)
				}
			}
			committed = keep
		})
		for b := 0; b < blocks; b++ {
			s.step()
			c11CheckTail(s, committed, "block")
			if os.Getenv("VERIF_DEBUG") != "" {
				fmt.Printf("h%d after block %d: %s\n", h, b+1, c11Debug(s, c11Committed{}))
			}
			act := s.scheduleAction()
			c.Count("schedule."+act, 1)
			if os.Getenv("VERIF_DEBUG") != "" {
				fmt.Printf("h%d after %s: latest=%d db=%d %s\n", h, act, s.l.Latest(), s.l.LatestTrackerCommitted(), c11Debug(s, c11Committed{}))
			}
			if act != "none" {
				c11CheckTail(s, committed, act)
			}
			// re-offer a sample of committed transactions to a fresh evaluator of the next round
			if len(committed) > 0 && b%2 == 0 {
				ev, err := s.startEval()
				if err != nil {
					c.Harness("StartEvaluator: %v", err)
				}
				for k := 0; k < 4; k++ {
					ct := committed[s.r.Intn(len(committed))]
					if !ct.stxn.Txn.Group.IsZero() {
						continue
					}
					err := ev.TestTransactionGroup([]transactions.SignedTxn{ct.stxn})
					if err == nil {
						err = ev.TransactionGroup(transactions.WrapSignedTxnsWithAD([]transactions.SignedTxn{ct.stxn})...)
					}
					c.Eval(1)
					c.Count("c11.reoffered", 1)
					if err == nil {
						c.Violation("replay-accepted", map[string]any{"txid": ct.stxn.ID().String(), "committed_round": ct.round, "offered_at": ev.Round(), "first_valid": ct.stxn.Txn.FirstValid, "last_valid": ct.stxn.Txn.LastValid, "after_action": act, "trace": s.traceTail(25)})
					}
				}
			}
		}
		for k, v := range s.stats {
			c.Count("gen."+k, v)
		}
		if h < 2 {
			c.Sample(map[string]any{"history": h, "config": cfg.String(), "blocks": blocks, "trace_tail": s.traceTail(6)})
		}
		s.close()
	}
	c.Require("c11.dupcheck", 500)
	c.Require("c11.reoffered", 50)
	c.Require("c11.leases", 5)
	c.Require("c11.leasecheck", 50)
	c.Require("schedule.reload", 2)
	c.Require("schedule.reopen", 2)
}
