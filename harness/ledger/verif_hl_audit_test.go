package ledger

// HL block monitors: invariants asserted on every committed block of a simulated history.
// Each finding carries a class key; the per-property tests decide which classes they own.

import (
	"fmt"
	"math/big"
	"sort"

	"github.com/algorand/avm-abi/apps"
	"github.com/algorand/go-algorand/config"
	"github.com/algorand/go-algorand/data/basics"
	"github.com/algorand/go-algorand/ledger/ledgercore"
)

type hlFinding struct {
	Key string
	W   map[string]any
}

// appAccounts maps app account address -> app index for every app that ever existed.
func (m *hlModel) appAccounts() map[basics.Address]basics.AppIndex {
	out := map[basics.Address]basics.AppIndex{}
	for idx, h := range m.creators {
		for _, v := range h.v {
			if v.present && v.val.ctype == basics.AppCreatable {
				out[basics.AppIndex(idx).Address()] = basics.AppIndex(idx)
				break
			}
		}
	}
	return out
}

type hlUsage struct {
	assets, appParams, appLocals, extraPages uint64
	schema                                   basics.StateSchema
	boxes, boxBytes                          uint64
}

// usage recounts an account's storage from the resources the model holds (not from the
// account's own counters).
func (m *hlModel) usage(r basics.Round, a basics.Address, appAccts map[basics.Address]basics.AppIndex) hlUsage {
	var u hlUsage
	for k, h := range m.assetHold {
		if k.addr == a {
			if _, ok := h.at(r); ok {
				u.assets++
			}
		}
	}
	for k, h := range m.appParams {
		if k.addr == a {
			if p, ok := h.at(r); ok {
				u.appParams++
				u.extraPages += uint64(p.ExtraProgramPages)
				u.schema.NumUint += p.GlobalStateSchema.NumUint
				u.schema.NumByteSlice += p.GlobalStateSchema.NumByteSlice
			}
		}
	}
	for k, h := range m.appLocal {
		if k.addr == a {
			if l, ok := h.at(r); ok {
				u.appLocals++
				u.schema.NumUint += l.Schema.NumUint
				u.schema.NumByteSlice += l.Schema.NumByteSlice
			}
		}
	}
	if app, ok := appAccts[a]; ok {
		prefix := apps.MakeBoxKey(uint64(app), "")
		for _, k := range m.kvKeys(r, prefix) {
			v, _ := m.kv[k].at(r)
			u.boxes++
			u.boxBytes += uint64(len(k)-len(prefix)) + uint64(len(v))
		}
	}
	return u
}

// minBalance: independent statement of the minimum balance rule from the protocol constants.
func hlMinBalance(p config.ConsensusParams, u hlUsage) *big.Int {
	n := func(v uint64) *big.Int { return new(big.Int).SetUint64(v) }
	mul := func(a, b uint64) *big.Int { return new(big.Int).Mul(n(a), n(b)) }
	t := n(p.MinBalance)
	t.Add(t, mul(p.MinBalance, u.assets))
	t.Add(t, mul(p.AppFlatParamsMinBalance, u.appParams))
	t.Add(t, mul(p.AppFlatOptInMinBalance, u.appLocals))
	t.Add(t, mul(p.SchemaMinBalancePerEntry, u.schema.NumUint+u.schema.NumByteSlice))
	t.Add(t, mul(p.SchemaUintMinBalance, u.schema.NumUint))
	t.Add(t, mul(p.SchemaBytesMinBalance, u.schema.NumByteSlice))
	t.Add(t, mul(p.AppFlatParamsMinBalance, u.extraPages))
	t.Add(t, mul(p.BoxFlatMinBalance, u.boxes))
	t.Add(t, mul(p.BoxByteMinBalance, u.boxBytes))
	return t
}

func hlCountSchema(kv basics.TealKeyValue) basics.StateSchema {
	var s basics.StateSchema
	for _, v := range kv {
		if v.Type == basics.TealUintType {
			s.NumUint++
		} else {
			s.NumByteSlice++
		}
	}
	return s
}

// auditBlock checks the invariants on the state after block r for the accounts it modified.
func (s *hlSim) auditBlock(vb *ledgercore.ValidatedBlock) []hlFinding {
	m := s.m
	r := vb.Block().Round()
	proto := m.proto(r)
	var out []hlFinding
	add := func(key string, w map[string]any) {
		w["round"] = r
		w["config"] = s.cfg.String()
		out = append(out, hlFinding{key, w})
	}
	appAccts := m.appAccounts()
	d := vb.Delta()
	touched := map[basics.Address]bool{}
	for i := 0; i < d.Accts.Len(); i++ {
		a, _ := d.Accts.GetByIdx(i)
		touched[a] = true
	}
	for _, rec := range d.Accts.GetAllAssetResources() {
		touched[rec.Addr] = true
	}
	for _, rec := range d.Accts.GetAllAppResources() {
		touched[rec.Addr] = true
	}
	for k := range d.KvMods {
		if app, _, err := apps.SplitBoxKey(k); err == nil {
			touched[basics.AppIndex(app).Address()] = true
		}
	}
	addrs := make([]basics.Address, 0, len(touched))
	for a := range touched {
		addrs = append(addrs, a)
	}
	sort.Slice(addrs, func(i, j int) bool { return string(addrs[i][:]) < string(addrs[j][:]) })
	for _, a := range addrs {
		ad := m.acct(r, a)
		u := m.usage(r, a, appAccts)
		// C23: the account's storage counters equal what is actually stored
		if ad.TotalBoxes != u.boxes || ad.TotalBoxBytes != u.boxBytes {
			add("box-accounting", map[string]any{"addr": a.String(), "TotalBoxes": ad.TotalBoxes, "TotalBoxBytes": ad.TotalBoxBytes, "stored_boxes": u.boxes, "stored_bytes": u.boxBytes})
		}
		if ad.TotalAppSchema != u.schema {
			add("schema-totals", map[string]any{"addr": a.String(), "TotalAppSchema": ad.TotalAppSchema, "sum_over_apps": u.schema})
		}
		if ad.TotalAssets != u.assets || ad.TotalAppParams != u.appParams || ad.TotalAppLocalStates != u.appLocals || uint64(ad.TotalExtraAppPages) != u.extraPages {
			add("resource-counts", map[string]any{"addr": a.String(), "account": fmt.Sprintf("%+v", ad.AccountBaseData), "recount": fmt.Sprintf("%+v", u)})
		}
		// C21: not below the minimum balance (special accounts and closed accounts excepted)
		if a != s.u.sink && a != s.u.pool && !ad.IsZero() {
			min := hlMinBalance(proto, u)
			bal := new(big.Int).SetUint64(ad.MicroAlgos.Raw)
			s.c.Count("audit.minbalance_checked", 1)
			slack := new(big.Int).Sub(bal, min)
			if slack.Sign() >= 0 && slack.Cmp(big.NewInt(1000)) < 0 {
				s.c.Count("audit.within_1000_of_min", 1)
				s.c.Distinct(fmt.Sprintf("atmin|%d|%d|%d|%d|%d", u.assets, u.appParams, u.appLocals, u.boxes, u.schema.NumUint+u.schema.NumByteSlice))
			}
			if bal.Cmp(min) < 0 {
				add("below-min-balance", map[string]any{"addr": a.String(), "balance": ad.MicroAlgos.Raw, "min_balance": min.String(), "usage": fmt.Sprintf("%+v", u)})
			}
		}
	}
	// C23: stored state within schema
	for _, rec := range d.Accts.GetAllAppResources() {
		k := hlRes{rec.Addr, basics.CreatableIndex(rec.Aidx)}
		if p, ok := m.appParams[k].at(r); ok {
			have := hlCountSchema(p.GlobalState)
			s.c.Count("audit.schema_checked", 1)
			if have.NumUint > p.GlobalStateSchema.NumUint || have.NumByteSlice > p.GlobalStateSchema.NumByteSlice {
				add("global-exceeds-schema", map[string]any{"app": rec.Aidx, "have": have, "schema": p.GlobalStateSchema})
			}
			if have == p.GlobalStateSchema && have.NumUint+have.NumByteSlice > 0 {
				s.c.Count("audit.global_state_full", 1)
			}
		}
		if l, ok := m.appLocal[k].at(r); ok {
			have := hlCountSchema(l.KeyValue)
			s.c.Count("audit.schema_checked", 1)
			if have.NumUint > l.Schema.NumUint || have.NumByteSlice > l.Schema.NumByteSlice {
				add("local-exceeds-schema", map[string]any{"app": rec.Aidx, "addr": rec.Addr.String(), "have": have, "schema": l.Schema})
			}
		}
	}
	// C22: for every asset touched by this block: sum of holdings == total while the asset lives
	seenAsset := map[basics.CreatableIndex]bool{}
	for _, rec := range d.Accts.GetAllAssetResources() {
		idx := basics.CreatableIndex(rec.Aidx)
		if seenAsset[idx] {
			continue
		}
		seenAsset[idx] = true
		cr, live := m.creator(r, idx, basics.AssetCreatable)
		if !live {
			// destroyed: no holding of a destroyed asset may be created by this block, and the creator's is gone
			continue
		}
		params, _ := m.assetParams[hlRes{cr, idx}].at(r)
		sum := new(big.Int)
		for k, h := range m.assetHold {
			if k.idx == idx {
				if hold, ok := h.at(r); ok {
					sum.Add(sum, new(big.Int).SetUint64(hold.Amount))
				}
			}
		}
		s.c.Count("audit.asset_supply_checked", 1)
		if sum.Cmp(new(big.Int).SetUint64(params.Total)) != 0 {
			add("asset-supply", map[string]any{"asset": idx, "sum_of_holdings": sum.String(), "total": params.Total})
		}
	}
	// C18: money conservation: the sum over all accounts (with pending rewards at this round's level) is constant
	prev := m.supply(r - 1)
	cur := m.supply(r)
	s.c.Count("audit.supply_checked", 1)
	if prev.Cmp(cur) != 0 {
		add("supply-changed", map[string]any{"before": prev.String(), "after": cur.String(), "diff": new(big.Int).Sub(cur, prev).String(), "txns": len(vb.Block().Payset)})
	}
	return out
}

// supply is the sum over the closed address universe of balances including pending rewards at round r.
func (m *hlModel) supply(r basics.Round) *big.Int {
	sum := new(big.Int)
	unit := m.proto(r).RewardUnit
	level := m.hdrs[r].RewardsLevel
	for _, h := range m.accts {
		if d, ok := h.at(r); ok {
			sum.Add(sum, new(big.Int).SetUint64(hlWithRewards(d, unit, level).MicroAlgos.Raw))
		}
	}
	return sum
}

// hlOwned routes findings: classes owned by the running property are violations, others are
// recorded as observations (they belong to another property's check).
func (s *hlSim) report(findings []hlFinding, owned map[string]bool) {
	for _, f := range findings {
		f.W["trace"] = s.traceTail(20)
		if owned[f.Key] {
			s.c.Violation(f.Key, f.W)
		} else {
			s.c.Observation("anomaly owned by another property: %s %v", f.Key, f.W)
		}
	}
}
