package ledger

// HL transaction-history generator ("txgen"): produces valid and deliberately invalid
// transaction groups over a small universe, consulting the reference model for the current
// state so that most groups are meaningful (existing assets, opted-in holders, live apps, boxes).

import (
	"encoding/binary"
	"fmt"
	"sort"

	"github.com/algorand/avm-abi/apps"
	"github.com/algorand/go-algorand/crypto"
	"github.com/algorand/go-algorand/crypto/merklesignature"
	"github.com/algorand/go-algorand/data/basics"
	"github.com/algorand/go-algorand/data/transactions"
	"github.com/algorand/go-algorand/data/transactions/logic"
	"github.com/algorand/go-algorand/data/txntest"
	"github.com/algorand/go-algorand/ledger/eval"
	"github.com/algorand/go-algorand/protocol"
)

const hlAppSource = `#pragma version 10
txn ApplicationID
bz ok
txn OnCompletion
int NoOp
!=
bnz ok
txn NumAppArgs
bz ok
txna ApplicationArgs 0
byte "gput"
==
bnz gput
txna ApplicationArgs 0
byte "gputi"
==
bnz gputi
txna ApplicationArgs 0
byte "gdel"
==
bnz gdel
txna ApplicationArgs 0
byte "lput"
==
bnz lput
txna ApplicationArgs 0
byte "lputi"
==
bnz lputi
txna ApplicationArgs 0
byte "ldel"
==
bnz ldel
txna ApplicationArgs 0
byte "bcreate"
==
bnz bcreate
txna ApplicationArgs 0
byte "bdel"
==
bnz bdel
txna ApplicationArgs 0
byte "bput"
==
bnz bput
txna ApplicationArgs 0
byte "bresize"
==
bnz bresize
txna ApplicationArgs 0
byte "breplace"
==
bnz breplace
txna ApplicationArgs 0
byte "bcycle"
==
bnz bcycle
txna ApplicationArgs 0
byte "ipay"
==
bnz ipay
txna ApplicationArgs 0
byte "iclose"
==
bnz iclose
txna ApplicationArgs 0
byte "ipayfail"
==
bnz ipayfail
txna ApplicationArgs 0
byte "reject"
==
bnz reject
err
gput:
txna ApplicationArgs 1
txna ApplicationArgs 2
app_global_put
b ok
gputi:
txna ApplicationArgs 1
txna ApplicationArgs 2
btoi
app_global_put
b ok
gdel:
txna ApplicationArgs 1
app_global_del
b ok
lput:
txn Sender
txna ApplicationArgs 1
txna ApplicationArgs 2
app_local_put
b ok
lputi:
txn Sender
txna ApplicationArgs 1
txna ApplicationArgs 2
btoi
app_local_put
b ok
ldel:
txn Sender
txna ApplicationArgs 1
app_local_del
b ok
bcreate:
txna ApplicationArgs 1
txna ApplicationArgs 2
btoi
box_create
pop
b ok
bdel:
txna ApplicationArgs 1
box_del
pop
b ok
bput:
txna ApplicationArgs 1
txna ApplicationArgs 2
box_put
b ok
bresize:
txna ApplicationArgs 1
txna ApplicationArgs 2
btoi
box_resize
b ok
breplace:
txna ApplicationArgs 1
txna ApplicationArgs 2
btoi
txna ApplicationArgs 3
box_replace
b ok
bcycle:
txna ApplicationArgs 1
box_del
pop
txna ApplicationArgs 1
txna ApplicationArgs 2
box_put
b ok
ipay:
itxn_begin
int pay
itxn_field TypeEnum
txna Accounts 1
itxn_field Receiver
txna ApplicationArgs 1
btoi
itxn_field Amount
itxn_submit
b ok
iclose:
itxn_begin
int pay
itxn_field TypeEnum
txna Accounts 1
itxn_field Receiver
txna Accounts 1
itxn_field CloseRemainderTo
itxn_submit
b ok
ipayfail:
itxn_begin
int pay
itxn_field TypeEnum
txna Accounts 1
itxn_field Receiver
int 1
itxn_field Amount
itxn_submit
err
reject:
int 0
return
ok:
int 1
`

const hlClearSource = "#pragma version 10\nint 1\n"

var (
	hlAppProg   []byte
	hlClearProg []byte
)

func hlPrograms() ([]byte, []byte) {
	if hlAppProg == nil {
		ops, err := logic.AssembleString(hlAppSource)
		if err != nil {
			panic(fmt.Sprintf("hl app program: %v %v", err, ops.Errors))
		}
		hlAppProg = ops.Program
		ops, err = logic.AssembleString(hlClearSource)
		if err != nil {
			panic(err)
		}
		hlClearProg = ops.Program
	}
	return hlAppProg, hlClearProg
}

type hlGen struct {
	s       *hlSim
	weights map[string]int
	note    uint64
	boxName []string
	gkeys   []string
}

func hlNewGen(s *hlSim) *hlGen {
	hlPrograms()
	g := &hlGen{s: s}
	g.boxName = []string{"", "a", "a\x00", "a\xff", "ab", "abc", "b", "box1", "box2", string(make([]byte, 64))}
	g.gkeys = []string{"k0", "k1", "k2", "k3", "k4", "k5"}
	g.weights = hlProfile(s.cfg.Profile)
	return g
}

// hlProfile returns operation weights; profiles tilt the mix toward what a property needs.
func hlProfile(name string) map[string]int {
	w := map[string]int{
		"pay": 20, "payclose": 3, "paynew": 5, "payinvalid": 3,
		"keyreg":  6,
		"acreate": 4, "aoptin": 6, "axfer": 8, "aclose": 3, "afreeze": 2, "aclawback": 2, "adestroy": 2, "aconfig": 2, "ainvalid": 3,
		"appcreate": 3, "appoptin": 4, "appcall": 14, "appclose": 2, "appclear": 1, "appdelete": 1, "appupdate": 1, "appfund": 3,
		"box": 10, "inner": 4, "appfail": 3,
		"group": 6, "badgroup": 2, "replay": 3, "lease": 3, "rekey": 2,
	}
	switch name {
	case "assets":
		for _, k := range []string{"acreate", "aoptin", "axfer", "aclose", "afreeze", "aclawback", "adestroy", "aconfig", "ainvalid"} {
			w[k] *= 4
		}
		w["aclosegroup"] = 10 // only here: the other profiles' PRNG streams stay as they were
	case "apps":
		for _, k := range []string{"appcreate", "appoptin", "appcall", "appclose", "appclear", "appdelete", "appupdate", "appfund", "box", "inner", "appfail"} {
			w[k] *= 4
		}
	case "status":
		w["keyreg"] *= 8
		w["payclose"] *= 4
		w["paynew"] *= 3
	case "money":
		w["pay"] *= 2
		w["payclose"] *= 5
		w["inner"] *= 4
		w["keyreg"] *= 3
	case "dup":
		w["replay"] *= 10
		w["lease"] *= 10
	}
	return w
}

func (g *hlGen) groupsPerBlock() int {
	switch g.s.r.Intn(10) {
	case 0:
		return 0
	case 1:
		return g.s.r.Range(12, 30)
	default:
		return g.s.r.Range(1, 8)
	}
}

func (g *hlGen) nextNote() []byte {
	g.note++
	b := make([]byte, 8)
	binary.BigEndian.PutUint64(b, g.note)
	return b
}

func (g *hlGen) anyKeyed() basics.Address { return g.s.u.keyed[g.s.r.Intn(len(g.s.u.keyed))] }

// funded returns a random address that currently has money (keyed or formerly fresh).
func (g *hlGen) funded() basics.Address {
	m, rnd := g.s.m, g.s.m.latest
	for tries := 0; tries < 8; tries++ {
		var a basics.Address
		if g.s.r.Chance(1, 5) {
			a = g.s.u.fresh[g.s.r.Intn(len(g.s.u.fresh))]
		} else {
			a = g.anyKeyed()
		}
		if m.acct(rnd, a).MicroAlgos.Raw > 1_000_000 {
			return a
		}
	}
	return g.s.u.keyed[0]
}

func (g *hlGen) anyAddr() basics.Address {
	switch g.s.r.Intn(10) {
	case 0:
		return g.s.u.fresh[g.s.r.Intn(len(g.s.u.fresh))]
	case 1:
		return g.s.u.sink
	default:
		return g.anyKeyed()
	}
}

type hlAssetInfo struct {
	idx     basics.AssetIndex
	creator basics.Address
	params  basics.AssetParams
}

func (g *hlGen) liveAssets() []hlAssetInfo {
	m, rnd := g.s.m, g.s.m.latest
	var out []hlAssetInfo
	for idx, h := range m.creators {
		c, ok := h.at(rnd)
		if !ok || c.ctype != basics.AssetCreatable {
			continue
		}
		p, _ := m.assetParams[hlRes{c.addr, idx}].at(rnd)
		out = append(out, hlAssetInfo{basics.AssetIndex(idx), c.addr, p})
	}
	sort.Slice(out, func(i, j int) bool { return out[i].idx < out[j].idx })
	return out
}

type hlAppInfo struct {
	idx     basics.AppIndex
	creator basics.Address
}

func (g *hlGen) liveApps() []hlAppInfo {
	m, rnd := g.s.m, g.s.m.latest
	var out []hlAppInfo
	for idx, h := range m.creators {
		c, ok := h.at(rnd)
		if !ok || c.ctype != basics.AppCreatable {
			continue
		}
		out = append(out, hlAppInfo{basics.AppIndex(idx), c.addr})
	}
	sort.Slice(out, func(i, j int) bool { return out[i].idx < out[j].idx })
	return out
}

func (g *hlGen) holders(a basics.AssetIndex) []basics.Address {
	m, rnd := g.s.m, g.s.m.latest
	var out []basics.Address
	for _, addr := range m.addresses() {
		if _, ok := m.assetHold[hlRes{addr, basics.CreatableIndex(a)}].at(rnd); ok {
			out = append(out, addr)
		}
	}
	return out
}

func (g *hlGen) optedIn(app basics.AppIndex) []basics.Address {
	m, rnd := g.s.m, g.s.m.latest
	var out []basics.Address
	for _, addr := range m.addresses() {
		if _, ok := m.appLocal[hlRes{addr, basics.CreatableIndex(app)}].at(rnd); ok {
			out = append(out, addr)
		}
	}
	return out
}

func (g *hlGen) boxesOf(app basics.AppIndex) []string {
	prefix := apps.MakeBoxKey(uint64(app), "")
	keys := g.s.m.kvKeys(g.s.m.latest, prefix)
	out := make([]string, len(keys))
	for i, k := range keys {
		out[i] = k[len(prefix):]
	}
	return out
}

func (g *hlGen) pickKind() string {
	names := make([]string, 0, len(g.weights))
	for k := range g.weights {
		names = append(names, k)
	}
	sort.Strings(names)
	w := make([]int, len(names))
	for i, k := range names {
		w[i] = g.weights[k]
	}
	return names[g.s.r.Pick(w)]
}

// offerRandom builds one PRNG-chosen group and offers it to the evaluator.
func (g *hlGen) offerRandom(ev *eval.BlockEvaluator) {
	kind := g.pickKind()
	txns := g.build(kind, ev)
	if len(txns) == 0 {
		return
	}
	if kind == "badgroup" || kind == "replay" {
		return // those kinds offer pre-signed groups themselves
	}
	g.s.offer(ev, kind, txns...)
}

func (g *hlGen) amount(bal uint64) uint64 {
	r := g.s.r
	switch r.Intn(8) {
	case 0:
		return 0
	case 1:
		return 1
	case 2:
		return 100_000
	case 3:
		return 99_999
	case 4:
		if bal > 101_000 {
			return bal - 101_000 // leaves exactly min balance (minus fee) in the simplest case
		}
		return bal
	case 5:
		return bal // overspend (fee on top)
	default:
		return r.Uint64n(bal/4 + 1)
	}
}

func u64(v uint64) []byte {
	b := make([]byte, 8)
	binary.BigEndian.PutUint64(b, v)
	return b
}

func (g *hlGen) build(kind string, ev *eval.BlockEvaluator) []*txntest.Txn {
	s, r, m := g.s, g.s.r, g.s.m
	rnd := m.latest
	approval, clear := hlPrograms()
	one := func(t txntest.Txn) []*txntest.Txn { t.Note = g.nextNote(); return []*txntest.Txn{&t} }
	switch kind {
	case "pay":
		snd := g.funded()
		return one(txntest.Txn{Type: protocol.PaymentTx, Sender: snd, Receiver: g.anyAddr(), Amount: g.amount(m.acct(rnd, snd).MicroAlgos.Raw)})
	case "paynew":
		snd := g.funded()
		amt := []uint64{100_000, 99_999, 1_000_000, 100_001, 5_000_000}[r.Intn(5)]
		return one(txntest.Txn{Type: protocol.PaymentTx, Sender: snd, Receiver: s.u.fresh[r.Intn(len(s.u.fresh))], Amount: amt})
	case "payclose":
		// close a small account (a formerly fresh one, or rarely a keyed one) to someone
		var snd basics.Address
		if r.Chance(4, 5) {
			snd = s.u.fresh[r.Intn(len(s.u.fresh))]
		} else {
			snd = g.anyKeyed()
		}
		if m.acct(rnd, snd).MicroAlgos.Raw == 0 {
			return nil
		}
		closeTo := g.anyAddr()
		if r.Chance(1, 10) {
			closeTo = snd // invalid: self close
		}
		return one(txntest.Txn{Type: protocol.PaymentTx, Sender: snd, Receiver: g.anyAddr(), Amount: r.Uint64n(1000), CloseRemainderTo: closeTo})
	case "payinvalid":
		snd := g.funded()
		t := txntest.Txn{Type: protocol.PaymentTx, Sender: snd, Receiver: g.anyAddr(), Amount: 1}
		switch r.Intn(4) {
		case 0:
			t.FirstValid = ev.Round() + 1 // not yet valid
		case 1:
			t.FirstValid = 1
			t.LastValid = 1 // dead (unless round 1)
		case 2:
			t.Fee = 1 // below min fee
		case 3:
			t.Sender = s.u.fresh[r.Intn(len(s.u.fresh))] // possibly empty account
			t.Amount = 10_000_000_000
		}
		return one(t)
	case "keyreg":
		snd := g.anyKeyed()
		t := txntest.Txn{Type: protocol.KeyRegistrationTx, Sender: snd}
		switch r.Intn(6) {
		case 0: // go offline
		case 1: // nonparticipating (irreversible) – rare
			if !r.Chance(1, 6) {
				return nil
			}
			t.Nonparticipation = true
		default:
			r.Fill(t.VotePK[:])
			r.Fill(t.SelectionPK[:])
			var spk merklesignature.Commitment
			r.Fill(spk[:])
			t.StateProofPK = spk
			t.VoteFirst = ev.Round()
			if r.Chance(1, 4) {
				t.VoteFirst = ev.Round() + basics.Round(r.Intn(3))
			}
			t.VoteLast = t.VoteFirst + basics.Round(r.Range(1, hlMaxVoteKeyLength))
			t.VoteKeyDilution = uint64(r.Range(1, 100))
			if r.Chance(1, 2) {
				t.Fee = 2_000_000 // incentive eligibility fee
			}
		}
		return one(t)
	case "acreate":
		snd := g.funded()
		total := []uint64{1, 1000, 1_000_000, ^uint64(0)}[r.Intn(4)]
		p := basics.AssetParams{Total: total, Decimals: uint32(r.Intn(4)), DefaultFrozen: r.Chance(1, 5), UnitName: "u", AssetName: fmt.Sprintf("asset%d", g.note)}
		if !r.Chance(1, 6) {
			p.Manager = g.anyKeyed()
			p.Reserve = g.anyKeyed()
			p.Freeze = g.anyKeyed()
			p.Clawback = g.anyKeyed()
		}
		return one(txntest.Txn{Type: protocol.AssetConfigTx, Sender: snd, AssetParams: p})
	case "aoptin":
		as := g.liveAssets()
		if len(as) == 0 {
			return nil
		}
		a := as[r.Intn(len(as))]
		snd := g.funded()
		return one(txntest.Txn{Type: protocol.AssetTransferTx, Sender: snd, XferAsset: a.idx, AssetReceiver: snd})
	case "axfer", "ainvalid":
		as := g.liveAssets()
		if len(as) == 0 {
			return nil
		}
		a := as[r.Intn(len(as))]
		hs := g.holders(a.idx)
		if len(hs) == 0 {
			return nil
		}
		snd := hs[r.Intn(len(hs))]
		if r.Bool() {
			// prefer a holder that actually has units, so that non-zero movements happen
			var rich []basics.Address
			for _, ha := range hs {
				if hh, ok := m.assetHold[hlRes{ha, basics.CreatableIndex(a.idx)}].at(rnd); ok && hh.Amount > 0 {
					rich = append(rich, ha)
				}
			}
			if len(rich) > 0 {
				snd = rich[r.Intn(len(rich))]
			}
		}
		rcv := hs[r.Intn(len(hs))]
		if kind == "ainvalid" || r.Chance(1, 8) {
			rcv = g.anyAddr() // possibly not opted in
		}
		h, _ := m.assetHold[hlRes{snd, basics.CreatableIndex(a.idx)}].at(rnd)
		amt := []uint64{0, 1, h.Amount, h.Amount + 1, h.Amount / 2}[r.Intn(5)]
		if kind == "ainvalid" && r.Bool() {
			amt = h.Amount + 1 + r.Uint64n(5)
		}
		return one(txntest.Txn{Type: protocol.AssetTransferTx, Sender: snd, XferAsset: a.idx, AssetReceiver: rcv, AssetAmount: amt})
	case "aclose":
		as := g.liveAssets()
		if len(as) == 0 {
			return nil
		}
		a := as[r.Intn(len(as))]
		hs := g.holders(a.idx)
		if len(hs) == 0 {
			return nil
		}
		snd := hs[r.Intn(len(hs))]
		closeTo := hs[r.Intn(len(hs))]
		if r.Chance(1, 3) {
			closeTo = a.creator
		}
		return one(txntest.Txn{Type: protocol.AssetTransferTx, Sender: snd, XferAsset: a.idx, AssetReceiver: closeTo, AssetAmount: r.Uint64n(2), AssetCloseTo: closeTo})
	case "afreeze":
		as := g.liveAssets()
		if len(as) == 0 {
			return nil
		}
		a := as[r.Intn(len(as))]
		hs := g.holders(a.idx)
		if len(hs) == 0 {
			return nil
		}
		snd := a.params.Freeze
		if r.Chance(1, 6) || snd.IsZero() {
			snd = g.anyKeyed() // likely unauthorized
		}
		return one(txntest.Txn{Type: protocol.AssetFreezeTx, Sender: snd, FreezeAsset: a.idx, FreezeAccount: hs[r.Intn(len(hs))], AssetFrozen: r.Bool()})
	case "aclawback":
		as := g.liveAssets()
		if len(as) == 0 {
			return nil
		}
		a := as[r.Intn(len(as))]
		hs := g.holders(a.idx)
		if len(hs) < 1 {
			return nil
		}
		snd := a.params.Clawback
		if r.Chance(1, 6) || snd.IsZero() {
			snd = g.anyKeyed()
		}
		from := hs[r.Intn(len(hs))]
		h, _ := m.assetHold[hlRes{from, basics.CreatableIndex(a.idx)}].at(rnd)
		return one(txntest.Txn{Type: protocol.AssetTransferTx, Sender: snd, XferAsset: a.idx, AssetSender: from, AssetReceiver: hs[r.Intn(len(hs))], AssetAmount: []uint64{0, 1, h.Amount, h.Amount + 1}[r.Intn(4)]})
	case "adestroy":
		as := g.liveAssets()
		if len(as) == 0 {
			return nil
		}
		a := as[r.Intn(len(as))]
		snd := a.params.Manager
		if snd.IsZero() || r.Chance(1, 6) {
			snd = g.anyKeyed()
		}
		return one(txntest.Txn{Type: protocol.AssetConfigTx, Sender: snd, ConfigAsset: a.idx})
	case "aconfig":
		as := g.liveAssets()
		if len(as) == 0 {
			return nil
		}
		a := as[r.Intn(len(as))]
		snd := a.params.Manager
		if snd.IsZero() || r.Chance(1, 6) {
			snd = g.anyKeyed()
		}
		p := basics.AssetParams{Manager: a.params.Manager, Reserve: g.anyKeyed(), Freeze: a.params.Freeze, Clawback: a.params.Clawback}
		if r.Chance(1, 4) {
			p.Freeze = basics.Address{}
		}
		if r.Chance(1, 4) {
			p.Clawback = basics.Address{}
		}
		return one(txntest.Txn{Type: protocol.AssetConfigTx, Sender: snd, ConfigAsset: a.idx, AssetParams: p})
	case "appcreate":
		if len(g.liveApps()) >= 5 {
			return nil
		}
		snd := g.funded()
		t := txntest.Txn{Type: protocol.ApplicationCallTx, Sender: snd, ApprovalProgram: approval, ClearStateProgram: clear,
			GlobalStateSchema: basics.StateSchema{NumUint: uint64(r.Intn(3)), NumByteSlice: uint64(r.Intn(4))},
			LocalStateSchema:  basics.StateSchema{NumUint: uint64(r.Intn(2)), NumByteSlice: uint64(r.Intn(3))}}
		if r.Chance(1, 4) {
			t.ExtraProgramPages = uint32(r.Intn(3))
		}
		return one(t)
	case "appfund":
		apps := g.liveApps()
		if len(apps) == 0 {
			return nil
		}
		a := apps[r.Intn(len(apps))]
		return one(txntest.Txn{Type: protocol.PaymentTx, Sender: g.funded(), Receiver: a.idx.Address(), Amount: []uint64{100_000, 500_000, 2_000_000}[r.Intn(3)]})
	case "appoptin", "appclose", "appclear", "appdelete", "appupdate":
		apps := g.liveApps()
		if len(apps) == 0 {
			return nil
		}
		a := apps[r.Intn(len(apps))]
		t := txntest.Txn{Type: protocol.ApplicationCallTx, ApplicationID: a.idx, Sender: g.funded()}
		switch kind {
		case "appoptin":
			t.OnCompletion = transactions.OptInOC
		case "appclose", "appclear":
			if oi := g.optedIn(a.idx); len(oi) > 0 && !r.Chance(1, 8) {
				t.Sender = oi[r.Intn(len(oi))]
			}
			t.OnCompletion = transactions.CloseOutOC
			if kind == "appclear" {
				t.OnCompletion = transactions.ClearStateOC
			}
		case "appdelete":
			if !r.Chance(1, 3) {
				return nil
			}
			t.OnCompletion = transactions.DeleteApplicationOC
		case "appupdate":
			t.OnCompletion = transactions.UpdateApplicationOC
			t.ApprovalProgram = approval
			t.ClearStateProgram = clear
		}
		return one(t)
	case "appcall", "appfail":
		apps := g.liveApps()
		if len(apps) == 0 {
			return nil
		}
		a := apps[r.Intn(len(apps))]
		t := txntest.Txn{Type: protocol.ApplicationCallTx, ApplicationID: a.idx, Sender: g.funded()}
		key := g.gkeys[r.Intn(len(g.gkeys))]
		if kind == "appfail" {
			t.ApplicationArgs = [][]byte{[]byte([]string{"reject", "nosuchop", "ipayfail"}[r.Intn(3)])}
			t.Accounts = []basics.Address{g.anyKeyed()}
			t.Fee = 2000
			return one(t)
		}
		switch r.Intn(6) {
		case 0:
			t.ApplicationArgs = [][]byte{[]byte("gput"), []byte(key), r.Bytes(r.Intn(20))}
		case 1:
			t.ApplicationArgs = [][]byte{[]byte("gputi"), []byte(key), u64(r.Uint64n(1000))}
		case 2:
			t.ApplicationArgs = [][]byte{[]byte("gdel"), []byte(key)}
		default:
			oi := g.optedIn(a.idx)
			if len(oi) > 0 && !r.Chance(1, 8) {
				t.Sender = oi[r.Intn(len(oi))]
			}
			switch r.Intn(3) {
			case 0:
				t.ApplicationArgs = [][]byte{[]byte("lput"), []byte(key), r.Bytes(r.Intn(20))}
			case 1:
				t.ApplicationArgs = [][]byte{[]byte("lputi"), []byte(key), u64(r.Uint64n(1000))}
			case 2:
				t.ApplicationArgs = [][]byte{[]byte("ldel"), []byte(key)}
			}
		}
		return one(t)
	case "box":
		apps := g.liveApps()
		if len(apps) == 0 {
			return nil
		}
		a := apps[r.Intn(len(apps))]
		name := g.boxName[r.Intn(len(g.boxName))]
		existing := g.boxesOf(a.idx)
		if len(existing) > 0 && r.Chance(1, 2) {
			name = existing[r.Intn(len(existing))]
		}
		if name == "" {
			name = "z" // empty box names are not legal
		}
		t := txntest.Txn{Type: protocol.ApplicationCallTx, ApplicationID: a.idx, Sender: g.funded(), Boxes: []transactions.BoxRef{{Index: 0, Name: []byte(name)}}}
		switch r.Intn(7) {
		case 0:
			t.ApplicationArgs = [][]byte{[]byte("bcreate"), []byte(name), u64(uint64([]int{0, 1, 8, 64, 200}[r.Intn(5)]))}
		case 1:
			t.ApplicationArgs = [][]byte{[]byte("bdel"), []byte(name)}
		case 2:
			t.ApplicationArgs = [][]byte{[]byte("bput"), []byte(name), r.Bytes([]int{0, 1, 8, 64, 200}[r.Intn(5)])}
		case 3:
			t.ApplicationArgs = [][]byte{[]byte("bresize"), []byte(name), u64(uint64([]int{0, 1, 8, 64, 300}[r.Intn(5)]))}
		case 4:
			t.ApplicationArgs = [][]byte{[]byte("breplace"), []byte(name), u64(uint64(r.Intn(4))), r.Bytes(r.Intn(5))}
		case 5:
			t.ApplicationArgs = [][]byte{[]byte("bcycle"), []byte(name), r.Bytes([]int{0, 1, 8, 64}[r.Intn(4)])}
		default:
			t.ApplicationArgs = [][]byte{[]byte("bcreate"), []byte(name), u64(uint64(r.Intn(40)))}
		}
		return one(t)
	case "inner":
		apps := g.liveApps()
		if len(apps) == 0 {
			return nil
		}
		a := apps[r.Intn(len(apps))]
		bal := m.acct(rnd, a.idx.Address()).MicroAlgos.Raw
		t := txntest.Txn{Type: protocol.ApplicationCallTx, ApplicationID: a.idx, Sender: g.funded(), Fee: 2000, Accounts: []basics.Address{g.anyAddr()}}
		switch {
		case r.Chance(1, 8):
			t.ApplicationArgs = [][]byte{[]byte("iclose")}
		case r.Chance(1, 3):
			// spend the app account down to exactly the minimum balance the LEDGER believes it has (from the
			// account's own counters), or one microAlgo below it (must be refused)
			ad := m.acct(rnd, a.idx.Address())
			p := ev.ConsensusParams()
			minb := ad.MinBalance(&p).Raw
			amt := uint64(0)
			if bal > minb {
				amt = bal - minb
			}
			if r.Chance(1, 4) {
				amt++
			}
			t.ApplicationArgs = [][]byte{[]byte("ipay"), u64(amt)}
		default:
			t.ApplicationArgs = [][]byte{[]byte("ipay"), u64(g.amount(bal))}
		}
		return one(t)
	case "rekey":
		snd := g.funded()
		to := g.anyKeyed()
		if r.Chance(1, 3) {
			to = snd // rekey back to self
		}
		return one(txntest.Txn{Type: protocol.PaymentTx, Sender: snd, Receiver: snd, Amount: 0, RekeyTo: to})
	case "lease":
		snd := g.funded()
		var lease [32]byte
		lease[0] = byte(1 + r.Intn(3))
		t := txntest.Txn{Type: protocol.PaymentTx, Sender: snd, Receiver: g.anyAddr(), Amount: 1, Lease: lease}
		t.FirstValid = ev.Round()
		t.LastValid = ev.Round() + basics.Round(r.Intn(4))
		if r.Chance(1, 3) {
			// long leases stay active across commits and restarts
			t.LastValid = ev.Round() + basics.Round(ev.ConsensusParams().MaxTxnLife) - basics.Round(r.Intn(3))
		}
		return one(t)
	case "group":
		n := r.Range(2, 5)
		var out []*txntest.Txn
		for i := 0; i < n; i++ {
			k := []string{"pay", "pay", "axfer", "appcall", "box", "aoptin", "paynew", "inner", "keyreg"}[r.Intn(9)]
			sub := g.build(k, ev)
			out = append(out, sub...)
		}
		if len(out) < 2 {
			return nil
		}
		return out
	case "aclosegroup":
		// one atomic group in which a holder closes its holding out and a LATER member of the same
		// group touches that (now absent) holding again: spends from it, receives into it, is clawed
		// back from, or opts in again first (the only legal continuation)
		as := g.liveAssets()
		if len(as) == 0 {
			return nil
		}
		a := as[r.Intn(len(as))]
		var hs []basics.Address
		for _, ha := range g.holders(a.idx) {
			if ha != a.creator {
				hs = append(hs, ha)
			}
		}
		if len(hs) == 0 {
			return nil
		}
		snd := hs[r.Intn(len(hs))]
		h, _ := m.assetHold[hlRes{snd, basics.CreatableIndex(a.idx)}].at(rnd)
		closeTo := a.creator
		if len(hs) > 1 && r.Bool() {
			closeTo = hs[r.Intn(len(hs))]
		}
		other := a.creator
		if len(hs) > 1 && r.Bool() {
			other = hs[r.Intn(len(hs))]
		}
		mk := func(t txntest.Txn) *txntest.Txn { t.Note = g.nextNote(); return &t }
		out := []*txntest.Txn{mk(txntest.Txn{Type: protocol.AssetTransferTx, Sender: snd, XferAsset: a.idx, AssetReceiver: closeTo, AssetAmount: 0, AssetCloseTo: closeTo})}
		if r.Chance(1, 3) {
			out = append(out, mk(txntest.Txn{Type: protocol.PaymentTx, Sender: g.funded(), Receiver: g.anyAddr(), Amount: 1}))
		}
		switch r.Intn(5) {
		case 0: // spend from the closed holding
			out = append(out, mk(txntest.Txn{Type: protocol.AssetTransferTx, Sender: snd, XferAsset: a.idx, AssetReceiver: other, AssetAmount: []uint64{0, 1, h.Amount}[r.Intn(3)]}))
		case 1: // receive into the closed holding
			out = append(out, mk(txntest.Txn{Type: protocol.AssetTransferTx, Sender: other, XferAsset: a.idx, AssetReceiver: snd, AssetAmount: uint64(r.Intn(2))}))
		case 2: // clawback from the closed holding
			cb := a.params.Clawback
			if cb.IsZero() {
				cb = g.anyKeyed()
			}
			out = append(out, mk(txntest.Txn{Type: protocol.AssetTransferTx, Sender: cb, XferAsset: a.idx, AssetSender: snd, AssetReceiver: other, AssetAmount: []uint64{0, 1, h.Amount}[r.Intn(3)]}))
		case 3: // close it out a second time
			out = append(out, mk(txntest.Txn{Type: protocol.AssetTransferTx, Sender: snd, XferAsset: a.idx, AssetReceiver: other, AssetAmount: 0, AssetCloseTo: other}))
		default: // legal: opt in again, then receive
			out = append(out, mk(txntest.Txn{Type: protocol.AssetTransferTx, Sender: snd, XferAsset: a.idx, AssetReceiver: snd}))
			out = append(out, mk(txntest.Txn{Type: protocol.AssetTransferTx, Sender: other, XferAsset: a.idx, AssetReceiver: snd, AssetAmount: uint64(r.Intn(2))}))
		}
		return out
	case "badgroup":
		// a group whose ids are wrong: built, then one member altered after the group id was computed
		a := g.build("pay", ev)
		b := g.build("pay", ev)
		if len(a) == 0 || len(b) == 0 {
			return nil
		}
		txns := []*txntest.Txn{a[0], b[0]}
		proto := ev.ConsensusParams()
		for _, tx := range txns {
			tx.GenesisHash = s.l.GenesisHash()
			tx.FirstValid = ev.Round()
			tx.FillDefaults(proto)
		}
		stx := txntest.Group(txns...)
		switch r.Intn(3) {
		case 0:
			stx[1].Txn.Amount.Raw++ // altered after grouping
		case 1:
			stx[0], stx[1] = stx[1], stx[0] // reordered
		case 2:
			stx = stx[:1] // dropped member, group id kept
		}
		s.offerSigned(ev, "badgroup", stx)
		return txns
	case "replay":
		// re-submit a transaction that is already in a committed block
		if len(m.txids) == 0 {
			return nil
		}
		back := basics.Round(r.Range(0, 14))
		if back >= rnd {
			return nil
		}
		blk, err := s.l.Block(rnd - back)
		if err != nil || len(blk.Payset) == 0 {
			return nil
		}
		txib := blk.Payset[r.Intn(len(blk.Payset))]
		stxn, _, err := blk.DecodeSignedTxn(txib)
		if err != nil {
			return nil
		}
		if !stxn.Txn.Group.IsZero() {
			return nil
		}
		err = s.offerSigned(ev, "replay", []transactions.SignedTxn{stxn})
		if err == nil {
			w := map[string]any{"txid": stxn.ID().String(), "committed_round": m.txids[stxn.ID()], "offered_at": ev.Round(), "first": stxn.Txn.FirstValid, "last": stxn.Txn.LastValid, "trace": s.traceTail(20)}
			if s.c.Prop == "C11" {
				s.c.Violation("replay-accepted", w)
			} else {
				s.c.Observation("anomaly owned by C11: replay-accepted %v", w)
			}
		}
		return []*txntest.Txn{{}}
	}
	return nil
}

var _ = crypto.Digest{}
