package ledger

// Concurrent-reader parts for C10 (listings), C12 (totals) and C13 (online stake): the same oracles
// as the sequential parts, but asked by reader goroutines WHILE the writer adds blocks, forces tracker
// commits, reloads and reopens, with hook-injected delays in the lock-release→DB-read windows.
// (Schedules are part of those properties' quantifiers.) Reuses c08Shared / c08ArmHooks.

import (
	"fmt"
	"math/big"
	"sort"
	"sync"
	"sync/atomic"
	"testing"
	"time"

	"github.com/algorand/avm-abi/apps"
	"github.com/algorand/go-algorand/data/basics"
	"github.com/algorand/go-algorand/util/verifhook"
	"verif.local/kit"
)

type cconcReader func(sh *c08Shared, c *kit.Ctx, r *kit.Rand)

func cconcRun(t *testing.T, prop, part, profile, rule string, stream uint64, reader cconcReader, require map[string]int64) {
	c := kit.Start(t, prop, part)
	defer c.Finish()
	c.Rule(rule)
	c.Assume("readers only judge answers for rounds the model already contains; an error is accepted only when the round left the served window during the call")
	nh := c.N(2, 24)
	blocks := c.N(60, 200)
	for h := 0; h < nh && c.Violations() < 5; h++ {
		r := c.Rand(stream, uint64(h))
		cfg := hlRandomConfig(r)
		cfg.Profile = profile
		verifhook.Reset()
		c08ArmHooks(r)
		var n atomic.Uint64
		slow := func(string, uint64) {
			if n.Add(1)%3 == 0 {
				time.Sleep(time.Duration(100+n.Load()%400) * time.Microsecond)
			}
		}
		for _, p := range []string{"ledger.au.lookupAssetResources.beforeDB", "ledger.au.lookupApplicationResources.beforeDB", "ledger.au.lookupKvPairsByPrefix.beforeDB", "ledger.ao.lookupOnlineAccountData.beforeDB", "ledger.ao.topOnlineAccounts.beforeDB"} {
			verifhook.Set(p, slow)
		}
		s := hlNewSim(t, c, r, cfg)
		sh := &c08Shared{s: s}
		nReaders := r.Range(3, 6)
		var wg sync.WaitGroup
		var done atomic.Uint64
		for i := 0; i < nReaders; i++ {
			wg.Add(1)
			rr := c.Rand(stream, uint64(h), uint64(1000+i))
			go func() {
				defer wg.Done()
				for !sh.stop.Load() {
					sh.gate.RLock()
					reader(sh, c, rr)
					sh.gate.RUnlock()
					done.Add(1)
				}
			}()
		}
		for b := 0; b < blocks; b++ {
			sh.modelMu.Lock()
			s.step()
			sh.latest.Store(uint64(s.m.latest))
			sh.modelMu.Unlock()
			act := s.r.Pick([]int{40, 15, 22, 5, 6, 4, 8})
			switch act {
			case 5:
				sh.gate.Lock()
				s.reopen()
				sh.gate.Unlock()
			case 4:
				s.reload()
			case 2:
				s.flush()
			case 3:
				s.settle()
				s.l.FlushCaches()
			case 1:
				s.waitBlockQueue()
			case 6:
				s.settle()
			}
			c.Count("schedule."+[]string{"none", "wait-bq", "flush", "flush-caches", "reload", "reopen", "settle"}[act], 1)
			target := done.Load() + uint64(nReaders*4)
			for spin := 0; done.Load() < target && spin < 2000; spin++ {
				time.Sleep(50 * time.Microsecond)
			}
		}
		sh.stop.Store(true)
		wg.Wait()
		for k, v := range verifhook.Counts() {
			c.Count("hook."+k, int(v))
		}
		for k, v := range s.stats {
			c.Count("gen."+k, v)
		}
		if h < 2 {
			c.Sample(map[string]any{"history": h, "config": cfg.String(), "blocks": blocks, "readers": nReaders, "trace_tail": s.traceTail(6)})
		}
		s.close()
		verifhook.Reset()
	}
	for k, v := range require {
		c.Require(k, v)
	}
}

// ---- C12: Totals(rnd) under concurrency ------------------------------------------------------------

func TestVerifC12Concurrent(t *testing.T) {
	cconcRun(t, "C12", "concurrent", "status",
		"reader goroutines ask Totals(rnd) for rounds in [dbRound, latest] while the writer adds blocks (status-changing history), forces commits, reloads and reopens; every answer is compared with the sums recomputed over the closed address universe from the reference model; distinct = distinct (latest−dbRound gap, queried offset) pairs",
		112, func(sh *c08Shared, c *kit.Ctx, r *kit.Rand) {
			s := sh.s
			l := s.l
			latest := basics.Round(sh.latest.Load())
			db := l.LatestTrackerCommitted()
			if db > latest {
				return
			}
			rnd := db + basics.Round(r.Uint64n(uint64(latest-db)+1))
			got, err := l.Totals(rnd)
			sh.modelMu.RLock()
			want := s.m.totals(rnd)
			sh.modelMu.RUnlock()
			c.Eval(1)
			c.Count("cconc.totals", 1)
			c.Distinct(fmt.Sprintf("gap%d|off%d", min(int(latest-db), 20), min(int(rnd-db), 20)))
			if err != nil {
				if rnd < l.LatestTrackerCommitted() {
					c.Count("cconc.round_left_window", 1)
					return
				}
				c.Violation("totals-vs-sum", map[string]any{"round": rnd, "error": err.Error(), "dbRound_before": db, "dbRound_after": l.LatestTrackerCommitted(), "latest": latest, "trace": s.traceTail(20)})
				return
			}
			if got != want {
				c.Violation("totals-vs-sum", map[string]any{"round": rnd, "latest": latest, "dbRound_before": db, "ledger": fmt.Sprintf("%+v", got), "sum_over_accounts": fmt.Sprintf("%+v", want), "config": s.cfg.String(), "trace": s.traceTail(20)})
			}
		}, map[string]int64{"cconc.totals": 500, "schedule.flush": 3})
}

// ---- C13: online stake under concurrency ----------------------------------------------------------------

func TestVerifC13Concurrent(t *testing.T) {
	cconcRun(t, "C13", "concurrent", "status",
		"reader goroutines ask LookupAgreement(rnd, addr) and OnlineCirculation(rnd, voteRnd) for rounds in [latest−MaxBalLookback, latest] while the writer adds blocks (keyreg/expiry-heavy history), forces commits, reloads and reopens, with delays injected before the online-account DB reads; answers compared with the reference model; distinct = distinct (round location, gap) pairs",
		113, func(sh *c08Shared, c *kit.Ctx, r *kit.Rand) {
			s := sh.s
			l := s.l
			latest := basics.Round(sh.latest.Load())
			sh.modelMu.RLock()
			p := s.m.proto(latest)
			sh.modelMu.RUnlock()
			lo := basics.Round(0)
			if uint64(latest) > p.MaxBalLookback {
				lo = latest - basics.Round(p.MaxBalLookback)
			}
			rnd := lo + basics.Round(r.Uint64n(uint64(latest-lo)+1))
			db := l.LatestTrackerCommitted()
			loc := "memory"
			if rnd < db {
				loc = "history"
			} else if rnd == db {
				loc = "db-round"
			}
			c.Distinct(fmt.Sprintf("%s|gap%d", loc, min(int(latest)-int(db), 20)))
			stillInWindow := func() bool {
				now := l.Latest()
				return uint64(now) <= p.MaxBalLookback || rnd >= now-basics.Round(p.MaxBalLookback)
			}
			if r.Bool() {
				addr := s.u.keyed[r.Intn(len(s.u.keyed))]
				got, err := l.LookupAgreement(rnd, addr)
				sh.modelMu.RLock()
				want := s.m.onlineData(rnd, addr)
				sh.modelMu.RUnlock()
				c.Eval(1)
				c.Count("cconc.lookup_agreement."+loc, 1)
				if err != nil {
					if !stillInWindow() {
						return
					}
					c.Violation("lookup-agreement-differs", map[string]any{"round": rnd, "addr": addr.String(), "error": err.Error(), "latest": latest, "dbRound": db, "trace": s.traceTail(20)})
					return
				}
				if got != want {
					c.Violation("lookup-agreement-differs", map[string]any{"round": rnd, "latest": latest, "dbRound": db, "addr": addr.String(), "got": fmt.Sprintf("%+v", got), "want": fmt.Sprintf("%+v", want), "config": s.cfg.String(), "trace": s.traceTail(20)})
				}
				return
			}
			vr := rnd + basics.Round(r.Intn(int(p.MaxBalLookback)+2))
			got, err := l.OnlineCirculation(rnd, vr)
			sh.modelMu.RLock()
			want, _ := s.m.circulation(rnd, vr)
			sh.modelMu.RUnlock()
			c.Eval(1)
			c.Count("cconc.circulation."+loc, 1)
			if err != nil {
				if !stillInWindow() {
					return
				}
				c.Violation("online-circulation-differs", map[string]any{"round": rnd, "voteRnd": vr, "error": err.Error(), "latest": latest, "dbRound": db, "trace": s.traceTail(20)})
				return
			}
			if new(big.Int).SetUint64(got.Raw).Cmp(want) != 0 {
				c.Violation("online-circulation-differs", map[string]any{"round": rnd, "voteRnd": vr, "latest": latest, "dbRound": db, "got": got.Raw, "want": want.String(), "config": s.cfg.String(), "trace": s.traceTail(20)})
			}
		}, map[string]int64{"cconc.lookup_agreement.memory": 100, "cconc.lookup_agreement.history": 20, "cconc.circulation.memory": 100, "schedule.flush": 3})
}

// ---- C10: listings under concurrency -------------------------------------------------------------------------

func TestVerifC10Concurrent(t *testing.T) {
	cconcRun(t, "C10", "concurrent", "apps",
		"reader goroutines ask single pages of LookupAssets / LookupApplications (latest round, reported with the page) and LookupKvPairsByPrefix (explicit round) with random cursors and limits while the writer adds blocks (asset/app/box-heavy history), forces commits, reloads and reopens, with delays injected before the listing DB reads; each page is compared with the reference model at the round the page reports (prefix of the remaining sequence, right values, full page unless the sequence ends); distinct = distinct (api, gap, page length) triples",
		110, func(sh *c08Shared, c *kit.Ctx, r *kit.Rand) {
			s := sh.s
			l := s.l
			latest := basics.Round(sh.latest.Load())
			db := l.LatestTrackerCommitted()
			gap := min(int(latest)-int(db), 20)
			addr := s.u.keyed[r.Intn(len(s.u.keyed))]
			lim := []uint64{1, 2, 3, 7, 50}[r.Intn(5)]
			switch r.Intn(3) {
			case 0:
				cur := basics.AssetIndex(1000 + r.Intn(80))
				if r.Chance(1, 3) {
					cur = 0
				}
				page, rnd, err := l.LookupAssets(addr, cur, lim)
				if err != nil || uint64(rnd) > sh.latest.Load() {
					return // an answer for a round the model does not have yet cannot be judged
				}
				sh.modelMu.RLock()
				defer sh.modelMu.RUnlock()
				var want []basics.AssetIndex
				for _, id := range s.m.holdingsOf(rnd, addr) {
					if id > cur && uint64(len(want)) < lim {
						want = append(want, id)
					}
				}
				c.Eval(1)
				c.Count("cconc.asset_pages", 1)
				c.Distinct(fmt.Sprintf("assets|gap%d|n%d", gap, len(page)))
				bad := ""
				if len(page) != len(want) {
					bad = fmt.Sprintf("page has %d items, reference %d", len(page), len(want))
				}
				for i := 0; bad == "" && i < len(page); i++ {
					if page[i].AssetID != want[i] {
						bad = fmt.Sprintf("item %d is asset %d, reference %d", i, page[i].AssetID, want[i])
					} else if d := c10AssetEntryDiff(s.m, rnd, addr, page[i]); d != "" {
						bad = fmt.Sprintf("asset %d: %s", page[i].AssetID, d)
					}
				}
				if bad != "" {
					c.Violation("listing-page-differs", map[string]any{"api": "LookupAssets", "addr": addr.String(), "cursor": cur, "limit": lim, "round": rnd, "dbRound_before": db, "diff": bad, "config": s.cfg.String(), "trace": s.traceTail(20)})
				}
			case 1:
				cur := basics.AppIndex(1000 + r.Intn(80))
				if r.Chance(1, 3) {
					cur = 0
				}
				inc := r.Bool()
				page, rnd, err := l.LookupApplications(addr, cur, lim, inc)
				if err != nil || uint64(rnd) > sh.latest.Load() {
					return
				}
				sh.modelMu.RLock()
				defer sh.modelMu.RUnlock()
				var want []basics.AppIndex
				for _, id := range s.m.appsListedFor(rnd, addr) {
					if id > cur && uint64(len(want)) < lim {
						want = append(want, id)
					}
				}
				c.Eval(1)
				c.Count("cconc.app_pages", 1)
				c.Distinct(fmt.Sprintf("apps|gap%d|n%d", gap, len(page)))
				bad := ""
				if len(page) != len(want) {
					bad = fmt.Sprintf("page has %d items, reference %d", len(page), len(want))
				}
				for i := 0; bad == "" && i < len(page); i++ {
					if page[i].AppID != want[i] {
						bad = fmt.Sprintf("item %d is app %d, reference %d", i, page[i].AppID, want[i])
					} else if d := c10AppEntryDiff(s.m, rnd, addr, page[i], inc); d != "" {
						bad = fmt.Sprintf("app %d: %s", page[i].AppID, d)
					}
				}
				if bad != "" {
					c.Violation("listing-page-differs", map[string]any{"api": "LookupApplications", "addr": addr.String(), "cursor": cur, "limit": lim, "round": rnd, "dbRound_before": db, "diff": bad, "config": s.cfg.String(), "trace": s.traceTail(20)})
				}
			case 2:
				if db > latest {
					return
				}
				rnd := db + basics.Round(r.Uint64n(uint64(latest-db)+1))
				sh.modelMu.RLock()
				var appIdx basics.CreatableIndex
				for idx, h := range s.m.creators {
					if len(h.v) > 0 && h.v[0].val.ctype == basics.AppCreatable && (appIdx == 0 || idx < appIdx) {
						appIdx = idx
					}
				}
				// apps that own (or owned) boxes in the model: most listings are asked about those
				var boxed []basics.CreatableIndex
				seenApp := map[uint64]bool{}
				for k := range s.m.kv {
					if a, _, err := apps.SplitBoxKey(k); err == nil && !seenApp[a] {
						seenApp[a] = true
						boxed = append(boxed, basics.CreatableIndex(a))
					}
				}
				sh.modelMu.RUnlock()
				if appIdx == 0 {
					return
				}
				if len(boxed) > 0 && !r.Chance(1, 4) {
					sort.Slice(boxed, func(i, j int) bool { return boxed[i] < boxed[j] })
					appIdx = boxed[r.Intn(len(boxed))]
				} else {
					appIdx += basics.CreatableIndex(r.Intn(3)) // a few neighbouring ids, some of them apps
				}
				prefix := apps.MakeBoxKey(uint64(appIdx), []string{"", "a", "b", "box"}[r.Intn(4)])
				cursor := ""
				if r.Bool() {
					cursor = apps.MakeBoxKey(uint64(appIdx), []string{"a", "ab", "b", "box1"}[r.Intn(4)])
				}
				inc := r.Bool()
				page, rr, more, err := l.LookupKvPairsByPrefix(rnd, prefix, cursor, lim, 1<<20, inc)
				if err != nil {
					if rnd < l.LatestTrackerCommitted() {
						return
					}
					c.Violation("listing-error", map[string]any{"api": "LookupKvPairsByPrefix", "round": rnd, "error": err.Error(), "trace": s.traceTail(20)})
					return
				}
				sh.modelMu.RLock()
				defer sh.modelMu.RUnlock()
				wk, wv, _ := c10KvRefPage(s.m, rr, prefix, cursor, 1<<30, 1<<62, inc)
				c.Eval(1)
				c.Count("cconc.kv_pages", 1)
				c.Distinct(fmt.Sprintf("kv|gap%d|n%d", gap, len(page)))
				bad := ""
				if rr != rnd {
					bad = fmt.Sprintf("asked round %d, page reports %d", rnd, rr)
				}
				if bad == "" && (len(page) > len(wk) || uint64(len(page)) > lim || (len(page) == 0 && len(wk) > 0)) {
					bad = fmt.Sprintf("page has %d items, %d remain, limit %d", len(page), len(wk), lim)
				}
				for i := 0; bad == "" && i < len(page); i++ {
					if page[i].Key != wk[i] || (inc && string(page[i].Value) != string(wv[i])) {
						bad = fmt.Sprintf("item %d differs from reference", i)
					}
				}
				if bad == "" && len(wk) > len(page) && !more {
					bad = "moreData=false but elements remain"
				}
				if len(wk) > 0 {
					c.Count("cconc.kv_pages_nonempty", 1)
				}
				if bad != "" {
					c.Violation("kv-page-differs", map[string]any{"mode": "concurrent", "diff": bad, "round": rnd, "dbRound_before": db, "prefix": fmt.Sprintf("%x", prefix), "cursor": fmt.Sprintf("%x", cursor), "limit": lim, "config": s.cfg.String(), "trace": s.traceTail(20)})
				}
			}
		}, map[string]int64{"cconc.asset_pages": 100, "cconc.app_pages": 100, "cconc.kv_pages": 100, "cconc.kv_pages_nonempty": 10, "schedule.flush": 3})
}
