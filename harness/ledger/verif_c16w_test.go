package ledger

// C16, part "writer-steps": the catchpoint file a node publishes must not depend on where the
// writer's step deadlines fall.
//
// catchpointFileWriter.FileWriteStep is a resumable step function: catchpointTracker.generateCatchpointData
// calls it in a loop, each call with a deadline context (50 ms doubling to 1 s), and a step may stop
// at any of its deadline polls and be resumed by the next call. Small ledgers finish in one step, so
// here the real writer (makeCatchpointFileWriter + FileWriteSPVerificationContext + FileWriteStep,
// the calls of generateCatchpointData) is driven over the tracker database of an HL ledger standing at
// a catchpoint's balances round, with a wall-clock-free context that starts reporting "deadline
// exceeded" at its k-th poll: (A) one interruption at poll k for EVERY k up to the number of polls of
// an uninterrupted write, (B) every step cut at its k-th poll, for every k >= 4 (with fewer than four
// polls per step a step cannot hand a chunk over, whatever the implementation), (C) PRNG budgets per
// step; with maxResourcesPerChunk from 1 upward so that a 25-account state becomes dozens of chunks
// and accounts are cut across chunks.
//
// Oracle (differential): the file written in many steps must hold exactly the records (account data,
// resources, boxes, online-account rows, round-params rows, state-proof data) of the file written in
// one uninterrupted step, which must hold the records of the file the node's own tracker published;
// the header counts the writer reports must equal what the file holds; and the stepped files, under
// the producer's header, must restore through the real accessor and pass VerifyCatchpoint with the
// producer's label, yielding the same adopted database as the tracker's genuine file.

import (
	"bytes"
	"context"
	"fmt"
	"os"
	"path/filepath"
	"sort"
	"strings"
	"testing"
	"time"

	"github.com/algorand/go-algorand/config"
	"github.com/algorand/go-algorand/crypto"
	"github.com/algorand/go-algorand/data/basics"
	"github.com/algorand/go-algorand/ledger/ledgercore"
	"github.com/algorand/go-algorand/ledger/store/trackerdb"
	"github.com/algorand/go-algorand/protocol"
	"verif.local/kit"
)

// c16PollCtx reports "deadline exceeded" from its k-th poll on (k = budget); budget 0 = never.
// FileWriteStep polls its step context only from the calling goroutine.
type c16PollCtx struct {
	context.Context
	budget int
	polls  int
	open   chan struct{}
	closed chan struct{}
}

func c16NewPollCtx(budget int) *c16PollCtx {
	c := &c16PollCtx{Context: context.Background(), budget: budget, open: make(chan struct{}), closed: make(chan struct{})}
	close(c.closed)
	return c
}

func (c *c16PollCtx) fired() bool { return c.budget > 0 && c.polls >= c.budget }

func (c *c16PollCtx) Done() <-chan struct{} {
	c.polls++
	if c.fired() {
		return c.closed
	}
	return c.open
}

func (c *c16PollCtx) Err() error {
	if c.fired() {
		return context.DeadlineExceeded
	}
	return nil
}

func (c *c16PollCtx) Deadline() (time.Time, bool) { return time.Time{}, false }

type c16Written struct {
	entries                              []cpEntry // sp section + balances chunks, as in the data file
	accounts, kvs, online, params, chunk uint64    // what the writer reports for the header
	steps, polls                         int
	err                                  error
}

// c16Write runs the real writer inside a snapshot of the tracker DB, as generateCatchpointData does.
// budget(step) gives the poll budget of the step-th FileWriteStep call (0 = no deadline).
func c16Write(l *Ledger, params config.ConsensusParams, path string, maxRes int, accountsRound, excludeBefore basics.Round, maxSteps int, budget func(step int) int) (w c16Written) {
	os.Remove(path)
	err := l.trackerDB().Snapshot(func(dbCtx context.Context, tx trackerdb.SnapshotScope) error {
		cw, err := makeCatchpointFileWriter(dbCtx, params, path, tx, maxRes, accountsRound, excludeBefore)
		if err != nil {
			return err
		}
		if params.EnableCatchpointsWithSPContexts {
			raw, err := tx.MakeSpVerificationCtxReader().GetAllSPContexts(dbCtx)
			if err != nil {
				return err
			}
			_, enc := crypto.EncodeAndHash(catchpointStateProofVerificationContext{Data: raw})
			if err := cw.FileWriteSPVerificationContext(enc); err != nil {
				return err
			}
		}
		for more := true; more; {
			w.steps++
			if w.steps > maxSteps {
				cw.Abort()
				return fmt.Errorf("FileWriteStep still reports more work after %d steps", maxSteps)
			}
			ctx := c16NewPollCtx(budget(w.steps))
			more, err = cw.FileWriteStep(ctx)
			w.polls += ctx.polls
			if err != nil {
				cw.Abort()
				return err
			}
		}
		w.accounts, w.kvs, w.online, w.params, w.chunk = cw.totalAccounts, cw.totalKVs, cw.totalOnlineAccounts, cw.totalOnlineRoundParams, cw.chunkNum
		return nil
	})
	if err != nil {
		w.err = err
		return w
	}
	f, err := os.Open(path)
	if err != nil {
		w.err = err
		return w
	}
	defer f.Close()
	dec, err := catchpointStage1Decoder(f)
	if err != nil {
		w.err = err
		return w
	}
	w.entries, w.err = cpReadTar(dec)
	return w
}

// c16Canon lists the records a catchpoint file holds, independent of chunking: an account cut
// across chunks counts once (all its parts must carry the same account data), with the union of its
// resources. Returns the sorted record lines and the counts by kind.
func c16Canon(entries []cpEntry) (lines []string, counts map[string]int, err error) {
	d, err := c16Decode(entries)
	if err != nil {
		return nil, nil, err
	}
	counts = map[string]int{}
	acct := map[basics.Address][]byte{}
	for _, it := range d.items {
		switch it.kind {
		case "sp":
			for _, s := range d.sp.Data {
				lines = append(lines, fmt.Sprintf("sp %x", protocol.Encode(&s)))
				counts["sp"]++
			}
		case "chunk":
			counts["chunks"]++
			for _, b := range it.chunk.Balances {
				if prev, ok := acct[b.Address]; ok {
					if !bytes.Equal(prev, b.AccountData) {
						lines = append(lines, fmt.Sprintf("acct-parts-disagree %s", b.Address))
					}
				} else {
					acct[b.Address] = b.AccountData
				}
				if !b.ExpectingMoreEntries {
					lines = append(lines, fmt.Sprintf("acct %s %x", b.Address, []byte(b.AccountData)))
					counts["accounts"]++
				}
				for id, raw := range b.Resources {
					lines = append(lines, fmt.Sprintf("res %s %d %x", b.Address, id, []byte(raw)))
					counts["resources"]++
				}
			}
			for _, kv := range it.chunk.KVs {
				lines = append(lines, fmt.Sprintf("kv %x = %x", kv.Key, kv.Value))
				counts["kvs"]++
			}
			for _, oa := range it.chunk.OnlineAccounts {
				lines = append(lines, fmt.Sprintf("oa %x", protocol.Encode(&oa)))
				counts["online"]++
			}
			for _, rp := range it.chunk.OnlineRoundParams {
				lines = append(lines, fmt.Sprintf("orp %x", protocol.Encode(&rp)))
				counts["params"]++
			}
		}
	}
	sort.Strings(lines)
	return lines, counts, nil
}

type c16Capture struct {
	f        basics.Round // balances round
	maxRes   int
	ref      c16Written
	refCanon []string
	polls    int
	restore  []c16Variant // files kept for the restore stage (label known only later)
}

type c16Variant struct {
	name    string
	written c16Written
}

func TestVerifC16WriterSteps(t *testing.T) {
	c := kit.Start(t, "C16", "writer-steps")
	defer c.Finish()
	c.Rule("HL histories (apps with boxes, assets, online accounts) on a real ledger with catchpoint files stored and a commit after every block; whenever the tracker DB stands at a catchpoint's balances round the real catchpointFileWriter is run over it (as generateCatchpointData does) with maxResourcesPerChunk ∈ {1,2,3,5} and the production value, once uninterrupted and then with poll-counting step contexts: one interruption at poll k for every k ≤ polls of the uninterrupted write, every step cut at its k-th poll for every k ≥ 4, and PRNG budgets per step; each file's records, writer-reported counts and chunk numbering are compared with the uninterrupted file and the tracker's own published file; sampled stepped files (and every deviating one) are restored under the producer's header with the producer's label through the real accessor; distinct = (maxResourcesPerChunk, interruption pattern, number of steps) tuples")
	c.Assume("a step context is polled only by FileWriteStep's own goroutine; with fewer than four polls per step no implementation of the step contract can hand a chunk over, so constant budgets start at 4 (PRNG budgets include 1–3)")
	hlRegisterProtos()
	nh := c.N(3, 8)
	blocks := c.N(46, 80)
	for h := 0; h < nh && c.Violations() < 6; h++ {
		r := c.Rand(161, uint64(h))
		cfg := hlConfig{
			Proto:              []protocol.ConsensusVersion{hlProtoShort, hlProtoMid, hlProtoCurrentMid}[(h+r.Intn(3))%3],
			MaxAcctLookback:    []uint64{1, 2, 4}[r.Intn(3)],
			Archival:           r.Bool(),
			OnDisk:             true,
			Storage:            "sqlite",
			NAccounts:          12,
			NOnline:            4,
			CatchpointInterval: 4,
			CatchpointTracking: 2,
			Profile:            "apps",
		}
		p := config.Consensus[cfg.Proto]
		lb := cpLookback(p)
		a := hlNewSim(t, c, r, cfg)
		scratch := c.Scratch("c16w")
		src := cpBlockSource{0: a.genesis.Block}
		labels := map[basics.Round]string{}
		a.onBlock = append(a.onBlock, func(vb *ledgercore.ValidatedBlock) { src[vb.Block().Round()] = vb.Block() })
		var caps []*c16Capture
		captured := map[basics.Round]bool{}
		for i := 0; i < blocks; i++ {
			c16Step(a, i%4 == 3)
			cpFlush(a)
			if lbl := a.l.GetLastCatchpointLabel(); lbl != "" {
				if rnd, _, err := ledgercore.ParseCatchpointLabel(lbl); err == nil {
					labels[rnd] = lbl
				}
			}
			db := a.l.LatestTrackerCommitted()
			f, pending := cpPendingFirstStage(a)
			if !pending || f != db || captured[f] || int(db) < blocks/2 {
				continue
			}
			captured[f] = true
			exclude := catchpointLookbackHorizonForNextRound(f, p)
			for _, maxRes := range []int{1, []int{2, 3, 5}[r.Intn(3)], ResourcesPerCatchpointFileChunk} {
				path := filepath.Join(scratch, fmt.Sprintf("%d-%d.data", f, maxRes))
				ref := c16Write(a.l, p, path, maxRes, f, exclude, 1<<20, func(int) int { return 0 })
				if ref.err != nil {
					c.Harness("uninterrupted write at round %d: %v", f, ref.err)
				}
				refCanon, refCounts, err := c16Canon(ref.entries)
				if err != nil {
					c.Harness("decoding the uninterrupted file: %v", err)
				}
				cp := &c16Capture{f: f, maxRes: maxRes, ref: ref, refCanon: refCanon, polls: ref.polls}
				caps = append(caps, cp)
				cp.restore = append(cp.restore, c16Variant{"uninterrupted", ref})
				c.Count("c16w.captures", 1)
				c.Max("c16w.max_chunks_in_a_file", int64(refCounts["chunks"]))
				c.Max("c16w.max_polls_of_an_uninterrupted_write", int64(ref.polls))
				// the uninterrupted file itself must be consistent with what the writer reports
				check := func(name string, w c16Written, pattern string) {
					c.Eval(1)
					c.Count("c16w.stepped_writes", 1)
					if w.steps > 1 {
						c.Count("c16w.writes_resumed_at_least_once", 1)
					}
					c.Distinct(fmt.Sprintf("%d|%s|%d", min(maxRes, 9), pattern, min(w.steps, 40)))
					wit := map[string]any{"history": h, "config": cfg.String(), "balances_round": f, "maxResourcesPerChunk": maxRes, "interruptions": name, "steps": w.steps, "polls": w.polls, "polls_of_uninterrupted_write": ref.polls, "trace": a.traceTail(12)}
					if w.err != nil {
						wit["error"] = w.err.Error()
						c.Violation("stepped-write-fails", wit)
						return
					}
					canon, counts, err := c16Canon(w.entries)
					if err != nil {
						wit["error"] = err.Error()
						c.Violation("stepped-write-undecodable", wit)
						return
					}
					wit["records"] = fmt.Sprint(counts)
					wit["records_of_uninterrupted_write"] = fmt.Sprint(refCounts)
					wit["sections"] = c16Sections(w.entries)
					wit["sections_of_uninterrupted_write"] = c16Sections(ref.entries)
					bad := false
					if strings.Join(canon, "\n") != strings.Join(refCanon, "\n") {
						wit["record_difference"] = c16Diff(refCanon, canon)
						c.Violation("stepped-write-changes-records", wit)
						bad = true
					} else if uint64(counts["accounts"]) != w.accounts || uint64(counts["kvs"]) != w.kvs || uint64(counts["chunks"]) != w.chunk {
						// (the online-row counts the writer reports are the table sizes before the horizon filter: not comparable)
						wit["writer_reports"] = fmt.Sprintf("accounts=%d kvs=%d online=%d params=%d chunks=%d", w.accounts, w.kvs, w.online, w.params, w.chunk)
						c.Violation("writer-counts-differ-from-file", wit)
						bad = true
					}
					if len(w.entries) == len(ref.entries) {
						same := true
						for i := range w.entries {
							if w.entries[i].Name != ref.entries[i].Name || !bytes.Equal(w.entries[i].Data, ref.entries[i].Data) {
								same = false
							}
						}
						if same {
							c.Count("c16w.byte_identical_to_uninterrupted", 1)
						}
					}
					if bad && len(cp.restore) < 12 {
						cp.restore = append(cp.restore, c16Variant{name, w})
					}
				}
				check("none", ref, "none")
				maxSteps := 60*ref.polls + 100
				// (A) one interruption, at poll k of the first step, for every k
				for k := 1; k <= ref.polls && c.Violations() < 6; k++ {
					w := c16Write(a.l, p, path, maxRes, f, exclude, maxSteps, func(step int) int {
						if step == 1 {
							return k
						}
						return 0
					})
					check(fmt.Sprintf("first step stops at its poll %d, the second step has no deadline", k), w, "once")
					if r.Chance(1, max(ref.polls/2, 1)) && len(cp.restore) < 6 {
						cp.restore = append(cp.restore, c16Variant{fmt.Sprintf("one interruption at poll %d", k), w})
					}
				}
				// (B) every step stops at its k-th poll
				for k := 4; k <= ref.polls && c.Violations() < 6; k++ {
					w := c16Write(a.l, p, path, maxRes, f, exclude, maxSteps, func(int) int { return k })
					check(fmt.Sprintf("every step stops at its poll %d", k), w, "every")
					if r.Chance(1, max(ref.polls/2, 1)) && len(cp.restore) < 9 {
						cp.restore = append(cp.restore, c16Variant{fmt.Sprintf("every step stops at its poll %d", k), w})
					}
				}
				// (C) PRNG budgets per step (1..3 park or stall a step, which the next step must survive)
				for v := 0; v < c.N(12, 40) && c.Violations() < 6; v++ {
					rv := c.Rand(161, uint64(h), uint64(f), uint64(maxRes), uint64(v))
					var seq []int
					w := c16Write(a.l, p, path, maxRes, f, exclude, maxSteps, func(step int) int {
						b := []int{1, 2, 3, 3, 4, 4, 5, 6, 7, 9, 12, 0}[rv.Intn(12)]
						if len(seq) < 40 {
							seq = append(seq, b)
						}
						return b
					})
					check(fmt.Sprintf("poll budgets per step %v…", seq), w, "prng")
					if v == 0 {
						cp.restore = append(cp.restore, c16Variant{fmt.Sprintf("poll budgets per step %v", seq), w})
					}
				}
				os.Remove(path)
			}
		}
		cpFlush(a)
		if lbl := a.l.GetLastCatchpointLabel(); lbl != "" {
			if rnd, _, err := ledgercore.ParseCatchpointLabel(lbl); err == nil {
				labels[rnd] = lbl
			}
		}
		// ---- restore stage: the newest captures whose catchpoint the tracker finished -------------
		restoredRounds := 0
		for ci := len(caps) - 1; ci >= 0 && restoredRounds < 2*c.N(1, 2) && c.Violations() < 6; ci-- {
			cp := caps[ci]
			rnd := cp.f + lb
			label, ok := labels[rnd]
			genuine, err := cpReadCatchpointFile(a.l, rnd)
			if !ok || err != nil {
				c.Count("c16w.captures_without_finished_catchpoint", 1)
				continue
			}
			restoredRounds++
			gdoc, err := c16Decode(genuine)
			if err != nil {
				c.Harness("decoding the tracker's file: %v", err)
			}
			gCanon, _, _ := c16Canon(genuine)
			c.Eval(1)
			if strings.Join(gCanon, "\n") != strings.Join(cp.refCanon, "\n") {
				// both are the real writer over the same DB round; a difference means this harness does not call it the way the tracker does
				c.Harness("round %d: the records of the harness-driven uninterrupted write differ from the tracker's published file: %v", cp.f, c16Diff(gCanon, cp.refCanon))
			}
			c.Count("c16w.compared_with_tracker_file", 1)
			lc := a.lcfg
			lc.MaxAcctLookback = uint64(lb) + 4
			lc.CatchpointTracking = 1
			lc.LedgerSynchronousMode, lc.AccountsRebuildSynchronousMode = 0, 0
			lc.DisableLedgerLRUCache = true
			lc.TxPoolSize, lc.VerifiedTranscationsCacheSize = 100, 100
			base := cpRestore(c, a.genesis, lc, cpTar(genuine), label, src)
			if desc, collide := c16KvCollision(gdoc); collide && base.Stage == "build-trie" {
				c.Violation("kv-preimage-boundary-shift", map[string]any{"manifestation": "an HONEST catchpoint file is rejected by the restoring node because the state holds two legal boxes with equal key||value", "boxes": desc, "round": rnd, "label": label, "stage": base.Stage, "error": fmt.Sprint(base.Err), "config": cfg.String()})
				cpRemove(base.Dir)
				restoredRounds--
				continue
			}
			if base.Stage != "adopted" {
				c.Violation("genuine-file-rejected", map[string]any{"round": rnd, "label": label, "stage": base.Stage, "error": fmt.Sprint(base.Err), "config": cfg.String()})
				cpRemove(base.Dir)
				continue
			}
			baseDump := strings.Join(c16Dump(c, base.L), "\n")
			base.L.Close()
			cpRemove(base.Dir)
			for _, v := range cp.restore {
				if v.written.err != nil {
					continue
				}
				hdr := gdoc.hdr
				hdr.TotalChunks = v.written.chunk
				entries := append([]cpEntry{{CatchpointContentFileName, protocol.Encode(&hdr)}}, v.written.entries...)
				res := cpRestore(c, a.genesis, lc, cpTar(entries), label, src)
				c.Eval(1)
				c.Count("c16w.stepped_files_restored", 1)
				wit := map[string]any{"history": h, "config": cfg.String(), "catchpoint_round": rnd, "balances_round": cp.f, "label": label, "maxResourcesPerChunk": cp.maxRes, "interruptions": v.name, "steps": v.written.steps, "stage": res.Stage, "error": fmt.Sprint(res.Err), "sections": c16Sections(v.written.entries)}
				if res.Stage != "adopted" {
					c.Violation("stepped-file-not-restorable", wit)
				} else {
					d := c16Dump(c, res.L)
					if strings.Join(d, "\n") != baseDump {
						wit["state_difference"] = c16Diff(strings.Split(baseDump, "\n"), d)
						c.Violation("stepped-file-restores-other-state", wit)
					}
					res.L.Close()
				}
				cpRemove(res.Dir)
			}
		}
		if h == 0 {
			smp := map[string]any{"history": h, "config": cfg.String(), "captures": len(caps)}
			for i, cp := range caps {
				if i < 4 {
					smp[fmt.Sprintf("capture-%d", i)] = fmt.Sprintf("round %d maxRes %d: %d polls, sections %s", cp.f, cp.maxRes, cp.polls, c16Sections(cp.ref.entries))
				}
			}
			c.Sample(smp)
		}
		for k, v := range a.stats {
			c.Count("gen."+k, v)
		}
		cpRemove(scratch)
		a.close()
	}
	c.Require("c16w.captures", 6)
	c.Require("c16w.writes_resumed_at_least_once", int64(c.N(300, 3000)))
	c.Require("c16w.max_chunks_in_a_file", 8)
	c.Require("c16w.compared_with_tracker_file", 1)
	c.Require("c16w.stepped_files_restored", 3)
}

func c16Sections(entries []cpEntry) string {
	var sb strings.Builder
	for i, e := range entries {
		if i > 0 {
			sb.WriteByte(' ')
		}
		if i >= 40 {
			fmt.Fprintf(&sb, "…(%d sections)", len(entries))
			break
		}
		fmt.Fprintf(&sb, "%s(%d)", strings.TrimSuffix(strings.TrimPrefix(e.Name, "balances."), ".msgpack"), len(e.Data))
	}
	return sb.String()
}

var _ = kit.FPOptions{}
