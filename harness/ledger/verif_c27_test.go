package ledger

// C27: suspension and expiry lists are justified.
// For every round of an HL history an (empty) candidate block is produced by the real generator
// and variants of it — one extra account added to the expired or to the absent list, duplicated
// entries — are pushed through Ledger.Validate. A variant that is ACCEPTED although the reference
// rule (written from the protocol description, big integers) says the added account is not
// expired / not absent is a violation.

import (
	"fmt"
	"math/big"
	"testing"

	"github.com/algorand/go-algorand/crypto"
	"github.com/algorand/go-algorand/crypto/merklesignature"
	"github.com/algorand/go-algorand/data/basics"
	"github.com/algorand/go-algorand/data/bookkeeping"
	"github.com/algorand/go-algorand/data/committee"
	"github.com/algorand/go-algorand/data/txntest"
	"github.com/algorand/go-algorand/protocol"
	"verif.local/kit"
)

func c27BitsMatch(a, b []byte, n int) bool {
	for i := 0; i < n; i++ {
		if (a[i/8]>>(7-uint(i%8)))&1 != (b[i/8]>>(7-uint(i%8)))&1 {
			return false
		}
	}
	return true
}

// c27RefExpired: the account has a vote key and its last valid round is before the block's round.
func c27RefExpired(m *hlModel, r basics.Round, x basics.Address) bool {
	d := m.acct(r-1, x)
	return !d.VoteID.IsEmpty() && d.VoteLastValid < r
}

// c27RefAbsent: online, non-zero balance, incentive eligible, and (absent by the stake-weighted
// interval rule, or failed an active challenge).
func c27RefAbsent(m *hlModel, r basics.Round, x basics.Address) (bool, string) {
	p := m.proto(r - 1)
	d := m.acct(r-1, x)
	if d.Status != basics.Online || d.MicroAlgos.Raw == 0 || !d.IncentiveEligible {
		return false, "not online/eligible/funded"
	}
	lastSeen := d.LastProposed
	if d.LastHeartbeat > lastSeen {
		lastSeen = d.LastHeartbeat
	}
	brnd := basics.Round(0)
	lb := basics.Round(2 * p.SeedRefreshInterval * p.SeedLookback)
	if r > lb {
		brnd = r - lb
	}
	total, _ := m.circulation(brnd, r)
	stake := new(big.Int).SetUint64(m.onlineData(brnd, x).MicroAlgosWithRewards.Raw)
	if lastSeen != 0 && stake.Sign() != 0 {
		lag := new(big.Int).Mul(big.NewInt(20), total)
		lag.Div(lag, stake)
		if lag.IsUint64() && lag.Uint64() <= 0xffffffff {
			if new(big.Int).Add(new(big.Int).SetUint64(uint64(lastSeen)), lag).Cmp(new(big.Int).SetUint64(uint64(r))) < 0 {
				return true, "interval"
			}
		}
	}
	iv := basics.Round(p.Payouts.ChallengeInterval)
	if iv != 0 && r >= iv {
		last := r - r%iv
		grace := basics.Round(p.Payouts.ChallengeGracePeriod)
		if r > last+grace && r <= last+2*grace {
			seed := m.hdrs[last].Seed
			if c27BitsMatch(seed[:], x[:], p.Payouts.ChallengeBits) && lastSeen < last {
				return true, "challenge"
			}
		}
	}
	return false, "seen recently"
}

func TestVerifC27(t *testing.T) {
	c := kit.Start(t, "C27", "knockoffs")
	defer c.Finish()
	c.Rule("HL histories with a dominant online account that stops proposing, short participation keys (expiry inside the run), shortened challenge windows; for every round a candidate block from the real generator is altered — each known account added to the expired list / to the absent list, duplicated entries — and offered to Ledger.Validate; accepted variants are compared with the reference expiry/absence rule; distinct = distinct (list, reference verdict and reason, ledger verdict) tuples")
	c.Assume("variants are built on empty candidate blocks, so the state the lists are judged against is the state at the end of the previous round; the proposer itself is never used as a candidate")
	nh := c.N(3, 30)
	blocks := c.N(80, 220)
	for h := 0; h < nh && c.Violations() < 5; h++ {
		r := c.Rand(27, uint64(h))
		cfg := hlRandomConfig(r)
		if cfg.Proto == hlProtoFuture {
			cfg.Proto = hlProtoMid
		}
		s := hlNewSim(t, c, r, cfg)
		big0 := s.u.keyed[0]
		s.noPropose = map[basics.Address]bool{}
		// block 1: the dominant account and two small ones register eligible keys of different lengths
		{
			ev, err := s.startEval()
			if err != nil {
				c.Harness("eval: %v", err)
			}
			for i, a := range []basics.Address{big0, s.u.keyed[1], s.u.keyed[2]} {
				t := txntest.Txn{Type: protocol.KeyRegistrationTx, Sender: a, Fee: 2_000_000, VoteFirst: 1, VoteLast: basics.Round([]int{400, 30, 55}[i]), VoteKeyDilution: 10}
				var vpk crypto.OneTimeSignatureVerifier
				var spk crypto.VRFVerifier
				var mpk merklesignature.Commitment
				r.Fill(vpk[:])
				r.Fill(spk[:])
				r.Fill(mpk[:])
				t.VotePK, t.SelectionPK, t.StateProofPK = vpk, spk, mpk
				if err := s.offer(ev, "c27setup", &t); err != nil {
					c.Harness("setup keyreg: %v", err)
				}
			}
			if _, err := s.finishBlock(ev); err != nil {
				c.Harness("setup block: %v", err)
			}
		}
		for b := 0; b < blocks; b++ {
			if b == 6 {
				s.noPropose[big0] = true // from now on the dominant account is never seen
			}
			// candidate block for the next round
			ev, err := s.startEval()
			if err != nil {
				c.Harness("eval: %v", err)
			}
			rnd := ev.Round()
			prp, eligible := s.pickProposer()
			ub, err := ev.GenerateBlock(nil)
			if err != nil {
				c.Harness("GenerateBlock: %v", err)
			}
			var seed committee.Seed
			r.Fill(seed[:])
			base := ub.UnfinishedBlock().WithProposer(seed, prp, eligible)
			try := func(list string, blk bookkeeping.Block, x basics.Address, dup bool) {
				_, verr := s.validateNoSig(blk)
				accepted := verr == nil
				var just bool
				var why string
				if list == "expired" {
					just = c27RefExpired(s.m, rnd, x)
					why = "expiry"
				} else {
					just, why = c27RefAbsent(s.m, rnd, x)
				}
				c.Eval(1)
				c.Count(fmt.Sprintf("c27.%s.justified=%v.accepted=%v", list, just, accepted), 1)
				c.Distinct(fmt.Sprintf("%s|%v|%s|%v|dup=%v", list, just, why, accepted, dup))
				w := map[string]any{"list": list, "round": rnd, "account": x.String(), "account_state": fmt.Sprintf("%+v", s.m.acct(rnd-1, x)), "reference_reason": why, "duplicate_entry": dup, "validate_error": fmt.Sprint(verr), "config": cfg.String(), "trace": s.traceTail(15)}
				switch {
				case dup && accepted:
					c.Violation("duplicate-entry-accepted", w)
				case !dup && accepted && !just:
					c.Violation("unjustified-"+list+"-entry-accepted", w)
				case !dup && !accepted && just:
					// completeness is not part of the statement; shown because it usually reveals a reference error
					c.Count("c27.justified_but_rejected", 1)
					c.Observation("justified %s entry rejected: %v", list, w)
				}
			}
			cands := append([]basics.Address{}, s.u.keyed...)
			cands = append(cands, s.u.sink, s.u.fresh[0])
			for _, x := range cands {
				if x == prp {
					continue
				}
				// lists need not be complete, so each variant carries exactly the one entry under test
				v := base
				v.ParticipationUpdates = bookkeeping.ParticipationUpdates{ExpiredParticipationAccounts: []basics.Address{x}}
				try("expired", v, x, false)
				v = base
				v.ParticipationUpdates = bookkeeping.ParticipationUpdates{AbsentParticipationAccounts: []basics.Address{x}}
				try("absent", v, x, false)
			}
			// duplicated entries of the generator's own (justified) lists must be rejected
			if l := base.ParticipationUpdates.ExpiredParticipationAccounts; len(l) > 0 {
				v := base
				v.ParticipationUpdates.ExpiredParticipationAccounts = append(append([]basics.Address{}, l...), l[0])
				try("expired", v, l[0], true)
				c.Count("c27.generator_expired_entries", len(l))
			}
			if l := base.ParticipationUpdates.AbsentParticipationAccounts; len(l) > 0 {
				v := base
				v.ParticipationUpdates.AbsentParticipationAccounts = append(append([]basics.Address{}, l...), l[0])
				try("absent", v, l[0], true)
				c.Count("c27.generator_absent_entries", len(l))
			}
			// now the real block of this round
			s.step()
			act := s.scheduleAction()
			c.Count("schedule."+act, 1)
		}
		if h < 2 {
			c.Sample(map[string]any{"history": h, "config": cfg.String(), "blocks": blocks})
		}
		s.close()
	}
	c.Require("c27.expired.justified=true.accepted=true", 5)
	c.Require("c27.expired.justified=false.accepted=false", 100)
	c.Require("c27.absent.justified=true.accepted=true", 3)
	c.Require("c27.absent.justified=false.accepted=false", 100)
}
