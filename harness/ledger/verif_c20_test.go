package ledger

// C20: proposed blocks validate and evaluation is deterministic.
// Oracles (differential observation): every block produced by the generating evaluator must be
// accepted by Ledger.Validate on a SECOND ledger that received the same blocks; the StateDelta of
// that block must be identical (structural fingerprint) across: generation+validation on the
// proposer's ledger, validation on the twin without an execution pool, with a 16-worker backlog
// pool, after a cache flush / forced commit / reload of the twin, and Eval without validation.

import (
	"bytes"
	"context"
	"fmt"
	"sort"
	"sync"
	"sync/atomic"
	"testing"

	"github.com/algorand/go-algorand/agreement"
	"github.com/algorand/go-algorand/data/basics"
	"github.com/algorand/go-algorand/data/bookkeeping"
	"github.com/algorand/go-algorand/data/transactions/verify"
	"github.com/algorand/go-algorand/ledger/eval"
	"github.com/algorand/go-algorand/ledger/ledgercore"
	"github.com/algorand/go-algorand/util/execpool"
	"verif.local/kit"
)

var c20FP = kit.FPOptions{NilEqualsEmpty: true, Skip: map[string]bool{"initialHint": true, "acctsCache": true, "appResourcesCache": true, "assetResourcesCache": true}}

// c20Norm puts the record slices of a delta into a canonical order: they are keyed collections
// ((addr), (addr, index)); the order in which the evaluator emits records is not observable
// through the ledger and legitimately differs between generation and validation.
func c20Norm(d ledgercore.StateDelta) ledgercore.StateDelta {
	// (no Dehydrate: it clears the lookup caches IN PLACE, and those maps are shared with the delta the
	// ledger's trackers hold; the caches are skipped by the fingerprint options instead)
	ad := d.Accts
	ad.Accts = append([]ledgercore.BalanceRecord(nil), ad.Accts...)
	sort.Slice(ad.Accts, func(i, j int) bool { return bytes.Compare(ad.Accts[i].Addr[:], ad.Accts[j].Addr[:]) < 0 })
	ad.AppResources = append([]ledgercore.AppResourceRecord(nil), ad.AppResources...)
	sort.Slice(ad.AppResources, func(i, j int) bool {
		if c := bytes.Compare(ad.AppResources[i].Addr[:], ad.AppResources[j].Addr[:]); c != 0 {
			return c < 0
		}
		return ad.AppResources[i].Aidx < ad.AppResources[j].Aidx
	})
	ad.AssetResources = append([]ledgercore.AssetResourceRecord(nil), ad.AssetResources...)
	sort.Slice(ad.AssetResources, func(i, j int) bool {
		if c := bytes.Compare(ad.AssetResources[i].Addr[:], ad.AssetResources[j].Addr[:]); c != 0 {
			return c < 0
		}
		return ad.AssetResources[i].Aidx < ad.AssetResources[j].Aidx
	})
	d.Accts = ad
	return d
}

func c20Delta(d ledgercore.StateDelta) string {
	return kit.Fingerprint(c20Norm(d), c20FP)
}

func TestVerifC20(t *testing.T) {
	c := kit.Start(t, "C20", "determinism")
	defer c.Finish()
	c.Rule("every block of PRNG histories (up to 30 groups incl. dependent groups, app calls touching many resources, payouts, suspensions) is generated on ledger A, then validated on twin ledger B (same blocks, different commit/reload schedule) in several ways: no execution pool, 16-worker backlog pool, after cache flush / forced commit / reload, Eval without validation, and concurrently with reader goroutines; all StateDeltas must have the same structural fingerprint and no validation may fail; distinct = distinct block shapes (transaction kind multiset)")
	nh := c.N(3, 20)
	blocks := c.N(45, 200)
	pool := execpool.MakePool(t)
	defer pool.Shutdown()
	backlog := execpool.MakeBacklog(pool, 0, execpool.LowPriority, t)
	defer backlog.Shutdown()
	for h := 0; h < nh && c.Violations() < 5; h++ {
		r := c.Rand(20, uint64(h))
		cfg := hlRandomConfig(r)
		a := hlNewSim(t, c, r, cfg)
		// twin: same genesis, its own files and its own schedule PRNG
		b := &hlSim{t: t, c: c, r: c.Rand(20, uint64(h), 7), cfg: cfg, stats: map[string]int{}, genesis: a.genesis, lcfg: a.lcfg, log: a.log, u: a.u}
		b.dir = c.Scratch("hl-twin")
		b.dbName = b.dir + "/ledger"
		b.open()
		b.m = a.m // the twin shares the model (same history)
		var stop atomic.Bool
		var wg sync.WaitGroup
		var gate sync.RWMutex
		for i := 0; i < 3; i++ {
			wg.Add(1)
			rr := c.Rand(20, uint64(h), uint64(100+i))
			go func() {
				defer wg.Done()
				for !stop.Load() {
					gate.RLock()
					l := b.l
					addr := a.u.keyed[rr.Intn(len(a.u.keyed))]
					l.LookupLatest(addr)
					l.LookupWithoutRewards(l.Latest(), addr)
					gate.RUnlock()
				}
			}()
		}
		a.onBlock = append(a.onBlock, func(vb *ledgercore.ValidatedBlock) {
			blk := vb.Block()
			want := c20Delta(vb.Delta())
			check := func(mode string, d ledgercore.StateDelta, err error) {
				c.Eval(1)
				c.Count("c20.evaluations."+mode, 1)
				if err != nil {
					c.Violation("generated-block-rejected", map[string]any{"mode": mode, "round": blk.Round(), "error": err.Error(), "txns": len(blk.Payset), "config": cfg.String(), "trace_a": a.traceTail(15), "trace_b": b.traceTail(15)})
					return
				}
				if got := c20Delta(d); got != want {
					c.Violation("state-delta-differs", map[string]any{"mode": mode, "round": blk.Round(), "txns": len(blk.Payset), "got": kit.Describe(c20Norm(d), c20FP), "want": kit.Describe(c20Norm(vb.Delta()), c20FP), "config": cfg.String(), "trace_a": a.traceTail(15), "trace_b": b.traceTail(15)})
				}
			}
			validate := func(pool execpool.BacklogPool) (ledgercore.StateDelta, error) {
				save := b.l.verifiedTxnCache
				defer func() { b.l.verifiedTxnCache = save }()
				b.l.verifiedTxnCache = verify.GetMockedCache(true)
				v, err := b.l.Validate(context.Background(), blk, pool)
				if err != nil {
					return ledgercore.StateDelta{}, err
				}
				return v.Delta(), nil
			}
			d, err := validate(nil)
			check("twin-nopool", d, err)
			d, err = validate(backlog)
			check("twin-pool16", d, err)
			switch b.r.Intn(5) {
			case 0:
				b.flush()
				d, err = validate(nil)
				check("twin-after-commit", d, err)
			case 1:
				b.settle()
				b.l.FlushCaches()
				d, err = validate(backlog)
				check("twin-after-cacheflush", d, err)
			case 2:
				gate.Lock()
				b.reload()
				gate.Unlock()
				d, err = validate(nil)
				check("twin-after-reload", d, err)
			case 3:
				d, err = eval.Eval(context.Background(), b.l, blk, false, verify.GetMockedCache(true), nil, nil)
				check("twin-eval-novalidate", d, err)
			}
			kinds := map[string]int{}
			for _, g := range a.lastBlockGroups {
				if g.Err == nil {
					kinds[g.Kind]++
				}
			}
			c.Distinct(fmt.Sprint(kinds))
			if err := b.l.AddBlock(blk, agreement.Certificate{}); err != nil {
				c.Violation("generated-block-rejected", map[string]any{"mode": "twin-AddBlock", "round": blk.Round(), "error": err.Error(), "trace_b": b.traceTail(15)})
			}
			b.tr("block %d", blk.Round())
		})
		for i := 0; i < blocks; i++ {
			a.step()
			a.scheduleAction()
		}
		stop.Store(true)
		wg.Wait()
		for k, v := range a.stats {
			c.Count("gen."+k, v)
		}
		if h < 2 {
			c.Sample(map[string]any{"history": h, "config": cfg.String(), "blocks": blocks})
		}
		a.close()
		b.close()
	}
	c.Require("c20.evaluations.twin-nopool", 100)
	c.Require("c20.evaluations.twin-pool16", 100)
	c.Require("c20.evaluations.twin-after-reload", 5)
	c.Require("gen.accepted:group", 5)
}

var _ = basics.Round(0)
var _ = bookkeeping.Block{}
