package ledger

// C09: the ledger recovers to a consistent prefix after a crash.
//
// Method (fault enumeration): the parent test re-executes its own test binary as a CHILD process.
// The child drives a real on-disk ledger (HL simulator, catchpoints every 4 rounds on reduced-lookback
// protocols) through a PRNG history and appends to an fsync'ed JOURNAL: one line with the complete
// encoded block BEFORE every block it hands to the ledger, and one line AFTER every acknowledgement
// it receives from the ledger ("WaitForCommit(r) returned", "<-Wait(r) fired", forced tracker commit
// returned, catchpoint file recorded). The child is killed either by a verifhook `exit` action armed
// from its environment (syscall.Exit in the middle of the block-queue flush, the tracker commit
// transaction, the catchpoint stages) or by a SIGKILL the parent sends at a PRNG-chosen journal
// position. A second fault class makes the committing code itself crash: the callback of the
// block-flush / tracker-commit transaction panics once in-process (c09ArmPanic), the child carries
// on and is killed shortly afterwards. The parent then opens the ledger from the files as they were left and judges it.
//
// Oracle (not stricter than the property):
//   * OpenLedger must succeed (no error, no panic);
//   * Latest() >= every round whose durability was acknowledged before the kill, and <= the highest
//     round the child ever handed over;
//   * every block the ledger serves has the hash the child journaled for that round; the stored
//     rounds are contiguous from the earliest kept block (round 0 on archival ledgers) to Latest();
//   * a reference model is built by evaluating exactly the journaled blocks 1..Latest() on a fresh
//     in-memory ledger; every account / resource / kv / creator / totals lookup at every round the
//     recovered ledger serves (tracker DB round .. Latest), LookupLatest, LookupAgreement and
//     OnlineCirculation over the balance-lookback window, and duplicate detection for transactions
//     still in their validity window, must equal the reference;
//   * the recovered ledger must accept block Latest()+1 and a few more (generated on it, each
//     cross-evaluated on the reference ledger: same StateDelta), and still agree after a commit;
//   * a catchpoint file / label that was recorded before the kill must still be served afterwards.
// Rounds that legitimately left the served window are not queried; a lost tail of blocks that were
// never acknowledged is allowed (it is counted as evidence, not judged).

import (
	"archive/tar"
	"bufio"
	"bytes"
	"compress/gzip"
	"context"
	"database/sql"
	"encoding/json"
	"errors"
	"fmt"
	"io"
	"math/big"
	"os"
	"os/exec"
	"path/filepath"
	"runtime"
	"runtime/debug"
	"sort"
	"strconv"
	"strings"
	"sync"
	"sync/atomic"
	"syscall"
	"testing"
	"time"

	"github.com/algorand/go-algorand/agreement"
	"github.com/algorand/go-algorand/config"
	"github.com/algorand/go-algorand/data/basics"
	"github.com/algorand/go-algorand/data/bookkeeping"
	"github.com/algorand/go-algorand/data/committee"
	"github.com/algorand/go-algorand/ledger/ledgercore"
	"github.com/algorand/go-algorand/ledger/store/blockdb"
	"github.com/algorand/go-algorand/protocol"
	"github.com/algorand/go-algorand/util/db"
	"github.com/algorand/go-algorand/util/verifhook"
	"verif.local/kit"
)

const (
	c09EnvChild    = "VERIF_C09_CHILD"     // set => TestVerifC09Child runs
	c09EnvHist     = "VERIF_C09_HIST"      // history index (selects configuration and PRNG stream)
	c09EnvDir      = "VERIF_C09_DIR"       // case directory: journal + ledger files
	c09EnvBlocks   = "VERIF_C09_BLOCKS"    // number of blocks the child adds
	c09EnvReportAt = "VERIF_C09_REPORT_AT" // journal line count at which the child prints c09Reached
	c09EnvPanic    = "VERIF_C09_PANIC"      // <point>@<n>: in-process fault: the callback of the DB transaction panics ONCE at (about) the nth hit
	c09EnvThen     = "VERIF_C09_PANIC_THEN" // exit (die before the next tracker transaction) | kill:<K> (report K journal lines later, parent SIGKILLs)
	c09Reached     = "C09-REACHED"
	c09Fired       = "C09-PANIC-FIRED"
	c09Note        = "C09-NOTE generated block rejected by the generating ledger (class owned by C20):"
	c09CpInterval  = 4
)

// crash points (hook call sites committed in /repo behind build tag verif)
var c09Points = []string{
	"ledger.bq.syncer.beforeTx",
	"ledger.bq.syncer.afterBlockPut",
	"ledger.bq.syncer.afterTx",
	"ledger.bq.syncer.beforeNotify",
	"ledger.tr.commitRound.afterPrepare",
	"ledger.tr.commitRound.inTx.begin",
	"ledger.tr.commitRound.inTx.afterTracker",
	"ledger.tr.commitRound.inTx.beforeUpdateRound",
	"ledger.tr.commitRound.afterTx",
	"ledger.tr.commitRound.afterPostCommit",
	"ledger.ct.firstStage.beforeData",
	"ledger.ct.firstStage.afterData",
	"ledger.ct.secondStage.beforeCreate",
	"ledger.ct.secondStage.afterRecordFile",
}

func c09InTrackerTx(point string) bool {
	return strings.Contains(point, ".inTx.") || point == "ledger.ct.secondStage.afterRecordFile"
}

// ---- journal ----------------------------------------------------------------------------------

type c09Line struct {
	K     string            `json:"k"` // open | add | durable | flushed | cp | fs | label | hits | done
	R     uint64            `json:"r,omitempty"`
	H     string            `json:"h,omitempty"`   // block hash
	B     []byte            `json:"b,omitempty"`   // msgpack-encoded block
	DB    string            `json:"db,omitempty"`  // ledger file prefix
	Via   string            `json:"via,omitempty"` // which acknowledgement
	Label string            `json:"label,omitempty"`
	Hits  map[string]uint64 `json:"hits,omitempty"`
}

type c09Journal struct {
	f        *os.File
	n        atomic.Int64
	reportAt atomic.Int64 // 0 = never; may be set by the fault handler on a ledger goroutine
	reported sync.Once
}

func (j *c09Journal) report() {
	j.reported.Do(func() { os.Stdout.WriteString("\n" + c09Reached + "\n") })
}

func (j *c09Journal) write(c *kit.Ctx, ln c09Line) {
	b, err := json.Marshal(ln)
	if err != nil {
		c.Harness("journal marshal: %v", err)
	}
	b = append(b, '\n')
	if _, err := j.f.Write(b); err != nil {
		c.Harness("journal write: %v", err)
	}
	if err := j.f.Sync(); err != nil {
		c.Harness("journal sync: %v", err)
	}
	if n, at := j.n.Add(1), j.reportAt.Load(); at > 0 && n >= at {
		j.report()
	}
}

// c09ReadJournal parses the journal; a torn last line (kill during the write) is ignored.
func c09ReadJournal(path string) ([]c09Line, error) {
	b, err := os.ReadFile(path)
	if err != nil {
		return nil, err
	}
	var out []c09Line
	for len(b) > 0 {
		i := bytes.IndexByte(b, '\n')
		if i < 0 {
			break // no terminator: torn
		}
		var ln c09Line
		if err := json.Unmarshal(b[:i], &ln); err != nil {
			return out, fmt.Errorf("journal line %d unparsable: %v", len(out)+1, err)
		}
		out = append(out, ln)
		b = b[i+1:]
	}
	return out, nil
}

// ---- shared between child and parent ------------------------------------------------------------

var agreementCertC09 = agreement.Certificate{}

var c09SimMu sync.Mutex // hlNewSim derives directory names from the clock; keep creations apart

// c09Config is the configuration of history h (both tiers of ledger: archival and not).
func c09Config(r *kit.Rand, h int) hlConfig {
	cfg := hlRandomConfig(r)
	cfg.Archival = h%2 == 0
	cfg.CatchpointInterval = c09CpInterval
	cfg.CatchpointTracking = 2 // store catchpoint files also on non-archival ledgers
	if h%3 == 1 {
		cfg.Profile = "apps"
	}
	return cfg
}

// c09NewSim creates the simulator of history h. Child (on disk) and parent (in-memory reference)
// make the same PRNG draws, hence the same genesis.
func c09NewSim(t testing.TB, c *kit.Ctx, h int, onDisk bool) *hlSim {
	r := c.Rand(9, uint64(h))
	cfg := c09Config(r, h)
	cfg.OnDisk = onDisk
	if !onDisk {
		cfg.CatchpointInterval = 0 // the reference only evaluates blocks
		cfg.CatchpointTracking = 0
		cfg.Archival = true
	}
	c09SimMu.Lock()
	defer c09SimMu.Unlock()
	return hlNewSim(t, c, r, cfg)
}

// reference template per history: universe, genesis accounts and hash are a function of (seed, h)
var (
	c09TmplMu sync.Mutex
	c09Tmpl   = map[int]*hlSim{}
)

// c09NewRef opens a fresh in-memory reference ledger of history h on the CHILD's genesis block
// (same accounts and genesis hash by the same PRNG draws; the block itself carries the child's
// creation time) with an empty model.
func c09NewRef(t testing.TB, c *kit.Ctx, h int, genesisBlock bookkeeping.Block) *hlSim {
	c09TmplMu.Lock()
	tm := c09Tmpl[h]
	if tm == nil {
		tm = c09NewSim(t, c, h, false)
		tm.close()
		c09Tmpl[h] = tm
	}
	c09TmplMu.Unlock()
	s := &hlSim{t: t, c: c, r: c.Rand(9, uint64(h), 6000), cfg: tm.cfg, lcfg: tm.lcfg, log: tm.log, u: tm.u, stats: map[string]int{}}
	s.genesis = ledgercore.InitState{Block: genesisBlock, Accounts: tm.genesis.Accounts, GenesisHash: tm.genesis.GenesisHash}
	c09SimMu.Lock()
	s.dir = c.Scratch("ref")
	c09SimMu.Unlock()
	s.dbName = filepath.Join(s.dir, "ledger")
	s.open()
	s.m = hlNewModel()
	s.m.initGenesis(genesisBlock.BlockHeader, s.genesis.Accounts)
	s.g = hlNewGen(s)
	return s
}

// c09StepError says where producing a block failed. Stage "validate" (the ledger's own validation
// rejects the block its generating evaluator produced) is C20's class, not a recovery matter, unless
// the reference ledger disagrees.
type c09StepError struct {
	stage string // start | generate | validate | add
	blk   bookkeeping.Block
	err   error
}

func (e *c09StepError) Error() string { return e.stage + ": " + e.err.Error() }

// c09Step generates and adds one block exactly like hlSim.step/finishBlock, calling beforeAdd
// between validation and the hand-over to the ledger.
func c09Step(s *hlSim, beforeAdd func(blk bookkeeping.Block)) error {
	s.lastBlockGroups = s.lastBlockGroups[:0]
	ev, err := s.startEval()
	if err != nil {
		return &c09StepError{stage: "start", err: fmt.Errorf("StartEvaluator: %w", err)}
	}
	n := s.g.groupsPerBlock()
	for i := 0; i < n; i++ {
		s.g.offerRandom(ev)
	}
	proto := ev.ConsensusParams()
	prp, eligible := s.pickProposer()
	var participating []basics.Address
	if prp != s.u.sink {
		participating = []basics.Address{prp}
	}
	ub, err := ev.GenerateBlock(participating)
	if err != nil {
		return &c09StepError{stage: "generate", err: fmt.Errorf("GenerateBlock: %w", err)}
	}
	var seed committee.Seed
	s.r.Fill(seed[:])
	var blk bookkeeping.Block
	if proto.Payouts.Enabled {
		if prp != s.u.sink {
			// as agreement does: a proposer that closed its account inside this block gets no payout
			blk = ub.FinishBlock(seed, prp, eligible)
		} else {
			blk = ub.UnfinishedBlock().WithProposer(seed, prp, eligible)
		}
	} else {
		blk = ub.UnfinishedBlock().WithProposer(seed, basics.Address{}, false)
	}
	vb, err := s.validateNoSig(blk)
	if err != nil {
		return &c09StepError{stage: "validate", blk: blk, err: fmt.Errorf("Validate of generated block: %w", err)}
	}
	if beforeAdd != nil {
		beforeAdd(vb.Block())
	}
	if err := s.addValidated(vb); err != nil {
		return &c09StepError{stage: "add", blk: blk, err: err}
	}
	return nil
}

// c09ForceCommit forces a tracker commit of everything eligible THROUGH THE PRODUCTION PATH
// (Ledger.notifyCommit -> trackerRegistry.committedUpTo -> scheduleCommit -> commitSyncer goroutine),
// only removing the "flushed less than 5s ago" hold-off. hlSim.flush() calls commitRound on the
// caller's goroutine, which with catchpoints enabled can run concurrently with a background commit
// the block-queue syncer has just scheduled - an interleaving production never has.
func c09ForceCommit(s *hlSim) basics.Round {
	l := s.l
	s.waitBlockQueue()
	l.trackers.waitAccountsWriting()
	l.trackers.mu.Lock()
	l.trackers.lastFlushTime = time.Time{}
	l.trackers.mu.Unlock()
	l.notifyCommit(l.Latest())
	l.trackers.waitAccountsWriting()
	s.tr("forced commit -> dbRound %d (latest %d)", l.LatestTrackerCommitted(), l.Latest())
	return l.LatestTrackerCommitted()
}

// ---- child ------------------------------------------------------------------------------------

// c09RecordedCatchpoints lists catchpoint rounds whose file is recorded in the tracker DB and
// present on disk with the recorded size.
func c09RecordedCatchpoints(l *Ledger, upTo basics.Round) []uint64 {
	var out []uint64
	st := l.catchpoint.catchpointStore
	if st == nil {
		return nil
	}
	for r := basics.Round(c09CpInterval); r <= upTo; r += c09CpInterval {
		name, _, size, err := st.GetCatchpoint(context.Background(), r)
		if err != nil || name == "" {
			continue
		}
		fi, err := os.Stat(filepath.Join(l.catchpoint.dbDirectory, name))
		if err != nil || fi.Size() != size {
			continue
		}
		out = append(out, uint64(r))
	}
	return out
}

// c09ArmPanic installs the in-process fault: the callback of the block-flush transaction or of the
// tracker-commit transaction PANICS once (the committing code itself crashes in the middle of the
// transaction, the process lives on). Correct code turns that into a failed, rolled-back
// transaction (blockQueue.syncer retries the batch; trackerRegistry.commitRound reports the error,
// the trackers handleCommitError, a later commit covers the rounds). The child carries on
// journaling and is killed a little later, before the state could be overwritten.
func c09ArmPanic(c *kit.Ctx, s *hlSim, j *c09Journal, spec, then string) {
	i := strings.LastIndexByte(spec, '@')
	if i < 0 {
		c.Harness("bad %s=%q", c09EnvPanic, spec)
	}
	point := spec[:i]
	nth, _ := strconv.ParseUint(spec[i+1:], 10, 64)
	var fired atomic.Bool
	fire := func() {
		if !fired.CompareAndSwap(false, true) {
			return
		}
		os.Stdout.WriteString("\n" + c09Fired + " " + point + "\n")
		if then == "exit" {
			// die right before the next tracker commit transaction: nothing can repair the files in between
			const p = "ledger.tr.commitRound.afterPrepare"
			verifhook.Set(p, verifhook.ExitAt(verifhook.Hits(p)+1))
		} else {
			k, _ := strconv.Atoi(strings.TrimPrefix(then, "kill:"))
			j.reportAt.Store(j.n.Load() + int64(max(k, 1)))
		}
		// if the faulted ledger stalls the history (a wait that never returns), still get killed: timing of the kill only
		time.AfterFunc(20*time.Second, j.report)
		panic(fmt.Errorf("C09 injected fault: the transaction callback panics at %s", point))
	}
	if point != "ledger.bq.syncer.afterBlockPut" {
		verifhook.Set(point, func(_ string, hit uint64) {
			if hit >= nth {
				fire()
			}
		})
		return
	}
	// block flush: a fault after the LAST BlockPut of a batch tears nothing; wait for a batch of
	// several blocks (the flush is slowed a little so that batches form) and fault inside it
	var batchLen, pos atomic.Int64
	verifhook.Set("ledger.bq.syncer.beforeTx", func(string, uint64) {
		if fired.Load() {
			return
		}
		time.Sleep(40 * time.Millisecond)
		bq := s.l.blockQ
		bq.mu.Lock()
		batchLen.Store(int64(len(bq.q))) // >= the batch the syncer took
		bq.mu.Unlock()
		pos.Store(0)
	})
	verifhook.Set(point, func(_ string, hit uint64) {
		if p := pos.Add(1); hit >= nth && p < batchLen.Load() {
			fire()
		}
	})
}

func TestVerifC09Child(t *testing.T) {
	if os.Getenv(c09EnvChild) == "" {
		t.Skip("runs only as a child process of TestVerifC09")
	}
	c := kit.Start(t, "C09", "child") // never Finish()ed: the child writes no evidence
	h, _ := strconv.Atoi(os.Getenv(c09EnvHist))
	blocks, _ := strconv.Atoi(os.Getenv(c09EnvBlocks))
	reportAt, _ := strconv.Atoi(os.Getenv(c09EnvReportAt))
	dir := os.Getenv(c09EnvDir)
	f, err := os.OpenFile(filepath.Join(dir, "journal"), os.O_CREATE|os.O_WRONLY|os.O_APPEND, 0o644)
	if err != nil {
		c.Harness("journal: %v", err)
	}
	j := &c09Journal{f: f}
	j.reportAt.Store(int64(reportAt))
	t0 := time.Now()
	timing := func(what string) { // diagnostics only
		if os.Getenv("VERIF_C09_TIMING") != "" {
			fmt.Fprintf(os.Stderr, "C09-TIMING %s %v\n", what, time.Since(t0))
		}
	}
	timing("start")
	s := c09NewSim(t, c, h, true)
	timing("sim created")
	// the genesis block carries the creation time: the parent must rebuild its reference on THIS block
	j.write(c, c09Line{K: "open", DB: s.dbName, B: protocol.Encode(&s.genesis.Block)})
	if spec := os.Getenv(c09EnvPanic); spec != "" {
		c09ArmPanic(c, s, j, spec, os.Getenv(c09EnvThen))
	}
	durable := func(r basics.Round, via string) { j.write(c, c09Line{K: "durable", R: uint64(r), Via: via}) }
	cpSeen := map[uint64]bool{}
	fsSeen := map[basics.Round]bool{}
	lastLabel := ""
	catchpoints := func() {
		for _, r := range c09RecordedCatchpoints(s.l, s.l.LatestTrackerCommitted()) {
			if !cpSeen[r] {
				cpSeen[r] = true
				j.write(c, c09Line{K: "cp", R: r})
			}
		}
		// completed first-stage records (needed later by the second stage of the same catchpoint)
		if st := s.l.catchpoint.catchpointStore; st != nil {
			lookback := basics.Round(config.Consensus[s.cfg.Proto].CatchpointLookback)
			for x := basics.Round(1); x <= s.l.LatestTrackerCommitted(); x++ {
				if (x+lookback)%c09CpInterval != 0 || fsSeen[x] {
					continue
				}
				if _, ok, err := st.SelectCatchpointFirstStageInfo(context.Background(), x); err == nil && ok {
					fsSeen[x] = true
					j.write(c, c09Line{K: "fs", R: uint64(x)})
				}
			}
		}
		if lb := s.l.GetLastCatchpointLabel(); lb != "" && lb != lastLabel {
			lastLabel = lb
			j.write(c, c09Line{K: "label", Label: lb})
		}
	}
	for b := 0; b < blocks; b++ {
		var err error
		for try := 0; try < 6; try++ {
			err = c09Step(s, func(blk bookkeeping.Block) {
				j.write(c, c09Line{K: "add", R: uint64(blk.Round()), H: blk.Hash().String(), B: protocol.Encode(&blk)})
			})
			var se *c09StepError
			if err != nil && errors.As(err, &se) && se.stage == "validate" {
				// nothing was handed to the ledger; the class (a generated block failing validation) is C20's
				fmt.Printf("%s round %d: %v\n", c09Note, s.l.Latest()+1, err)
				continue
			}
			break
		}
		if err != nil {
			c.Harness("child cannot produce block: %v", err)
		}
		timing(fmt.Sprintf("block %d", b+1))
		latest := s.l.Latest()
		act := s.r.Pick([]int{34, 14, 8, 16, 4, 5, 6, 8})
		timing(fmt.Sprintf("action %d", act))
		switch act {
		case 0: // keep adding while the syncer works in the background
		case 1:
			r := latest.SubSaturate(basics.Round(s.r.Intn(3)))
			s.l.WaitForCommit(r)
			durable(r, "WaitForCommit")
		case 2:
			r := latest.SubSaturate(basics.Round(s.r.Intn(3)))
			<-s.l.Wait(r)
			durable(r, "Wait")
		case 3:
			db := c09ForceCommit(s) // waits for the block queue, then forces a tracker commit
			durable(latest, "flush")
			j.write(c, c09Line{K: "flushed", R: uint64(db)})
			catchpoints()
		case 4:
			s.settle()
			durable(latest, "settle")
			s.l.FlushCaches()
		case 5:
			s.reload()
			durable(latest, "reload")
		case 6:
			s.reopen()
			durable(latest, "reopen")
			catchpoints()
		case 7:
			s.settle()
			durable(latest, "settle")
			catchpoints()
		}
	}
	j.write(c, c09Line{K: "hits", Hits: verifhook.Counts()})
	j.write(c, c09Line{K: "done"})
	// leave without closing the ledger: process exit is one more crash point
	if os.Getenv("VERIF_C09_TIMING") != "" {
		return // diagnostics: let the testing package write its profiles
	}
	os.Exit(0)
}

// ---- parent: running children ---------------------------------------------------------------------

type c09Case struct {
	idx       int
	hist      int
	point     string // hook point, "sigkill" or "exit" (child runs to completion, ledger never closed)
	hit       uint64
	killAt    int // journal line count at which the child reports for the SIGKILL
	killDelay time.Duration
	blocks    int
	then      string // panic cases: "exit" or "kill:<K>"
}

func (cs c09Case) isPanic() bool { return strings.HasPrefix(cs.point, "panic:") }

func (cs c09Case) String() string {
	if cs.isPanic() {
		return fmt.Sprintf("case %d: history %d %s=%s@%d %s=%s (+SIGKILL %v after the report)", cs.idx, cs.hist, c09EnvPanic, cs.point[6:], cs.hit, c09EnvThen, cs.then, cs.killDelay)
	}
	switch cs.point {
	case "sigkill":
		return fmt.Sprintf("case %d: history %d SIGKILL %v after journal line %d", cs.idx, cs.hist, cs.killDelay, cs.killAt)
	case "exit":
		return fmt.Sprintf("case %d: history %d process exit without Close after %d blocks", cs.idx, cs.hist, cs.blocks)
	}
	return fmt.Sprintf("case %d: history %d VERIF_HOOKS=%s=exit@%d", cs.idx, cs.hist, cs.point, cs.hit)
}

type c09Run struct {
	how    string // hook | sigkill | completed | watchdog | error
	output string
	dir    string
	err    error
}

func c09RunChild(cs c09Case, base string) c09Run {
	dir := filepath.Join(base, fmt.Sprintf("case-%05d", cs.idx))
	if err := os.MkdirAll(dir, 0o755); err != nil {
		return c09Run{how: "error", err: err}
	}
	self := os.Getenv("VERIF_SELF")
	if self == "" {
		self = os.Args[0]
	}
	cmd := exec.Command(self, "-test.run=^TestVerifC09Child$", "-test.v", "-test.count=1", "-test.timeout=1200s")
	var env []string
	for _, e := range os.Environ() {
		if strings.HasPrefix(e, "GOGC=") || strings.HasPrefix(e, "VERIF_HOOKS=") || strings.HasPrefix(e, "VERIF_SCRATCH=") || strings.HasPrefix(e, "VERIF_OUT=") || strings.HasPrefix(e, "VERIF_C09_") {
			continue
		}
		env = append(env, e)
	}
	env = append(env, "GOGC=400", c09EnvChild+"=1", c09EnvHist+"="+strconv.Itoa(cs.hist), c09EnvDir+"="+dir,
		c09EnvBlocks+"="+strconv.Itoa(cs.blocks), "VERIF_SCRATCH="+dir, "VERIF_OUT="+dir)
	if cs.isPanic() {
		env = append(env, fmt.Sprintf("%s=%s@%d", c09EnvPanic, cs.point[6:], cs.hit), c09EnvThen+"="+cs.then)
	} else if cs.point == "sigkill" {
		env = append(env, c09EnvReportAt+"="+strconv.Itoa(cs.killAt))
	} else if cs.point != "exit" {
		env = append(env, fmt.Sprintf("VERIF_HOOKS=%s=exit@%d", cs.point, cs.hit))
	}
	cmd.Env = env
	cmd.SysProcAttr = &syscall.SysProcAttr{Pdeathsig: syscall.SIGKILL}
	pr, pw, err := os.Pipe()
	if err != nil {
		return c09Run{how: "error", err: err, dir: dir}
	}
	cmd.Stdout, cmd.Stderr = pw, pw
	// Pdeathsig is delivered when the starting THREAD dies; keep it alive for the child's lifetime
	runtime.LockOSThread()
	defer runtime.UnlockOSThread()
	if err := cmd.Start(); err != nil {
		pw.Close()
		pr.Close()
		return c09Run{how: "error", err: err, dir: dir}
	}
	pw.Close()
	var mu sync.Mutex
	killed, watchdog := false, false
	wd := time.AfterFunc(900*time.Second, func() { // watchdog only: never a verdict
		mu.Lock()
		watchdog = true
		mu.Unlock()
		cmd.Process.Kill()
	})
	var out bytes.Buffer
	sc := bufio.NewScanner(pr)
	sc.Buffer(make([]byte, 1<<16), 1<<22)
	for sc.Scan() {
		ln := sc.Text()
		if ln == c09Reached && (cs.point == "sigkill" || cs.isPanic()) {
			time.Sleep(cs.killDelay) // schedule noise only: where exactly the kill lands is arbitrary by design
			mu.Lock()
			killed = true
			mu.Unlock()
			cmd.Process.Kill()
			continue
		}
		if out.Len() < 1<<20 {
			out.WriteString(ln)
			out.WriteByte('\n')
		}
	}
	pr.Close()
	werr := cmd.Wait()
	wd.Stop()
	res := c09Run{output: out.String(), dir: dir}
	mu.Lock()
	defer mu.Unlock()
	ws, _ := cmd.ProcessState.Sys().(syscall.WaitStatus)
	switch {
	case watchdog:
		res.how = "watchdog"
	case ws.Signaled() && ws.Signal() == syscall.SIGKILL && killed:
		res.how = "sigkill"
	case ws.Exited() && ws.ExitStatus() == 137:
		res.how = "hook"
	case ws.Exited() && ws.ExitStatus() == 0:
		res.how = "completed"
	default:
		res.how = "error"
		res.err = fmt.Errorf("child ended with %v (%v)", cmd.ProcessState, werr)
	}
	return res
}

// ---- parent: judging the recovered ledger --------------------------------------------------------

// c09Snapshot copies the ledger files as the crash left them (witness, and source of the on-disk
// rounds before recovery touches anything).
func c09Snapshot(dbName, dst string) error { return c09CopyDir(filepath.Dir(dbName), dst) }

func c09CopyDir(src, dst string) error {
	return filepath.Walk(src, func(p string, fi os.FileInfo, err error) error {
		if err != nil {
			return err
		}
		rel, _ := filepath.Rel(src, p)
		if fi.IsDir() {
			return os.MkdirAll(filepath.Join(dst, rel), 0o755)
		}
		b, err := os.ReadFile(p)
		if err != nil {
			return err
		}
		return os.WriteFile(filepath.Join(dst, rel), b, 0o644)
	})
}

// c09DiskRounds reads block DB latest/earliest and the tracker DB round from a snapshot.
func c09DiskRounds(prefix string) (blkLatest, blkEarliest, trk basics.Round, err error) {
	bdb, err := db.MakeAccessor(prefix+".block.sqlite", false, false)
	if err != nil {
		return
	}
	defer bdb.Close()
	err = bdb.Atomic(func(ctx context.Context, tx *sql.Tx) error {
		var e error
		if blkLatest, e = blockdb.BlockLatest(tx); e != nil {
			return e
		}
		blkEarliest, e = blockdb.BlockEarliest(tx)
		return e
	})
	if err != nil {
		return
	}
	tdb, err := db.MakeAccessor(prefix+".tracker.sqlite", false, false)
	if err != nil {
		return
	}
	defer tdb.Close()
	err = tdb.Atomic(func(ctx context.Context, tx *sql.Tx) error {
		var v uint64
		if e := tx.QueryRow("SELECT rnd FROM acctrounds WHERE id='acctbase'").Scan(&v); e != nil {
			return e
		}
		trk = basics.Round(v)
		return nil
	})
	return
}

var c09FP = kit.FPOptions{NilEqualsEmpty: true, Skip: map[string]bool{"initialHint": true, "acctsCache": true, "appResourcesCache": true, "assetResourcesCache": true}}

// c09DeltaFP: structural fingerprint of a StateDelta with its keyed record slices in canonical order
// (emission order is not observable through the ledger).
func c09DeltaFP(d ledgercore.StateDelta) string {
	// NOT d.Dehydrate(): it clears the lookup-cache maps in place, and those maps are shared with the
	// delta the ledger's trackers hold (lookups at that round would silently miss). The caches are
	// skipped by name instead (c09FP) and nil == empty.
	ad := d.Accts
	ad.Accts = append([]ledgercore.BalanceRecord(nil), ad.Accts...)
	sort.Slice(ad.Accts, func(i, j int) bool { return bytes.Compare(ad.Accts[i].Addr[:], ad.Accts[j].Addr[:]) < 0 })
	ad.AppResources = append([]ledgercore.AppResourceRecord(nil), ad.AppResources...)
	sort.Slice(ad.AppResources, func(i, j int) bool {
		if c := bytes.Compare(ad.AppResources[i].Addr[:], ad.AppResources[j].Addr[:]); c != 0 {
			return c < 0
		}
		return ad.AppResources[i].Aidx < ad.AppResources[j].Aidx
	})
	ad.AssetResources = append([]ledgercore.AssetResourceRecord(nil), ad.AssetResources...)
	sort.Slice(ad.AssetResources, func(i, j int) bool {
		if c := bytes.Compare(ad.AssetResources[i].Addr[:], ad.AssetResources[j].Addr[:]); c != 0 {
			return c < 0
		}
		return ad.AssetResources[i].Aidx < ad.AssetResources[j].Aidx
	})
	d.Accts = ad
	return kit.Fingerprint(d, c09FP)
}

type c09Judge struct {
	c    *kit.Ctx
	cs   c09Case
	base map[string]any // witness fields common to all findings of this case
	viol int
}

func (jd *c09Judge) violation(key string, w map[string]any) {
	for k, v := range jd.base {
		if _, ok := w[k]; !ok {
			w[k] = v
		}
	}
	jd.viol++
	jd.c.Violation(key, w)
}

func c09SortedRes(ms ...map[hlRes]bool) []hlRes {
	seen := map[hlRes]bool{}
	for _, m := range ms {
		for k := range m {
			seen[k] = true
		}
	}
	out := make([]hlRes, 0, len(seen))
	for k := range seen {
		out = append(out, k)
	}
	sort.Slice(out, func(i, j int) bool {
		if c := bytes.Compare(out[i].addr[:], out[j].addr[:]); c != 0 {
			return c < 0
		}
		return out[i].idx < out[j].idx
	})
	return out
}

func c09Keys[T any](m map[hlRes]*hlHist[T]) map[hlRes]bool {
	out := map[hlRes]bool{}
	for k := range m {
		out[k] = true
	}
	return out
}

// c09Compare compares every lookup the recovered ledger serves with the reference model.
func (jd *c09Judge) compare(l *Ledger, m *hlModel, u *hlUniverse, r *kit.Rand, blocks map[basics.Round]bookkeeping.Block, stage string) {
	c := jd.c
	l.trackers.waitAccountsWriting() // nothing moves the tracker DB round while we compare
	latest := l.Latest()
	dbr := l.LatestTrackerCommitted()
	if latest != m.latest {
		jd.violation("state-differs-from-prefix-replay", map[string]any{"stage": stage, "what": "Latest() differs from the reference", "latest": latest, "reference_latest": m.latest})
		return
	}
	var rounds []basics.Round
	for rnd := dbr; rnd <= latest; rnd++ {
		rounds = append(rounds, rnd)
	}
	if len(rounds) > 9 {
		pick := map[basics.Round]bool{dbr: true, dbr + 1: true, latest: true, latest - 1: true}
		for i := 0; i < 4; i++ {
			pick[dbr+basics.Round(r.Uint64n(uint64(latest-dbr)+1))] = true
		}
		rounds = rounds[:0]
		for rnd := dbr; rnd <= latest; rnd++ {
			if pick[rnd] {
				rounds = append(rounds, rnd)
			}
		}
	}
	bad := 0
	differs := func(api string, rnd basics.Round, key string, got, want any, err error) {
		bad++
		if bad > 3 {
			return
		}
		jd.violation("state-differs-from-prefix-replay", map[string]any{"stage": stage, "api": api, "round": rnd, "latest": latest, "dbRound": dbr, "key": key, "got": fmt.Sprintf("%+v", got), "want": fmt.Sprintf("%+v", want), "error": fmt.Sprint(err)})
	}
	addrs := append(m.addresses(), hlAddr("nobody", 0))
	assetKeys := c09SortedRes(c09Keys(m.assetParams), c09Keys(m.assetHold))
	appKeys := c09SortedRes(c09Keys(m.appParams), c09Keys(m.appLocal))
	kvKeys := make([]string, 0, len(m.kv))
	for k := range m.kv {
		kvKeys = append(kvKeys, k)
	}
	sort.Strings(kvKeys)
	cidx := hlSortedIdx(func() map[basics.CreatableIndex]bool {
		o := map[basics.CreatableIndex]bool{}
		for k := range m.creators {
			o[k] = true
		}
		return o
	}())
	o := kit.FPOptions{NilEqualsEmpty: true}
	for _, rnd := range rounds {
		where := "deltas"
		if rnd == dbr {
			where = "db-round"
		}
		for _, a := range addrs {
			got, _, err := l.LookupWithoutRewards(rnd, a)
			want := m.acct(rnd, a)
			c.Eval(1)
			if err != nil || got != want {
				differs("LookupWithoutRewards", rnd, a.String(), got, want, err)
			}
			gotR, _, wr, err := l.LookupAccount(rnd, a)
			wantR := m.acctWithRewards(rnd, a)
			c.Eval(1)
			if err != nil || gotR != wantR || wr != want.MicroAlgos {
				differs("LookupAccount", rnd, a.String(), gotR, wantR, err)
			}
		}
		c.Count("lookups.account."+where, len(addrs))
		for _, k := range assetKeys {
			got, err := l.LookupAsset(rnd, k.addr, basics.AssetIndex(k.idx))
			wantP, okP := m.assetParams[k].at(rnd)
			wantH, okH := m.assetHold[k].at(rnd)
			c.Eval(1)
			ng := err != nil || (got.AssetParams != nil) != okP || (got.AssetHolding != nil) != okH
			if !ng && okP && *got.AssetParams != wantP {
				ng = true
			}
			if !ng && okH && *got.AssetHolding != wantH {
				ng = true
			}
			if ng {
				differs("LookupAsset", rnd, fmt.Sprintf("%s/%d", k.addr, k.idx), c08AssetStrC09(got), fmt.Sprintf("params(%v)=%+v holding(%v)=%+v", okP, wantP, okH, wantH), err)
			}
			if okP || okH {
				c.Count("lookups.asset_present", 1)
			}
		}
		for _, k := range appKeys {
			got, err := l.LookupApplication(rnd, k.addr, basics.AppIndex(k.idx))
			wantP, okP := m.appParams[k].at(rnd)
			wantL, okL := m.appLocal[k].at(rnd)
			c.Eval(1)
			ng := err != nil || (got.AppParams != nil) != okP || (got.AppLocalState != nil) != okL
			if !ng && okP && kit.Fingerprint(*got.AppParams, o) != kit.Fingerprint(wantP, o) {
				ng = true
			}
			if !ng && okL && kit.Fingerprint(*got.AppLocalState, o) != kit.Fingerprint(wantL, o) {
				ng = true
			}
			if ng {
				differs("LookupApplication", rnd, fmt.Sprintf("%s/%d", k.addr, k.idx), kit.Describe(got, o), fmt.Sprintf("params(%v)=%+v local(%v)=%+v", okP, wantP, okL, wantL), err)
			}
			if okP || okL {
				c.Count("lookups.app_present", 1)
			}
		}
		for _, k := range kvKeys {
			got, err := l.LookupKv(rnd, k)
			want, ok := m.kv[k].at(rnd)
			c.Eval(1)
			if err != nil || (got != nil) != ok || (ok && !bytes.Equal(got, want)) {
				differs("LookupKv", rnd, fmt.Sprintf("%x", k), fmt.Sprintf("%x (nil=%v)", got, got == nil), fmt.Sprintf("%x (present=%v)", want, ok), err)
			}
			if ok {
				c.Count("lookups.kv_present", 1)
			}
		}
		for _, idx := range cidx {
			for _, ct := range []basics.CreatableType{basics.AssetCreatable, basics.AppCreatable} {
				got, ok, err := l.GetCreatorForRound(rnd, idx, ct)
				want, wok := m.creator(rnd, idx, ct)
				c.Eval(1)
				if err != nil || ok != wok || (ok && got != want) {
					differs("GetCreatorForRound", rnd, fmt.Sprintf("%d/%d", idx, ct), fmt.Sprintf("%v %v", got, ok), fmt.Sprintf("%v %v", want, wok), err)
				}
			}
		}
		gotT, err := l.Totals(rnd)
		wantT := m.totals(rnd)
		c.Eval(1)
		c.Count("lookups.totals", 1)
		if err != nil || gotT != wantT {
			differs("Totals", rnd, "", gotT, wantT, err)
		}
	}
	// the latest round through LookupLatest (full account with resources, pending rewards applied)
	for _, a := range addrs {
		got, gotRnd, wr, err := l.LookupLatest(a)
		want := m.fullAccount(latest, a)
		wantR := m.acctWithRewards(latest, a)
		want.MicroAlgos, want.RewardsBase, want.RewardedMicroAlgos = wantR.MicroAlgos, wantR.RewardsBase, wantR.RewardedMicroAlgos
		c.Eval(1)
		if err != nil || gotRnd != latest || wr != m.acct(latest, a).MicroAlgos || kit.Fingerprint(got, o) != kit.Fingerprint(want, o) {
			differs("LookupLatest", gotRnd, a.String(), kit.Describe(got, o), kit.Describe(want, o), err)
		}
	}
	// what consensus asks: online data and circulation over the balance-lookback window
	p := m.proto(latest)
	lo := latest.SubSaturate(basics.Round(p.MaxBalLookback))
	for rnd := lo; rnd <= latest; rnd++ {
		where := "memory"
		if rnd < dbr {
			where = "history"
		}
		for _, a := range u.keyed {
			got, err := l.LookupAgreement(rnd, a)
			want := m.onlineData(rnd, a)
			c.Eval(1)
			c.Count("lookups.agreement."+where, 1)
			if err != nil || got != want {
				differs("LookupAgreement", rnd, a.String(), got, want, err)
			}
		}
		for _, vr := range []basics.Round{rnd, rnd + 1, rnd + basics.Round(p.MaxBalLookback)} {
			got, err := l.OnlineCirculation(rnd, vr)
			want, _ := m.circulation(rnd, vr)
			c.Eval(1)
			c.Count("lookups.circulation", 1)
			if err != nil || new(big.Int).SetUint64(got.Raw).Cmp(want) != 0 {
				differs("OnlineCirculation", rnd, fmt.Sprintf("voteRnd %d", vr), got.Raw, want.String(), err)
			}
		}
	}
	// duplicate detection: every transaction of the prefix still inside its validity window
	next := latest + 1
	for rnd := latest.SubSaturate(basics.Round(p.MaxTxnLife)) + 1; rnd <= latest; rnd++ {
		blk, ok := blocks[rnd]
		if !ok || rnd == 0 {
			continue
		}
		flat, err := blk.DecodePaysetFlat()
		if err != nil {
			continue
		}
		for _, stad := range flat {
			tx := stad.SignedTxn.Txn
			if tx.LastValid < next {
				continue
			}
			err := l.CheckDup(p, next, tx.FirstValid, tx.LastValid, stad.SignedTxn.ID(), ledgercore.Txlease{Sender: tx.Sender, Lease: tx.Lease})
			var til *ledgercore.TransactionInLedgerError
			var lil *ledgercore.LeaseInLedgerError
			c.Eval(1)
			c.Count("lookups.checkdup", 1)
			if !errors.As(err, &til) && !errors.As(err, &lil) {
				differs("CheckDup", rnd, stad.SignedTxn.ID().String(), fmt.Sprint(err), "TransactionInLedgerError (committed in round "+fmt.Sprint(rnd)+")", nil)
			}
		}
	}
	if bad > 3 {
		c.Observation("%s: %d more differing lookups at stage %s suppressed", jd.cs, bad-3, stage)
	}
}

func c08AssetStrC09(r ledgercore.AssetResource) string {
	s := ""
	if r.AssetParams != nil {
		s += fmt.Sprintf("params=%+v ", *r.AssetParams)
	}
	if r.AssetHolding != nil {
		s += fmt.Sprintf("holding=%+v", *r.AssetHolding)
	}
	return s
}

func cfgString(c *kit.Ctx, h int) string {
	cfg := c09Config(c.Rand(9, uint64(h)), h)
	cfg.OnDisk = true
	return cfg.String()
}

func c09LabelRound(label string) (uint64, bool) {
	i := strings.IndexByte(label, '#')
	if i <= 0 {
		return 0, false
	}
	v, err := strconv.ParseUint(label[:i], 10, 64)
	return v, err == nil
}

func c09ReplayDir() string {
	d := os.Getenv("VERIF_REPLAY_DIR")
	if d == "" {
		d = "/verif/build/replay"
	}
	return d
}

// c09Judge1 judges one finished child. It returns an error for harness trouble (inconclusive).
func c09Judge1(t testing.TB, c *kit.Ctx, cs c09Case, run c09Run) (hits map[string]uint64, jlines int, herr error) {
	defer func() {
		// a c.Harness inside a helper ends this goroutine through runtime.Goexit; nothing to add
	}()
	tail := func(s string, n int) string {
		if len(s) > n {
			return "…" + s[len(s)-n:]
		}
		return s
	}
	if strings.Contains(run.output, "VIOLATION property=") {
		// the child's in-process monitors (reload / clean reopen) fired; the details are in its replay file
		c.Violation("child-reported-violation", map[string]any{"case": cs.String(), "child_output": tail(run.output, 3000)})
	}
	if i := strings.Index(run.output, c09Note); i >= 0 {
		ln := run.output[i:]
		if k := strings.IndexByte(ln, '\n'); k > 0 {
			ln = ln[:k]
		}
		c.Count("anomaly_owned_by_C20.generated_block_rejected", 1)
		c.Observation("anomaly owned by C20 (history %d, %s): %s", cs.hist, cfgString(c, cs.hist), ln)
	}
	switch run.how {
	case "watchdog":
		return nil, 0, fmt.Errorf("%s: child neither finished nor died within the watchdog (inconclusive); output: %s", cs, tail(run.output, 1500))
	case "error":
		if strings.Contains(run.output, "HARNESS-ERROR") || strings.Contains(run.output, "VIOLATION property=") {
			return nil, 0, fmt.Errorf("%s: child failed: %v; output: %s", cs, run.err, tail(run.output, 1500))
		}
		// the process running the ledger died on its own (panic / fatal error in the code under test)
		c.Violation("child-process-crash", map[string]any{"case": cs.String(), "error": fmt.Sprint(run.err), "child_output": tail(run.output, 4000)})
		return nil, 0, nil
	}
	lines, jerr := c09ReadJournal(filepath.Join(run.dir, "journal"))
	if jerr != nil && len(lines) == 0 {
		c.Count("killed_before_ledger_existed", 1)
		return nil, 0, nil
	}
	if jerr != nil {
		return nil, 0, fmt.Errorf("%s: %v", cs, jerr)
	}
	var dbName, label string
	var genesisBlock bookkeeping.Block
	added := map[basics.Round]c09Line{}
	var maxAdded, maxDurable, maxFlushed basics.Round
	durableVia := ""
	var cps, fss []uint64
	completed := false
	for _, ln := range lines {
		switch ln.K {
		case "open":
			dbName = ln.DB
			if err := protocol.Decode(ln.B, &genesisBlock); err != nil {
				return nil, 0, fmt.Errorf("%s: journaled genesis block undecodable: %v", cs, err)
			}
		case "add":
			added[basics.Round(ln.R)] = ln
			maxAdded = max(maxAdded, basics.Round(ln.R))
		case "durable":
			if basics.Round(ln.R) >= maxDurable {
				maxDurable, durableVia = basics.Round(ln.R), ln.Via
			}
		case "flushed":
			maxFlushed = max(maxFlushed, basics.Round(ln.R))
		case "cp":
			cps = append(cps, ln.R)
		case "fs":
			fss = append(fss, ln.R)
		case "label":
			label = ln.Label
		case "hits":
			hits = ln.Hits
		case "done":
			completed = true
		}
	}
	jlines = len(lines)
	if dbName == "" {
		c.Count("killed_before_ledger_existed", 1)
		return hits, jlines, nil
	}
	if run.how == "completed" && !completed {
		return nil, 0, fmt.Errorf("%s: child exited 0 without completing its journal; output: %s", cs, tail(run.output, 1500))
	}
	point := cs.point
	if run.how == "completed" {
		if cs.point != "exit" {
			c.Count("not_taken."+cs.point, 1)
		}
		point = "exit"
	}

	// the files exactly as the crash left them
	snap := filepath.Join(run.dir, "snapshot")
	if err := c09Snapshot(dbName, snap); err != nil {
		return nil, 0, fmt.Errorf("%s: snapshot: %v", cs, err)
	}
	diskLatest, diskEarliest, diskTracker, derr := c09DiskRounds(filepath.Join(snap, filepath.Base(dbName)))
	if derr != nil {
		// killed while the databases were being created: nothing was ever acknowledged
		if maxAdded == 0 {
			c.Count("killed_before_ledger_existed", 1)
			return hits, jlines, nil
		}
		return nil, 0, fmt.Errorf("%s: cannot read the crashed databases: %v", cs, derr)
	}
	// re-snapshot: reading went through SQLite (WAL recovery/checkpoint happened on the copy); keep a pristine one
	os.RemoveAll(snap)
	if err := c09Snapshot(dbName, snap); err != nil {
		return nil, 0, fmt.Errorf("%s: snapshot: %v", cs, err)
	}
	gap := int64(diskLatest) - int64(diskTracker)
	jd := &c09Judge{c: c, cs: cs}
	jd.base = map[string]any{"case": cs.String(), "child_ended": run.how, "journal_lines": jlines, "max_round_handed_over": maxAdded,
		"max_round_acknowledged_durable": maxDurable, "acknowledged_via": durableVia, "last_forced_commit_round": maxFlushed,
		"disk_block_latest": diskLatest, "disk_block_earliest": diskEarliest, "disk_tracker_round": diskTracker,
		"replay": fmt.Sprintf("VERIF_SEED=%d bin/verif check C09; the files as the crash left them and the journal: %s/C09-crash-seed%d-case%d.files.tar", c.Seed, c09ReplayDir(), c.Seed, cs.idx)}
	defer func() {
		if jd.viol > 0 {
			// a single file: the driver cleans the replay directory with os.remove
			dst := filepath.Join(c09ReplayDir(), fmt.Sprintf("C09-crash-seed%d-case%d.files.tar", c.Seed, cs.idx))
			if b, err := os.ReadFile(filepath.Join(run.dir, "journal")); err == nil {
				os.WriteFile(filepath.Join(snap, "journal"), b, 0o644)
			}
			c09TarDir(snap, dst)
		}
		os.RemoveAll(run.dir)
	}()

	ref := c09NewRef(t, c, cs.hist, genesisBlock)
	defer ref.close()
	cfgR := c.Rand(9, uint64(cs.hist))
	cfg := c09Config(cfgR, cs.hist)
	cfg.OnDisk = true
	jd.base["config"] = cfg.String()
	lc := ref.lcfg
	lc.Archival = cfg.Archival
	lc.CatchpointInterval = cfg.CatchpointInterval
	lc.CatchpointTracking = cfg.CatchpointTracking

	// 1. the ledger must open
	var l *Ledger
	var oerr error
	if c.Guard("open-after-crash", jd.base, func() { l, oerr = OpenLedger(hlDiscardLogger(), dbName, false, ref.genesis, lc) }) {
		jd.viol++
		return hits, jlines, nil
	}
	c.Eval(1)
	if oerr != nil {
		jd.violation("open-after-crash-failed", map[string]any{"error": oerr.Error()})
		return hits, jlines, nil
	}
	defer l.Close()
	l.trackers.waitAccountsWriting()
	latest := l.Latest()
	jd.base["recovered_latest"] = latest
	jd.base["recovered_tracker_round"] = l.LatestTrackerCommitted()

	// 2. nothing acknowledged is lost, nothing unknown appears
	c.Eval(1)
	if latest < maxDurable {
		jd.violation("acknowledged-block-lost", map[string]any{"what": fmt.Sprintf("%s(%d) had returned before the kill, the reopened ledger ends at %d", durableVia, maxDurable, latest)})
		return hits, jlines, nil
	}
	if latest > maxAdded {
		jd.violation("block-beyond-history", map[string]any{"what": "the reopened ledger has a round the child never handed over"})
		return hits, jlines, nil
	}

	// 3. stored blocks: journaled hash, contiguous from the earliest kept block
	var earliest basics.Round
	if err := l.blockDBs.Rdb.Atomic(func(ctx context.Context, tx *sql.Tx) (e error) { earliest, e = blockdb.BlockEarliest(tx); return }); err != nil {
		jd.violation("stored-blocks-inconsistent", map[string]any{"what": "BlockEarliest failed", "error": err.Error()})
		return hits, jlines, nil
	}
	if cfg.Archival && earliest != 0 {
		jd.violation("stored-blocks-inconsistent", map[string]any{"what": "archival ledger lost its early blocks", "earliest": earliest})
	}
	blocks := map[basics.Round]bookkeeping.Block{}
	for r := basics.Round(1); r <= latest; r++ {
		var blk bookkeeping.Block
		if err := protocol.Decode(added[r].B, &blk); err != nil {
			return nil, 0, fmt.Errorf("%s: journal block %d undecodable: %v", cs, r, err)
		}
		blocks[r] = blk
	}
	for r := max(earliest, 1); r <= latest; r++ {
		got, err := l.Block(r)
		c.Eval(1)
		c.Count("blocks_checked", 1)
		if err != nil {
			jd.violation("stored-blocks-inconsistent", map[string]any{"what": "gap: a round between the earliest kept block and Latest() is not served", "round": r, "earliest": earliest, "error": err.Error()})
			return hits, jlines, nil
		}
		if got.Hash().String() != added[r].H {
			jd.violation("stored-blocks-inconsistent", map[string]any{"what": "stored block differs from the block handed over for that round", "round": r, "stored_hash": got.Hash().String(), "journaled_hash": added[r].H})
			return hits, jlines, nil
		}
	}

	// 4. reference: evaluate exactly blocks 1..latest on a fresh in-memory ledger
	for r := basics.Round(1); r <= latest; r++ {
		vb, err := ref.validateNoSig(blocks[r])
		if err != nil {
			return nil, 0, fmt.Errorf("%s: reference ledger rejects journaled block %d: %v", cs, r, err)
		}
		if err := ref.l.AddValidatedBlock(*vb, agreementCertC09); err != nil {
			return nil, 0, fmt.Errorf("%s: reference ledger AddValidatedBlock %d: %v", cs, r, err)
		}
		ref.m.apply(vb.Block().BlockHeader, vb.Delta())
	}

	// evidence about the crash itself
	c.Count("crash."+point, 1)
	c.Count("crashes_judged", 1)
	if run.how != "completed" {
		c.Count("crashes_taken", 1)
	}
	if cs.isPanic() && run.how != "completed" && strings.Contains(run.output, c09Fired) {
		c.Count("panic_faults_taken", 1)
		c.Count("panic_fault."+cs.point[6:], 1)
	}
	if run.how == "hook" && !cs.isPanic() && c09InTrackerTx(cs.point) {
		c.Count("crashes_inside_tracker_transaction", 1)
	}
	if run.how == "hook" && !cs.isPanic() && cs.point == "ledger.bq.syncer.afterBlockPut" {
		c.Count("crashes_inside_block_transaction", 1)
	}
	if gap > 0 {
		c.Count("crashes_blockdb_ahead_of_trackerdb", 1)
		c.Count("rounds_replayed_on_reopen", int(gap))
	}
	if gap > int64(lc.MaxAcctLookback) {
		c.Count("crashes_gap_beyond_lookback", 1)
	}
	c.Max("max_blockdb_minus_trackerdb", gap)
	c.Count(fmt.Sprintf("gap.%02d", min(gap, 30)), 1)
	if maxAdded > latest {
		c.Count("crashes_lost_unacknowledged_tail", 1)
		c.Count("unacknowledged_blocks_lost", int(maxAdded-latest))
	}
	if latest > maxDurable {
		c.Count("crashes_kept_more_than_acknowledged", 1)
	}
	c.Distinct(fmt.Sprintf("%s|gap%d", point, gap))
	c.Sample(map[string]any{"case": cs.String(), "ended": run.how, "config": cfg.String(), "handed_over": maxAdded, "acknowledged": maxDurable,
		"disk_blocks": diskLatest, "disk_tracker": diskTracker, "recovered_latest": latest})

	// 5. state equals the replay of exactly that prefix
	vr := c.Rand(9, uint64(cs.hist), 5000, uint64(cs.idx))
	jd.compare(l, ref.m, ref.u, vr, blocks, "after-recovery")

	// 6. catchpoint artefacts recorded before the kill are still served
	for _, r := range cps {
		c.Eval(1)
		c.Count("catchpoint_files_checked", 1)
		rc, err := l.GetCatchpointStream(basics.Round(r))
		if err != nil {
			jd.violation("catchpoint-lost-after-crash", map[string]any{"what": "a catchpoint file recorded before the kill is no longer served", "catchpoint_round": r, "error": err.Error()})
			continue
		}
		if err := c09ReadCatchpoint(rc); err != nil {
			jd.violation("catchpoint-lost-after-crash", map[string]any{"what": "a catchpoint file recorded before the kill is unreadable", "catchpoint_round": r, "error": err.Error()})
		}
		rc.Close()
	}
	// a completed first-stage record may only disappear by pruning, which removes rounds
	// <= trackerDBround - CatchpointLookback; younger ones are still needed by their second stage
	l.trackers.waitAccountsWriting()
	cpLookback := config.Consensus[cfg.Proto].CatchpointLookback
	for _, x := range fss {
		if x+cpLookback <= uint64(l.LatestTrackerCommitted()) {
			continue
		}
		c.Eval(1)
		c.Count("catchpoint_first_stage_records_checked", 1)
		_, ok, err := l.catchpoint.catchpointStore.SelectCatchpointFirstStageInfo(context.Background(), basics.Round(x))
		if err != nil || !ok {
			jd.violation("catchpoint-lost-after-crash", map[string]any{"what": "a completed first-stage catchpoint record that its second stage still needs is gone", "first_stage_round": x, "catchpoint_lookback": cpLookback, "tracker_round_now": l.LatestTrackerCommitted(), "error": fmt.Sprint(err)})
		}
	}
	if label != "" {
		now := l.GetLastCatchpointLabel()
		was, _ := c09LabelRound(label)
		cur, ok := c09LabelRound(now)
		c.Eval(1)
		c.Count("catchpoint_labels_checked", 1)
		if !ok || cur < was || (cur == was && now != label) {
			jd.violation("catchpoint-lost-after-crash", map[string]any{"what": "the last catchpoint label went backwards or changed", "before_kill": label, "after_recovery": now})
		}
	}
	if jd.viol > 0 {
		return hits, jlines, nil
	}

	// 7. the ledger continues: block latest+1 and a few more, cross-evaluated on the reference
	cont := &hlSim{t: t, c: c, r: c.Rand(9, uint64(cs.hist), 7000, uint64(cs.idx)), cfg: cfg, lcfg: lc, stats: map[string]int{},
		dir: filepath.Dir(dbName), dbName: dbName, genesis: ref.genesis, log: ref.log, l: l, m: ref.m, u: ref.u}
	cont.g = hlNewGen(cont)
	cont.onBlock = append(cont.onBlock, func(vb *ledgercore.ValidatedBlock) {
		blk := vb.Block()
		blocks[blk.Round()] = blk
		rv, err := ref.validateNoSig(blk)
		c.Eval(1)
		if err != nil {
			jd.violation("evaluation-differs-after-recovery", map[string]any{"what": "a block generated on the recovered ledger is rejected by the reference ledger", "round": blk.Round(), "error": err.Error()})
			return
		}
		if c09DeltaFP(rv.Delta()) != c09DeltaFP(vb.Delta()) {
			jd.violation("evaluation-differs-after-recovery", map[string]any{"what": "StateDelta of the same block differs between recovered and reference ledger", "round": blk.Round(),
				"recovered": kit.Describe(vb.Delta(), c09FP), "reference": kit.Describe(rv.Delta(), c09FP)})
			return
		}
		if err := ref.l.AddValidatedBlock(*rv, agreementCertC09); err != nil {
			c.Observation("%s: reference AddValidatedBlock: %v", cs, err)
		}
	})
	more := 3 + cont.r.Intn(4)
	for i, tries := 0, 0; i < more && jd.viol == 0; i++ {
		err := c09Step(cont, nil)
		var se *c09StepError
		if err != nil && errors.As(err, &se) && se.stage == "validate" && tries < 6 {
			// the recovered ledger rejects the block it generated itself: a recovery matter only if a
			// ledger that never crashed judges the same block differently
			if _, rerr := ref.validateNoSig(se.blk); rerr != nil {
				tries++
				i--
				c.Count("anomaly_owned_by_C20.generated_block_rejected", 1)
				c.Observation("anomaly owned by C20 (%s): recovered and reference ledger both reject a generated block: %v / %v", cs, err, rerr)
				continue
			}
			jd.violation("evaluation-differs-after-recovery", map[string]any{"what": "the recovered ledger rejects a block it generated, the reference ledger accepts it", "round": l.Latest() + 1, "error": err.Error()})
			return hits, jlines, nil
		}
		if err != nil {
			jd.violation("cannot-extend-after-recovery", map[string]any{"what": "the recovered ledger does not accept the next block", "round": l.Latest() + 1, "error": err.Error()})
			return hits, jlines, nil
		}
		c.Count("blocks_added_after_recovery", 1)
	}
	if jd.viol > 0 {
		return hits, jlines, nil
	}
	c09ForceCommit(cont)
	jd.compare(l, ref.m, ref.u, vr, blocks, "after-continuation-and-commit")
	return hits, jlines, nil
}

func c09TarDir(src, dst string) error {
	f, err := os.Create(dst)
	if err != nil {
		return err
	}
	defer f.Close()
	tw := tar.NewWriter(f)
	defer tw.Close()
	return filepath.Walk(src, func(p string, fi os.FileInfo, err error) error {
		if err != nil || fi.IsDir() {
			return err
		}
		rel, _ := filepath.Rel(src, p)
		b, err := os.ReadFile(p)
		if err != nil {
			return err
		}
		if err := tw.WriteHeader(&tar.Header{Name: rel, Mode: 0o644, Size: int64(len(b))}); err != nil {
			return err
		}
		_, err = tw.Write(b)
		return err
	})
}

func c09ReadCatchpoint(rc io.Reader) error {
	gz, err := gzip.NewReader(rc)
	if err != nil {
		return err
	}
	tr := tar.NewReader(gz)
	n := 0
	for {
		_, err := tr.Next()
		if err == io.EOF {
			break
		}
		if err != nil {
			return err
		}
		if _, err := io.Copy(io.Discard, tr); err != nil {
			return err
		}
		n++
	}
	if n == 0 {
		return errors.New("empty catchpoint archive")
	}
	return nil
}

// ---- parent test ---------------------------------------------------------------------------------

func TestVerifC09(t *testing.T) {
	c := kit.Start(t, "C09", "crash")
	defer c.Finish()
	c.Rule("child processes run PRNG HL histories on an on-disk ledger (archival and non-archival, catchpoints every 4 rounds, reduced-lookback protocols, PRNG schedule of WaitForCommit/Wait/forced commits/reload/reopen) and journal every block before handing it over and every durability acknowledgement after receiving it; each child is killed by a verifhook exit at (hook point, hit index) — block-queue flush before/inside/after the block transaction, tracker commit before/inside/after the transaction, catchpoint first/second stage — or by SIGKILL at a PRNG journal position, or exits without Close; hit indices are drawn from the hit counts of an unarmed run of the same history; second fault class: the callback of the block-flush transaction (inside a multi-block batch) or of the tracker-commit transaction (at begin / after a tracker / before the round update) PANICS once in-process (the transaction must roll back and be retried), the child carries on journaling and is killed right before the next tracker transaction or by SIGKILL a few journal lines later; the parent reopens the files and compares with a replay of exactly the recovered prefix; distinct = distinct (kill point, blockDB−trackerDB round gap on disk) pairs")
	c.Assume("process kill only: the OS keeps every completed write (no power loss, no torn page below SQLite)")
	c.Assume("the reference is the real evaluator run on a fresh in-memory ledger over the journaled blocks plus the HL per-round model (evaluation itself is checked by C18-C24)")
	hlRegisterProtos()
	hlPrograms()
	// every ledger preallocates several hundred MB of caches; collect less often (no effect on verdicts)
	defer debug.SetGCPercent(debug.SetGCPercent(400))
	nHist := c.N(2, 10)
	hitsPer := c.N(2, 8)
	nKill := c.N(14, 300)
	blocks := c.N(40, 60)
	workers := min(8, max(2, runtime.NumCPU()/2))
	base := c.Scratch("cases")
	defer os.RemoveAll(base)

	type result struct {
		cs    c09Case
		hits  map[string]uint64
		lines int
		err   error
	}
	runAll := func(cases []c09Case) []result {
		out := make([]result, len(cases))
		var wg sync.WaitGroup
		ch := make(chan int)
		for w := 0; w < workers; w++ {
			wg.Add(1)
			go func() {
				defer wg.Done()
				for i := range ch {
					func() {
						out[i] = result{cs: cases[i], err: errors.New("judge aborted (harness error printed above)")}
						run := c09RunChild(cases[i], base)
						if run.how == "error" && run.output == "" && run.err != nil {
							out[i].err = run.err
							return
						}
						hits, lines, err := c09Judge1(t, c, cases[i], run)
						out[i] = result{cs: cases[i], hits: hits, lines: lines, err: err}
					}()
				}
			}()
		}
		for i := range cases {
			if c.Violations() >= 12 {
				out[i].err = nil
				continue
			}
			ch <- i
		}
		close(ch)
		wg.Wait()
		return out
	}
	check := func(rs []result) {
		for _, r := range rs {
			if r.err != nil && c.Violations() < 12 {
				c.Harness("%v", r.err)
			}
		}
	}

	// phase 1: one unarmed run per history (exits without Close): hit counts and journal length
	idx := 0
	var probes []c09Case
	for h := 0; h < nHist; h++ {
		probes = append(probes, c09Case{idx: idx, hist: h, point: "exit", blocks: blocks})
		idx++
	}
	pr := runAll(probes)
	check(pr)

	// phase 2: every named point x hit indices x histories, plus SIGKILLs
	var cases []c09Case
	seen := map[string]bool{}
	for h := 0; h < nHist; h++ {
		for pi, p := range c09Points {
			n := pr[h].hits[p]
			if n == 0 {
				c.Count("point_not_reached_in_history", 1)
				continue
			}
			r := c.Rand(9, uint64(h), 100, uint64(pi))
			for k := 0; k < hitsPer; k++ {
				var hit uint64
				if k == 0 {
					hit = 1 + r.Uint64n(min(n, 3)) // early: little state on disk yet
				} else {
					hit = 1 + r.Uint64n(n)
				}
				key := fmt.Sprintf("%d|%s|%d", h, p, hit)
				if seen[key] {
					hit = 1 + (hit+uint64(k))%n
					key = fmt.Sprintf("%d|%s|%d", h, p, hit)
				}
				if seen[key] {
					continue
				}
				seen[key] = true
				cases = append(cases, c09Case{idx: idx, hist: h, point: p, hit: hit, blocks: blocks})
				idx++
			}
		}
	}
	for i := 0; i < nKill; i++ {
		h := i % nHist
		r := c.Rand(9, uint64(h), 200, uint64(i))
		n := max(pr[h].lines-2, 2)
		cases = append(cases, c09Case{idx: idx, hist: h, point: "sigkill", killAt: 2 + r.Intn(n-1), killDelay: time.Duration(r.Intn(4000)) * time.Microsecond, blocks: blocks})
		idx++
	}
	// fault class 2: the transaction callback itself panics once (process survives), kill shortly after
	panicPoints := []string{"ledger.bq.syncer.afterBlockPut", "ledger.tr.commitRound.inTx.begin", "ledger.tr.commitRound.inTx.afterTracker", "ledger.tr.commitRound.inTx.beforeUpdateRound"}
	for h := 0; h < min(nHist, c.N(1, 4)); h++ {
		for pi, p := range panicPoints {
			n := pr[h].hits[p]
			if n == 0 {
				c.Count("point_not_reached_in_history", 1)
				continue
			}
			r := c.Rand(9, uint64(h), 300, uint64(pi))
			for k := 0; k < c.N(2, 4); k++ {
				cs := c09Case{idx: idx, hist: h, point: "panic:" + p, hit: 1 + r.Uint64n(max(n*2/3, 1)), blocks: blocks, killDelay: time.Duration(r.Intn(3000)) * time.Microsecond}
				switch {
				case pi == 0:
					cs.then = fmt.Sprintf("kill:%d", 2+r.Intn(8)) // let acknowledgements arrive
				case k%2 == 0:
					cs.then = "exit"
				default:
					cs.then = fmt.Sprintf("kill:%d", 1+r.Intn(4))
				}
				cases = append(cases, cs)
				idx++
			}
		}
	}
	c.Count("children_started", len(probes)+len(cases))
	check(runAll(cases))

	points := 0
	for _, p := range append([]string{"sigkill", "exit"}, c09Points...) {
		if c.Counter("crash."+p) > 0 {
			points++
		}
	}
	c.Count("distinct_points_with_crash", points)
	c.Require("distinct_points_with_crash", 12)
	pp := 0
	for _, p := range panicPoints {
		if c.Counter("panic_fault."+p) > 0 {
			pp++
		}
	}
	c.Count("distinct_panic_points_with_crash", pp)
	c.Require("distinct_panic_points_with_crash", 3)
	c.Require("panic_faults_taken", int64(c.N(5, 40)))
	c.Require("crashes_taken", int64(c.N(40, 700)))
	c.Require("crashes_blockdb_ahead_of_trackerdb", int64(c.N(20, 300)))
	c.Require("crashes_inside_tracker_transaction", int64(c.N(4, 60)))
	c.Require("crashes_lost_unacknowledged_tail", int64(c.N(3, 40)))
	c.Require("crash.sigkill", int64(c.N(5, 150)))
	c.Require("blocks_added_after_recovery", int64(c.N(100, 2000)))
	c.Require("lookups.asset_present", 50)
	c.Require("lookups.app_present", 50)
	c.Require("lookups.kv_present", 20)
	c.Require("lookups.agreement.history", 50)
	c.Require("catchpoint_files_checked", int64(c.N(3, 50)))
	c.Require("catchpoint_first_stage_records_checked", int64(c.N(3, 50)))
}
