package ledger

// Shared helpers of the catchpoint monitors (C14 labels, C15 end-to-end, C16 restore/tamper):
// twin ledgers fed with recorded blocks, catchpoint file (de)serialisation, label sampling, and
// the catchpoint restore procedure in the call order of catchup/catchpointService.go.

import (
	"archive/tar"
	"bytes"
	"compress/gzip"
	"context"
	"errors"
	"fmt"
	"io"
	"os"
	"path/filepath"
	"time"

	"github.com/algorand/go-algorand/agreement"
	"github.com/algorand/go-algorand/config"
	"github.com/algorand/go-algorand/data/basics"
	"github.com/algorand/go-algorand/data/bookkeeping"
	"github.com/algorand/go-algorand/data/transactions"
	"github.com/algorand/go-algorand/data/txntest"
	"github.com/algorand/go-algorand/ledger/eval"
	"github.com/algorand/go-algorand/ledger/ledgercore"
	"github.com/algorand/go-algorand/ledger/store/trackerdb"
	"github.com/algorand/go-algorand/protocol"
	"verif.local/kit"
)

// ---- twin ledgers -------------------------------------------------------------------------

// cpTwin opens a second real on-disk ledger with the genesis of a, its own files, its own node
// configuration and its own schedule PRNG. It shares a's reference model (same history).
func cpTwin(a *hlSim, r *kit.Rand, lcfg config.Local, tag string) *hlSim {
	b := &hlSim{t: a.t, c: a.c, r: r, cfg: a.cfg, stats: map[string]int{}, genesis: a.genesis, lcfg: lcfg, log: a.log, u: a.u}
	b.cfg.MaxAcctLookback = lcfg.MaxAcctLookback
	b.cfg.Archival = lcfg.Archival
	b.cfg.CatchpointInterval = lcfg.CatchpointInterval
	b.cfg.CatchpointTracking = lcfg.CatchpointTracking
	b.dir = a.c.Scratch("cp-" + tag)
	b.dbName = filepath.Join(b.dir, "ledger")
	b.open()
	b.m = a.m
	return b
}

// cpCloneSim makes an independent simulator (own ledger files, own reference model, own
// generator) with the genesis and universe of a and a COPY of a's PRNG state. Called right after
// hlNewSim(a), the clone generates exactly the history a generates (used to run two ledgers in
// lockstep). The genesis block must be shared: its timestamp is the wall clock.
func cpCloneSim(a *hlSim, tag string) *hlSim {
	r := *a.r
	b := &hlSim{t: a.t, c: a.c, r: &r, cfg: a.cfg, stats: map[string]int{}, genesis: a.genesis, lcfg: a.lcfg, log: a.log, u: a.u}
	b.dir = a.c.Scratch("cp-" + tag)
	b.dbName = filepath.Join(b.dir, "ledger")
	b.open()
	b.m = hlNewModel()
	b.m.initGenesis(a.genesis.Block.BlockHeader, a.genesis.Accounts)
	b.g = hlNewGen(b)
	return b
}

// cpAddBlock feeds a recorded block to a twin the way a node receives it from the network
// (AddBlock re-evaluates the block against the twin's own state).
func cpAddBlock(b *hlSim, blk bookkeeping.Block) error {
	if err := b.l.AddBlock(blk, agreement.Certificate{}); err != nil {
		return err
	}
	b.tr("block %d", blk.Round())
	return nil
}

// cpStepWith is hlSim.step with a hook that may offer scripted groups after the PRNG-chosen ones.
func cpStepWith(a *hlSim, scripted func(ev *eval.BlockEvaluator)) *ledgercore.ValidatedBlock {
	a.lastBlockGroups = a.lastBlockGroups[:0]
	ev, err := a.startEval()
	if err != nil {
		a.c.Harness("StartEvaluator: %v", err)
	}
	for i, n := 0, a.g.groupsPerBlock(); i < n; i++ {
		a.g.offerRandom(ev)
	}
	if scripted != nil {
		scripted(ev)
	}
	vb, err := a.finishBlock(ev)
	if err != nil {
		a.c.Violation("generated-block-rejected", map[string]any{"round": a.m.latest + 1, "error": err.Error(), "config": a.cfg.String(), "trace": a.traceTail(30)})
		a.c.Harness("cannot continue after %v", err)
	}
	return vb
}

// cpOfferAuth offers a single scripted transaction, signed by whoever the sender is currently
// rekeyed to (the PRNG workload rekeys accounts; the evaluator checks the authorizer).
func cpOfferAuth(a *hlSim, ev *eval.BlockEvaluator, kind string, tx txntest.Txn) error {
	tx.Note = a.g.nextNote()
	if tx.GenesisHash.IsZero() {
		tx.GenesisHash = a.l.GenesisHash()
	}
	if tx.FirstValid == 0 {
		tx.FirstValid = ev.Round()
	}
	tx.FillDefaults(ev.ConsensusParams())
	stx := tx.SignedTxn()
	if auth := a.m.acct(a.m.latest, tx.Sender).AuthAddr; !auth.IsZero() && auth != tx.Sender {
		stx.AuthAddr = auth
	}
	return a.offerSigned(ev, kind, []transactions.SignedTxn{stx})
}

// cpFlush commits everything eligible through the ledger's own commit queue (the single
// commitSyncer goroutine), the way upstream's testCatchpointFlushRound does. hlSim.flush calls
// trackerRegistry.commitRound directly, which is only sound while the background syncer never
// schedules a commit on its own; with catchpoint tracking it does so at every first/second stage
// round and two concurrent commitRound calls are not a schedule a node can produce.
func cpFlush(s *hlSim) basics.Round {
	l := s.l
	for i := 0; i < 64; i++ {
		l.WaitForCommit(l.Latest())
		before := l.LatestTrackerCommitted()
		l.trackers.mu.Lock()
		l.trackers.lastFlushTime = time.Time{}
		l.trackers.mu.Unlock()
		r, _ := l.LatestCommitted()
		l.trackerMu.Lock()
		l.trackers.committedUpTo(r)
		l.trackers.waitAccountsWriting()
		l.trackerMu.Unlock()
		if l.LatestTrackerCommitted() == before {
			break
		}
	}
	s.tr("flush -> dbRound %d (latest %d)", l.LatestTrackerCommitted(), l.Latest())
	return l.LatestTrackerCommitted()
}

// cpScheduleAction is hlSim.scheduleAction with cpFlush as the forced commit.
func cpScheduleAction(s *hlSim) string {
	switch s.r.Pick([]int{40, 20, 14, 6, 5, 5, 10}) {
	case 0:
		return "none"
	case 1:
		s.waitBlockQueue()
		return "wait-bq"
	case 2:
		cpFlush(s)
		return "flush"
	case 3:
		s.settle()
		s.l.FlushCaches()
		s.tr("flush-caches")
		return "flush-caches"
	case 4:
		s.reload()
		return "reload"
	case 5:
		s.reopen()
		return "reopen"
	default:
		s.settle()
		return "settle"
	}
}

// ---- catchpoint parameters ------------------------------------------------------------------

func cpLookback(p config.ConsensusParams) basics.Round {
	if p.CatchpointLookback != 0 {
		return basics.Round(p.CatchpointLookback)
	}
	return basics.Round(p.MaxBalLookback)
}

// cpPendingFirstStage reports whether the ledger's DB holds first-stage information whose
// catchpoint (second stage) has not been reached yet by the tracker DB round.
func cpPendingFirstStage(s *hlSim) (basics.Round, bool) {
	db := s.l.LatestTrackerCommitted()
	lb := cpLookback(config.Consensus[s.cfg.Proto])
	iv := basics.Round(s.cfg.CatchpointInterval)
	if iv == 0 {
		return 0, false
	}
	// largest first-stage round F <= db with (F+lb) % iv == 0
	x := (db + lb) / iv * iv
	if x < lb {
		return 0, false
	}
	f := x - lb
	if f == 0 || db >= x {
		return 0, false
	}
	_, exists, err := s.l.catchpoint.catchpointStore.SelectCatchpointFirstStageInfo(context.Background(), f)
	if err != nil || !exists {
		return 0, false
	}
	return f, true
}

// cpFirstStage reads the first-stage record of balances round f (label components).
func cpFirstStage(l *Ledger, f basics.Round) (trackerdb.CatchpointFirstStageInfo, bool) {
	info, exists, err := l.catchpoint.catchpointStore.SelectCatchpointFirstStageInfo(context.Background(), f)
	if err != nil || !exists {
		return trackerdb.CatchpointFirstStageInfo{}, false
	}
	return info, true
}

func cpStageStr(i trackerdb.CatchpointFirstStageInfo) string {
	return fmt.Sprintf("totals=%+v trie=%s spver=%s onlineaccts=%s onlineroundparams=%s", i.Totals, i.TrieBalancesHash, i.StateProofVerificationHash, i.OnlineAccountsHash, i.OnlineRoundParamsHash)
}

// ---- catchpoint files --------------------------------------------------------------------------

type cpEntry struct {
	Name string
	Data []byte
}

func cpCloneEntries(in []cpEntry) []cpEntry {
	out := make([]cpEntry, len(in))
	for i, e := range in {
		out[i] = cpEntry{e.Name, append([]byte(nil), e.Data...)}
	}
	return out
}

// cpReadTar reads every entry of a tar stream.
func cpReadTar(rd io.Reader) ([]cpEntry, error) {
	tr := tar.NewReader(rd)
	var out []cpEntry
	for {
		h, err := tr.Next()
		if err == io.EOF {
			return out, nil
		}
		if err != nil {
			return out, err
		}
		data := make([]byte, h.Size)
		if _, err := io.ReadFull(tr, data); err != nil {
			return out, err
		}
		out = append(out, cpEntry{h.Name, data})
	}
}

// cpReadCatchpointFile reads a finished catchpoint file (gzip'ed tar) served by the ledger.
func cpReadCatchpointFile(l *Ledger, rnd basics.Round) ([]cpEntry, error) {
	st, err := l.GetCatchpointStream(rnd)
	if err != nil {
		return nil, err
	}
	defer st.Close()
	gz, err := gzip.NewReader(st)
	if err != nil {
		return nil, err
	}
	defer gz.Close()
	return cpReadTar(gz)
}

// cpTar serialises entries as the (decompressed) tar stream a catching-up node reads.
func cpTar(entries []cpEntry) []byte {
	var buf bytes.Buffer
	tw := tar.NewWriter(&buf)
	for _, e := range entries {
		if err := tw.WriteHeader(&tar.Header{Name: e.Name, Mode: 0600, Size: int64(len(e.Data))}); err != nil {
			panic(err)
		}
		if _, err := tw.Write(e.Data); err != nil {
			panic(err)
		}
	}
	tw.Close()
	return buf.Bytes()
}

func cpHeader(entries []cpEntry) (CatchpointFileHeader, bool) {
	for _, e := range entries {
		if e.Name == CatchpointContentFileName {
			var h CatchpointFileHeader
			if err := protocol.Decode(e.Data, &h); err != nil {
				return h, false
			}
			return h, true
		}
	}
	return CatchpointFileHeader{}, false
}

// ---- restore ------------------------------------------------------------------------------------

// cpBlockSource is what the network offers to a catching-up node: the blocks of the real chain.
type cpBlockSource map[basics.Round]bookkeeping.Block

type cpRestoreResult struct {
	L        *Ledger // the restored ledger when Stage == "adopted" (caller closes)
	Dir      string
	Stage    string // stage at which the restore stopped ("adopted" = completed)
	Err      error
	Verified bool // VerifyCatchpoint returned nil
}

// cpRestore feeds the tar stream to a fresh ledger through the real accessor in the order of
// catchup/catchpointService.go: SetLabel, ResetStagingBalances, ProcessStagingBalances per tar
// entry (reading the stream as catchup/ledgerFetcher.go does), BuildMerkleTrie,
// GetCatchupBlockRound, block fetch + the service's header checks, VerifyCatchpoint,
// StoreBalancesRound, StoreFirstBlock, StoreBlock for the preceding blocks (each checked against
// its successor's Branch), CompleteCatchup.
func cpRestore(c *kit.Ctx, genesis ledgercore.InitState, lcfg config.Local, stream []byte, label string, src cpBlockSource) (res cpRestoreResult) {
	ctx := context.Background()
	res.Dir = c.Scratch("cp-restore")
	l, err := OpenLedger(hlDiscardLogger(), filepath.Join(res.Dir, "ledger"), false, genesis, lcfg)
	if err != nil {
		c.Harness("OpenLedger for restore: %v", err)
	}
	fail := func(stage string, err error) cpRestoreResult {
		res.Stage, res.Err = stage, err
		l.Close()
		return res
	}
	acc := MakeCatchpointCatchupAccessor(l, l.log)
	if err := acc.SetLabel(ctx, label); err != nil {
		return fail("set-label", err)
	}
	if err := acc.ResetStagingBalances(ctx, true); err != nil {
		return fail("reset-staging", err)
	}
	// ledgerFetcher.getPeerLedger
	var progress CatchpointCatchupAccessorProgress
	tr := tar.NewReader(bytes.NewReader(stream))
	for {
		h, err := tr.Next()
		if err != nil {
			if err == io.EOF {
				break
			}
			return fail("download:tar", err)
		}
		if h.Size < 1 {
			return fail("download:tar", fmt.Errorf("tar header with data size of %d", h.Size))
		}
		data := make([]byte, h.Size)
		if _, err := io.ReadFull(tr, data); err != nil {
			return fail("download:tar", err)
		}
		if err := acc.ProcessStagingBalances(ctx, h.Name, data, &progress); err != nil {
			return fail("download:process", err)
		}
	}
	if err := acc.BuildMerkleTrie(ctx, nil); err != nil {
		return fail("build-trie", err)
	}
	// processStageLatestBlockDownload
	blockRound, err := acc.GetCatchupBlockRound(ctx)
	if err != nil {
		return fail("block-round", err)
	}
	blk, ok := src[blockRound]
	if !ok {
		return fail("fetch-block", fmt.Errorf("the chain has no block %d", blockRound))
	}
	protoParams, ok := config.Consensus[blk.CurrentProtocol]
	if !ok {
		return fail("fetch-block", errors.New("unsupported protocol"))
	}
	if protoParams.SupportGenesisHash && blk.GenesisHash() != l.GenesisHash() {
		return fail("fetch-block", errors.New("genesis hash mismatch"))
	}
	if !blk.ContentsMatchHeader() {
		return fail("fetch-block", errors.New("contents do not match header"))
	}
	if err := acc.VerifyCatchpoint(ctx, &blk); err != nil {
		return fail("verify", err)
	}
	res.Verified = true
	if err := acc.StoreBalancesRound(ctx, &blk); err != nil {
		return fail("store-balances-round", err)
	}
	if err := acc.StoreFirstBlock(ctx, &blk, &agreement.Certificate{}); err != nil {
		return fail("store-first-block", err)
	}
	// processStageBlocksDownload
	top, err := acc.EnsureFirstBlock(ctx)
	if err != nil {
		return fail("ensure-first-block", err)
	}
	p := config.Consensus[top.CurrentProtocol]
	lookback := max(p.MaxTxnLife+p.DeeperBlockHeaderHistory+p.CatchpointLookback, p.MaxBalLookback)
	if sp := cpLookbackForStateproofs(&top); lookback < sp {
		lookback = sp
	}
	if lookback >= uint64(top.Round()) {
		lookback = uint64(top.Round() - 1)
	}
	prev := top
	for i := uint64(1); i <= lookback; i++ {
		b, ok := src[top.Round()-basics.Round(i)]
		if !ok {
			return fail("fetch-block", fmt.Errorf("the chain has no block %d", top.Round()-basics.Round(i)))
		}
		if prev.BlockHeader.Branch != b.Hash() {
			return fail("fetch-block", errors.New("block does not match its successor"))
		}
		if err := acc.StoreBlock(ctx, &b, &agreement.Certificate{}); err != nil {
			return fail("store-block", err)
		}
		prev = b
	}
	// processStageSwitch
	if err := acc.CompleteCatchup(ctx); err != nil {
		return fail("complete", err)
	}
	res.L, res.Stage = l, "adopted"
	return res
}

// cpLookbackForStateproofs mirrors catchup.lookbackForStateproofsSupport (which blocks a node
// downloads is not what is judged here; the function only has to supply enough of the real chain).
func cpLookbackForStateproofs(top *bookkeeping.Block) uint64 {
	proto := config.Consensus[top.CurrentProtocol]
	if proto.StateProofInterval == 0 {
		return 0
	}
	// stateproof.GetOldestExpectedStateProof
	recent := basics.Round(uint64(top.Round()) - uint64(top.Round())%proto.StateProofInterval)
	lowest := recent.SubSaturate(basics.Round(proto.StateProofInterval * proto.StateProofMaxRecoveryIntervals))
	if nxt := top.StateProofTracking[protocol.StateProofBasic].StateProofNextRound; nxt > lowest {
		lowest = nxt
	}
	lowest = lowest.SubSaturate(basics.Round(proto.StateProofInterval))
	lowest = lowest.SubSaturate(basics.Round(proto.StateProofVotersLookback))
	return uint64(top.Round().SubSaturate(lowest))
}

func cpCert() agreement.Certificate { return agreement.Certificate{} }

// cpRemove deletes a scratch directory of a finished restore.
func cpRemove(dir string) {
	if dir != "" {
		os.RemoveAll(dir)
	}
}
