package trackerdb

// C15 (leaf level): a catchpoint label commits to a unique ledger state.
//
// The label is a hash over the balances-trie root; the trie's element set is the set of leaf
// hashes produced by AccountHashBuilderV6 / ResourcesHashBuilderV6 / KvHashBuilderV6, one per
// stored entry. Two states that differ in one entry but map that entry to the same leaf have
// the same element set, hence the same root and label. This monitor therefore generates PAIRS OF
// DIFFERENT ENTRIES that are structural neighbours (one field changed, bytes moved across each
// internal boundary of the hash pre-image, kind swapped, update-round prefixes equal) and demands
// that the two leaves differ. Oracle = inequality only; a genuine SHA-512/256 collision is not on
// the table, so any equal pair is a structural ambiguity of the pre-image.
//
// The oracle is not stricter than the property: both entries of every pair are entries that can be
// stored (boxes obey the name/size limits enforced by the AVM, resources are pure asset or pure
// app entries with legal flag combinations, encoded data is the canonical msgpack of a real
// struct), and pairs whose two members are the same stored entry (e.g. nil vs empty map, which
// encode identically) are skipped and counted, never reported.

import (
	"bytes"
	"encoding/binary"
	"encoding/hex"
	"fmt"
	"reflect"
	"runtime"
	"sync"
	"testing"

	"github.com/algorand/go-algorand/data/basics"
	"github.com/algorand/go-algorand/protocol"
	"verif.local/kit"
)

// limits enforced by data/transactions/logic/box.go:lengthChecks under the current protocol
// (MaxAppKeyLen = 64, MaxBoxSize = 32768): 1 <= len(name) <= 64, size <= 32768.
const (
	c15MaxBoxName = 64
	c15MaxBoxSize = 32768
)

// c15Entry is one stored entry in the form the hash builders see it.
type c15Entry struct {
	Kind  string // "account" | "resource" | "kv"
	Addr  basics.Address
	Cidx  basics.CreatableIndex
	Acct  *BaseAccountData
	Res   *ResourcesData
	Enc   []byte // canonical encoding of Acct / Res
	Key   string // kv
	Value []byte // kv
}

// identity returns a byte string that is equal for two entries iff they are the same stored entry.
func (e *c15Entry) identity() string {
	switch e.Kind {
	case "account":
		return "A|" + string(e.Addr[:]) + "|" + string(e.Enc)
	case "resource":
		var ix [8]byte
		binary.BigEndian.PutUint64(ix[:], uint64(e.Cidx))
		// the asset/app kind is a function of Enc (flags + fields), so it is covered
		return "R|" + string(e.Addr[:]) + "|" + string(ix[:]) + "|" + string(e.Enc)
	default:
		return fmt.Sprintf("K|%d|%s|%s", len(e.Key), e.Key, e.Value)
	}
}

func (e *c15Entry) describe() map[string]any {
	m := map[string]any{"kind": e.Kind}
	switch e.Kind {
	case "account":
		m["addr"] = hex.EncodeToString(e.Addr[:])
		m["encoded"] = hex.EncodeToString(e.Enc)
	case "resource":
		m["addr"] = hex.EncodeToString(e.Addr[:])
		m["cidx"] = uint64(e.Cidx)
		m["encoded"] = hex.EncodeToString(e.Enc)
		if e.Res != nil {
			m["is_asset"] = e.Res.IsAsset()
			m["is_app"] = e.Res.IsApp()
		}
	case "kv":
		m["key"] = hex.EncodeToString([]byte(e.Key))
		m["value"] = hex.EncodeToString(e.Value)
		if app, name, ok := c15SplitBox(e.Key); ok {
			m["box_app"] = app
			m["box_name"] = hex.EncodeToString([]byte(name))
			m["box_name_len"] = len(name)
			m["box_size"] = len(e.Value)
			m["legal_box"] = len(name) >= 1 && len(name) <= c15MaxBoxName && len(e.Value) <= c15MaxBoxSize
		}
	}
	return m
}

// leaf calls the production hash builder the way ledger/catchpointtracker.go does.
func (e *c15Entry) leaf() ([]byte, error) {
	switch e.Kind {
	case "account":
		return AccountHashBuilderV6(e.Addr, e.Acct, e.Enc), nil
	case "resource":
		return ResourcesHashBuilderV6(e.Res, e.Addr, e.Cidx, e.Res.UpdateRound, e.Enc)
	default:
		return KvHashBuilderV6(e.Key, e.Value), nil
	}
}

func c15BoxKey(app uint64, name string) string {
	k := make([]byte, 11+len(name))
	copy(k, "bx:")
	binary.BigEndian.PutUint64(k[3:], app)
	copy(k[11:], name)
	return string(k)
}

func c15SplitBox(key string) (uint64, string, bool) {
	if len(key) < 11 || key[:3] != "bx:" {
		return 0, "", false
	}
	return binary.BigEndian.Uint64([]byte(key[3:11])), key[11:], true
}

// ---- generators -------------------------------------------------------------------------

func c15RandAddr(r *kit.Rand) (a basics.Address) {
	switch r.Intn(6) {
	case 0: // low-entropy address
		a[31] = byte(r.Intn(4))
	case 1:
		for i := range a {
			a[i] = 0xff
		}
		a[r.Intn(32)] = byte(r.Intn(256))
	default:
		r.Fill(a[:])
	}
	return
}

func c15RandU64(r *kit.Rand) uint64 {
	if r.Chance(1, 3) {
		return 0
	}
	if r.Chance(1, 2) {
		return uint64(r.Intn(1000))
	}
	return r.Boundary64()
}

func c15RandTKV(r *kit.Rand) basics.TealKeyValue {
	n := r.Intn(4)
	if n == 0 {
		return nil
	}
	m := basics.TealKeyValue{}
	for i := 0; i < n; i++ {
		k := string(r.Bytes(r.Range(1, 8)))
		if r.Bool() {
			m[k] = basics.TealValue{Type: basics.TealUintType, Uint: c15RandU64(r)}
		} else {
			m[k] = basics.TealValue{Type: basics.TealBytesType, Bytes: string(r.Bytes(r.Intn(8)))}
		}
	}
	return m
}

func c15RandAccount(r *kit.Rand) *BaseAccountData {
	d := &BaseAccountData{}
	d.Status = basics.Status(r.Intn(3))
	d.MicroAlgos.Raw = c15RandU64(r)
	d.RewardsBase = c15RandU64(r)
	d.RewardedMicroAlgos.Raw = c15RandU64(r)
	if r.Chance(1, 3) {
		d.AuthAddr = c15RandAddr(r)
	}
	d.TotalAppSchemaNumUint = uint64(r.Intn(4))
	d.TotalAppSchemaNumByteSlice = uint64(r.Intn(4))
	d.TotalExtraAppPages = uint32(r.Intn(3))
	d.TotalAssetParams = uint64(r.Intn(3))
	d.TotalAssets = uint64(r.Intn(5))
	d.TotalAppParams = uint64(r.Intn(3))
	d.TotalAppLocalStates = uint64(r.Intn(3))
	d.TotalBoxes = uint64(r.Intn(5))
	d.TotalBoxBytes = uint64(r.Intn(300))
	d.IncentiveEligible = r.Chance(1, 4)
	d.LastProposed = basics.Round(r.Intn(3) * r.Intn(100000))
	d.LastHeartbeat = basics.Round(r.Intn(3) * r.Intn(100000))
	if r.Chance(1, 2) {
		r.Fill(d.VoteID[:])
		r.Fill(d.SelectionID[:])
		r.Fill(d.StateProofID[:])
		d.VoteFirstValid = basics.Round(r.Intn(100000))
		d.VoteLastValid = d.VoteFirstValid + basics.Round(r.Intn(3000000))
		d.VoteKeyDilution = uint64(r.Intn(10000))
	}
	if r.Chance(5, 6) {
		d.UpdateRound = c15RandUpdateRound(r)
	}
	return d
}

func c15RandUpdateRound(r *kit.Rand) uint64 {
	switch r.Intn(4) {
	case 0:
		return uint64(r.Intn(1 << 20))
	case 1:
		return uint64(1)<<32 + uint64(r.Intn(16)) - 8
	default:
		return uint64(r.Intn(1 << 30))
	}
}

// c15RandResource returns a legal pure-asset (asset=true) or pure-app resource entry built through
// the production setters, so ResourceFlags are the combinations the ledger really persists.
func c15RandResource(r *kit.Rand, asset bool) *ResourcesData {
	rd := MakeResourcesData(c15RandUpdateRound(r))
	holding := r.Bool()
	owning := !holding || r.Bool()
	if asset {
		if owning {
			ap := basics.AssetParams{Total: c15RandU64(r), Decimals: uint32(r.Intn(20)), DefaultFrozen: r.Chance(1, 4)}
			if r.Bool() {
				ap.UnitName = string(r.Bytes(r.Intn(8)))
				ap.AssetName = string(r.Bytes(r.Intn(16)))
				ap.URL = string(r.Bytes(r.Intn(16)))
			}
			if r.Bool() {
				r.Fill(ap.MetadataHash[:])
				ap.Manager, ap.Reserve = c15RandAddr(r), c15RandAddr(r)
			}
			if r.Chance(1, 3) {
				ap.Freeze, ap.Clawback = c15RandAddr(r), c15RandAddr(r)
			}
			if r.Chance(1, 6) {
				ap = basics.AssetParams{} // all-default params: only the flags say "owning"
			}
			rd.SetAssetParams(ap, holding)
		}
		if holding {
			rd.SetAssetHolding(basics.AssetHolding{Amount: c15RandU64(r), Frozen: r.Chance(1, 4)})
		}
	} else {
		if owning {
			ap := basics.AppParams{}
			if !r.Chance(1, 6) {
				ap.ApprovalProgram = r.Bytes(r.Range(1, 24))
				ap.ClearStateProgram = r.Bytes(r.Range(1, 12))
				ap.GlobalState = c15RandTKV(r)
				ap.LocalStateSchema = basics.StateSchema{NumUint: uint64(r.Intn(4)), NumByteSlice: uint64(r.Intn(4))}
				ap.GlobalStateSchema = basics.StateSchema{NumUint: uint64(r.Intn(4)), NumByteSlice: uint64(r.Intn(4))}
				ap.ExtraProgramPages = uint32(r.Intn(3))
				ap.Version = uint64(r.Intn(3))
			}
			rd.SetAppParams(ap, holding)
		}
		if holding {
			als := basics.AppLocalState{}
			if !r.Chance(1, 4) {
				als.Schema = basics.StateSchema{NumUint: uint64(r.Intn(4)), NumByteSlice: uint64(r.Intn(4))}
				als.KeyValue = c15RandTKV(r)
			}
			rd.SetAppLocalState(als)
		}
	}
	return &rd
}

func c15RandCidx(r *kit.Rand) basics.CreatableIndex {
	switch r.Intn(5) {
	case 0:
		return basics.CreatableIndex(r.Range(1, 300))
	case 1:
		return basics.CreatableIndex(uint64(1)<<32 + uint64(r.Intn(8)) - 4)
	case 2:
		return basics.CreatableIndex(r.Boundary64())
	default:
		return basics.CreatableIndex(r.Range(1, 1<<30))
	}
}

func c15RandBox(r *kit.Rand) (uint64, string, []byte) {
	app := uint64(r.Range(1, 1<<20))
	if r.Chance(1, 4) {
		app = r.Boundary64()
	}
	name := r.Bytes(r.Range(1, 12))
	if r.Chance(1, 8) {
		name = r.Bytes(r.Range(1, c15MaxBoxName))
	}
	if r.Chance(1, 3) { // printable, clustered names
		for i := range name {
			name[i] = "abc"[r.Intn(3)]
		}
	}
	val := r.Bytes(r.Intn(10))
	if r.Chance(1, 3) {
		for i := range val {
			val[i] = "abc"[r.Intn(3)]
		}
	}
	if r.Chance(1, 40) {
		val = r.Bytes(r.Range(100, 2000))
	}
	return app, string(name), val
}

func c15Account(addr basics.Address, d *BaseAccountData) *c15Entry {
	return &c15Entry{Kind: "account", Addr: addr, Acct: d, Enc: protocol.Encode(d)}
}
func c15Res(addr basics.Address, cidx basics.CreatableIndex, d *ResourcesData) *c15Entry {
	return &c15Entry{Kind: "resource", Addr: addr, Cidx: cidx, Res: d, Enc: protocol.Encode(d)}
}
func c15Kv(key string, val []byte) *c15Entry {
	return &c15Entry{Kind: "kv", Key: key, Value: append([]byte(nil), val...)}
}

// ---- reflection-based single-field mutation ------------------------------------------------

type c15Leaf struct {
	path string
	v    reflect.Value
}

func c15Leaves(v reflect.Value, path string, out *[]c15Leaf) {
	switch v.Kind() {
	case reflect.Struct:
		for i := 0; i < v.NumField(); i++ {
			f := v.Type().Field(i)
			if f.Name == "_struct" {
				continue
			}
			c15Leaves(v.Field(i), path+"."+f.Name, out)
		}
	case reflect.Array:
		if v.Type().Elem().Kind() == reflect.Uint8 {
			*out = append(*out, c15Leaf{path, v})
			return
		}
		for i := 0; i < v.Len(); i++ {
			c15Leaves(v.Index(i), fmt.Sprintf("%s[%d]", path, i), out)
		}
	default:
		*out = append(*out, c15Leaf{path, v})
	}
}

// c15MutateLeaf changes the value of one leaf in place so that it differs from the old value.
func c15MutateLeaf(r *kit.Rand, l c15Leaf) {
	v := l.v
	switch v.Kind() {
	case reflect.Bool:
		v.SetBool(!v.Bool())
	case reflect.Uint8, reflect.Uint16, reflect.Uint32, reflect.Uint64, reflect.Uint:
		old := v.Uint()
		bitsz := uint(v.Type().Bits())
		var nv uint64
		switch r.Intn(5) {
		case 0:
			nv = old + 1
		case 1:
			nv = old ^ (1 << uint(r.Intn(int(bitsz))))
		case 2:
			nv = old + (1 << 32) // same low 32 bits
		case 3:
			nv = old << 8 // byte shift
		default:
			nv = r.Uint64()
		}
		if bitsz < 64 {
			nv &= (1 << bitsz) - 1
		}
		if nv == old {
			nv = old ^ 1
		}
		v.SetUint(nv)
	case reflect.Array: // byte array
		i := r.Intn(v.Len())
		if r.Chance(1, 3) {
			i = []int{0, v.Len() - 1}[r.Intn(2)]
		}
		b := uint8(v.Index(i).Uint())
		v.Index(i).SetUint(uint64(b ^ (1 << uint(r.Intn(8)))))
	case reflect.String:
		s := v.String()
		switch {
		case len(s) == 0 || r.Chance(1, 3):
			s += string(rune('a' + r.Intn(3)))
		case r.Bool():
			s = s[:len(s)-1]
		default:
			b := []byte(s)
			b[r.Intn(len(b))] ^= 1 << uint(r.Intn(8))
			s = string(b)
		}
		v.SetString(s)
	case reflect.Slice: // []byte
		b := append([]byte(nil), v.Bytes()...)
		switch {
		case len(b) == 0 || r.Chance(1, 3):
			b = append(b, byte(r.Intn(256)))
		case r.Bool():
			b = b[:len(b)-1]
		default:
			b[r.Intn(len(b))] ^= 1 << uint(r.Intn(8))
		}
		v.SetBytes(b)
	case reflect.Map: // basics.TealKeyValue
		m := basics.TealKeyValue{}
		for _, k := range v.MapKeys() {
			m[k.String()] = v.MapIndex(k).Interface().(basics.TealValue)
		}
		keys := make([]string, 0, len(m))
		for k := range m {
			keys = append(keys, k)
		}
		// deterministic order
		for i := 1; i < len(keys); i++ {
			for j := i; j > 0 && keys[j] < keys[j-1]; j-- {
				keys[j], keys[j-1] = keys[j-1], keys[j]
			}
		}
		switch {
		case len(keys) == 0 || r.Chance(1, 3):
			m[string(r.Bytes(r.Range(1, 6)))] = basics.TealValue{Type: basics.TealUintType, Uint: uint64(r.Intn(100)) + 1}
		case r.Chance(1, 3):
			delete(m, keys[r.Intn(len(keys))])
		case r.Bool():
			// move the last byte of a key into the front of its bytes value (key|value boundary inside the map)
			k := keys[r.Intn(len(keys))]
			tv := m[k]
			if len(k) > 1 && tv.Type == basics.TealBytesType {
				delete(m, k)
				tv.Bytes = k[len(k)-1:] + tv.Bytes
				m[k[:len(k)-1]] = tv
			} else {
				tv.Uint++
				tv.Bytes += "x"
				m[k] = tv
			}
		default:
			k := keys[r.Intn(len(keys))]
			tv := m[k]
			if tv.Type == basics.TealUintType {
				tv.Type, tv.Bytes, tv.Uint = basics.TealBytesType, "", 0 // type swap
			} else {
				tv.Type, tv.Bytes, tv.Uint = basics.TealUintType, "", 0
			}
			m[k] = tv
		}
		v.Set(reflect.ValueOf(m))
	default:
		panic("c15: unhandled leaf kind " + v.Kind().String() + " at " + l.path)
	}
}

var (
	c15AssetFields = map[string]bool{"Total": true, "Decimals": true, "DefaultFrozen": true, "UnitName": true, "AssetName": true, "URL": true,
		"MetadataHash": true, "Manager": true, "Reserve": true, "Freeze": true, "Clawback": true, "Amount": true, "Frozen": true}
	c15CommonFields = map[string]bool{"UpdateRound": true}
)

// ---- pair generation ---------------------------------------------------------------------

type c15Pair struct {
	class string
	a, b  *c15Entry
	note  string
}

// c15SwapAcross exchanges the byte just before offset `at` with the byte just after it.
func c15SwapAcross(b []byte, at int) {
	b[at-1], b[at] = b[at], b[at-1]
}

func c15GenPair(r *kit.Rand) c15Pair {
	switch r.Pick([]int{16, 6, 16, 8, 6, 6, 4, 6, 6, 4, 4, 10, 4, 4}) {
	case 0: // account: one field changed
		addr := c15RandAddr(r)
		d := c15RandAccount(r)
		a := c15Account(addr, d)
		d2 := *d
		var ls []c15Leaf
		c15Leaves(reflect.ValueOf(&d2).Elem(), "", &ls)
		l := ls[r.Intn(len(ls))]
		c15MutateLeaf(r, l)
		return c15Pair{"account-field", a, c15Account(addr, &d2), l.path}
	case 1: // account: address changed (one bit / last byte / first byte), data equal
		addr := c15RandAddr(r)
		d := c15RandAccount(r)
		addr2 := addr
		i := []int{0, 31, r.Intn(32)}[r.Intn(3)]
		addr2[i] ^= 1 << uint(r.Intn(8))
		return c15Pair{"account-addr", c15Account(addr, d), c15Account(addr2, d), fmt.Sprintf("addr[%d]", i)}
	case 2: // resource: one field of the same family changed
		asset := r.Bool()
		addr, cidx := c15RandAddr(r), c15RandCidx(r)
		d := c15RandResource(r, asset)
		d2 := *d
		var ls, ok []c15Leaf
		c15Leaves(reflect.ValueOf(&d2).Elem(), "", &ls)
		for _, l := range ls {
			name := l.path[1:]
			if name == "ResourceFlags" {
				continue
			}
			if c15CommonFields[name] || c15AssetFields[name] == asset {
				ok = append(ok, l)
			}
		}
		l := ok[r.Intn(len(ok))]
		c15MutateLeaf(r, l)
		// keep the entry legal: an asset entry whose fields all became empty needs its empty-flag
		if asset && d2.IsEmptyAssetFields() {
			d2.ResourceFlags |= ResourceFlagsEmptyAsset
		}
		if !asset && d2.IsEmptyAppFields() {
			d2.ResourceFlags |= ResourceFlagsEmptyApp
		}
		return c15Pair{"resource-field", c15Res(addr, cidx, d), c15Res(addr, cidx, &d2), l.path}
	case 3: // resource: creatable index changed
		addr, cidx := c15RandAddr(r), c15RandCidx(r)
		d := c15RandResource(r, r.Bool())
		var c2 basics.CreatableIndex
		switch r.Intn(5) {
		case 0:
			c2 = cidx + 1
		case 1:
			c2 = cidx ^ (1 << uint(r.Intn(64)))
		case 2:
			c2 = basics.CreatableIndex(uint64(cidx)<<32 | uint64(cidx)>>32) // halves swapped
		case 3:
			var le [8]byte
			binary.LittleEndian.PutUint64(le[:], uint64(cidx))
			c2 = basics.CreatableIndex(binary.BigEndian.Uint64(le[:])) // byte order reversed
		default:
			c2 = cidx << 8
		}
		if c2 == cidx {
			c2 = cidx ^ 1
		}
		return c15Pair{"resource-cidx", c15Res(addr, cidx, d), c15Res(addr, c2, d), ""}
	case 4: // resource: address changed
		addr, cidx := c15RandAddr(r), c15RandCidx(r)
		d := c15RandResource(r, r.Bool())
		addr2 := addr
		i := []int{0, 31, r.Intn(32)}[r.Intn(3)]
		addr2[i] ^= 1 << uint(r.Intn(8))
		return c15Pair{"resource-addr", c15Res(addr, cidx, d), c15Res(addr2, cidx, d), fmt.Sprintf("addr[%d]", i)}
	case 5: // resource: bytes exchanged across the address|index boundary of the pre-image
		addr, cidx := c15RandAddr(r), c15RandCidx(r)
		d := c15RandResource(r, r.Bool())
		pre := make([]byte, 40)
		copy(pre, addr[:])
		binary.LittleEndian.PutUint64(pre[32:], uint64(cidx))
		if pre[31] == pre[32] {
			pre[31] ^= 0x5a
			addr[31] = pre[31]
		}
		c15SwapAcross(pre, 32)
		var addr2 basics.Address
		copy(addr2[:], pre[:32])
		c2 := basics.CreatableIndex(binary.LittleEndian.Uint64(pre[32:]))
		return c15Pair{"resource-addr|cidx-boundary", c15Res(addr, cidx, d), c15Res(addr2, c2, d), ""}
	case 6: // resource: only the flags differ (opted-in with default holding vs not opted in, same params)
		asset := r.Bool()
		addr, cidx := c15RandAddr(r), c15RandCidx(r)
		var d1, d2 ResourcesData
		rnd := c15RandUpdateRound(r)
		d1, d2 = MakeResourcesData(rnd), MakeResourcesData(rnd)
		if asset {
			ap := basics.AssetParams{Total: c15RandU64(r), UnitName: "u"}
			d1.SetAssetParams(ap, true)
			d1.SetAssetHolding(basics.AssetHolding{})
			d2.SetAssetParams(ap, false)
		} else {
			ap := basics.AppParams{ApprovalProgram: []byte{1, 2}, ClearStateProgram: []byte{3}}
			d1.SetAppParams(ap, true)
			d1.SetAppLocalState(basics.AppLocalState{})
			d2.SetAppParams(ap, false)
		}
		return c15Pair{"resource-flags", c15Res(addr, cidx, &d1), c15Res(addr, cidx, &d2), ""}
	case 7: // kind swapped: asset entry vs app entry at the same (address, index), both with default contents
		addr, cidx := c15RandAddr(r), c15RandCidx(r)
		rnd := c15RandUpdateRound(r)
		d1, d2 := MakeResourcesData(rnd), MakeResourcesData(rnd)
		if r.Bool() {
			d1.SetAssetHolding(basics.AssetHolding{})
			d2.SetAppLocalState(basics.AppLocalState{})
		} else {
			d1.SetAssetParams(basics.AssetParams{}, false)
			d2.SetAppParams(basics.AppParams{}, false)
		}
		return c15Pair{"kind-swap-asset-app", c15Res(addr, cidx, &d1), c15Res(addr, cidx, &d2), ""}
	case 8: // update-round prefixes equal: rounds differ by a multiple of 2^32
		addr := c15RandAddr(r)
		k := uint64(r.Range(1, 3)) << 32
		if r.Bool() {
			d := c15RandAccount(r)
			d.UpdateRound = uint64(r.Range(1, 1<<30))
			d2 := *d
			d2.UpdateRound += k
			return c15Pair{"update-round-prefix-equal", c15Account(addr, d), c15Account(addr, &d2), "account"}
		}
		cidx := c15RandCidx(r)
		d := c15RandResource(r, r.Bool())
		d.UpdateRound = uint64(r.Range(1, 1<<30))
		d2 := *d
		d2.UpdateRound += k
		return c15Pair{"update-round-prefix-equal", c15Res(addr, cidx, d), c15Res(addr, cidx, &d2), "resource"}
	case 9: // kv: value changed
		app, name, val := c15RandBox(r)
		v2 := append([]byte(nil), val...)
		switch {
		case len(v2) == 0 || r.Chance(1, 3):
			v2 = append(v2, byte(r.Intn(256)))
		case r.Bool():
			v2 = v2[:len(v2)-1]
		default:
			v2[r.Intn(len(v2))] ^= 1 << uint(r.Intn(8))
		}
		return c15Pair{"kv-value", c15Kv(c15BoxKey(app, name), val), c15Kv(c15BoxKey(app, name), v2), ""}
	case 10: // kv: name byte or app id changed; bytes exchanged across the appID|name boundary
		app, name, val := c15RandBox(r)
		switch r.Intn(3) {
		case 0:
			b := []byte(name)
			b[r.Intn(len(b))] ^= 1 << uint(r.Intn(8))
			return c15Pair{"kv-name", c15Kv(c15BoxKey(app, name), val), c15Kv(c15BoxKey(app, string(b)), val), ""}
		case 1:
			app2 := app ^ (1 << uint(r.Intn(64)))
			return c15Pair{"kv-appid", c15Kv(c15BoxKey(app, name), val), c15Kv(c15BoxKey(app2, name), val), ""}
		default:
			k := []byte(c15BoxKey(app, name))
			if k[10] == k[11] {
				k[11] ^= 0x21
			}
			k1 := string(k)
			c15SwapAcross(k, 11)
			return c15Pair{"kv-appid|name-boundary", c15Kv(k1, val), c15Kv(string(k), val), ""}
		}
	case 11: // kv: bytes moved across the key|value boundary: (name+x, value) vs (name, x+value), same app
		app, name, val := c15RandBox(r)
		k := r.Range(1, 3)
		if len(name)+k > c15MaxBoxName {
			name = name[:c15MaxBoxName-k]
		}
		x := r.Bytes(k)
		if r.Bool() {
			for i := range x {
				x[i] = "abc"[r.Intn(3)]
			}
		}
		a := c15Kv(c15BoxKey(app, name+string(x)), val)
		b := c15Kv(c15BoxKey(app, name), append(append([]byte(nil), x...), val...))
		return c15Pair{"kv-key|value-boundary", a, b, fmt.Sprintf("moved %d byte(s)", k)}
	case 12: // cross kind: kv entry and account entry with byte-identical pre-images (kind byte must separate them)
		app, name, _ := c15RandBox(r)
		d := c15RandAccount(r)
		d.UpdateRound = 0 // kv leaves carry prefix 0; give the account the same prefix
		d.RewardsBase = 0
		enc := protocol.Encode(d)
		if len(name) > 21 {
			name = name[:21]
		}
		key := []byte(c15BoxKey(app, name)) // <= 32 bytes
		var addr basics.Address
		copy(addr[:], key)
		r.Fill(addr[len(key):])
		val := append(append([]byte(nil), addr[len(key):]...), enc...)
		return c15Pair{"cross-kind-kv-account", c15Kv(string(key), val), c15Account(addr, d), "pre-images byte-identical"}
	default: // cross kind: kv entry and resource entry with byte-identical pre-images and equal prefix
		app, name, _ := c15RandBox(r)
		d := c15RandResource(r, r.Bool())
		d.UpdateRound = uint64(r.Intn(3)) << 32 // low 32 bits zero, like the kv prefix
		cidx := c15RandCidx(r)
		enc := protocol.Encode(d)
		if len(name) > 21 {
			name = name[:21]
		}
		key := []byte(c15BoxKey(app, name))
		var addr basics.Address
		copy(addr[:], key)
		r.Fill(addr[len(key):])
		var ix [8]byte
		binary.LittleEndian.PutUint64(ix[:], uint64(cidx))
		val := append(append(append([]byte(nil), addr[len(key):]...), ix[:]...), enc...)
		return c15Pair{"cross-kind-kv-resource", c15Kv(string(key), val), c15Res(addr, cidx, d), "pre-images byte-identical"}
	}
}

// c15Legal reports whether an entry could be stored by the ledger (used only to tag witnesses and
// to decide whether a kv boundary collision is between two reachable boxes).
func c15Legal(e *c15Entry) bool {
	if e.Kind != "kv" {
		if e.Kind == "resource" {
			return e.Res.IsAsset() != e.Res.IsApp()
		}
		return true
	}
	_, name, ok := c15SplitBox(e.Key)
	return ok && len(name) >= 1 && len(name) <= c15MaxBoxName && len(e.Value) <= c15MaxBoxSize
}

func TestVerifC15Leaf(t *testing.T) {
	c := kit.Start(t, "C15", "leaf")
	defer c.Finish()
	c.Rule("pairs of DIFFERENT storable entries generated as structural neighbours: one field of BaseAccountData/ResourcesData changed by reflection (bit flip, +1, +2^32, byte shift, string/bytes grow/shrink, teal map edits), address bit flipped, creatable index perturbed (bit, halves swapped, byte order), bytes exchanged across address|index and appID|name boundaries, box bytes moved across the key|value boundary, flags-only and asset/app kind swaps, update rounds differing by k*2^32 (equal prefix), and cross-kind pairs whose pre-images are byte-identical (box vs account, box vs resource); the production builders are called as catchpointtracker does; equal leaves => collision. All leaves are also put in one table to catch collisions between unrelated entries. distinct = (class, mutated field / shape)")
	c.Assume("SHA-512/256 truncated to 31 bytes does not collide on the generated inputs; an entry is identified by (kind, address, index, canonical msgpack) resp. (key, value)")
	c.Assume("box legality = limits of logic/box.go:lengthChecks for the current protocol: 1<=len(name)<=64, size<=32768; kv keys are box keys \"bx:\"+appID(8, big endian)+name")

	c15Witness(c)
	c.Require("witness_pairs", 4)

	n := c.N(120000, 10000000)
	workers := runtime.GOMAXPROCS(0)
	if workers > 16 {
		workers = 16
	}
	const tableCap = 1500000
	var mu sync.Mutex
	type tabEnt struct{ id, kvcat string }
	table := make(map[[36]byte]tabEnt, 1<<18) // leaf -> entry identity (bounded)
	var wg sync.WaitGroup
	for w := 0; w < workers; w++ {
		wg.Add(1)
		go func(w int) {
			defer wg.Done()
			for i := w; i < n; i += workers {
				if c.Violations() > 20 {
					return
				}
				r := c.Rand(15, uint64(i))
				var p c15Pair
				var ha, hb []byte
				var ea, eb error
				panicked := c.Guard("hashbuilder", map[string]any{"case": i}, func() {
					p = c15GenPair(r)
					ha, ea = p.a.leaf()
					hb, eb = p.b.leaf()
				})
				if panicked {
					continue
				}
				c.Count("pairs_generated", 1)
				if p.a.identity() == p.b.identity() {
					// same stored entry (the changed Go value encodes identically) - not a pair of different states
					c.Count("skipped_same_entry", 1)
					continue
				}
				if !c15Legal(p.a) || !c15Legal(p.b) {
					c.Count("skipped_not_storable", 1)
					continue
				}
				if ea != nil || eb != nil {
					c.Violation("builder-error", map[string]any{"case": i, "class": p.class, "a": p.a.describe(), "b": p.b.describe(), "err_a": fmt.Sprint(ea), "err_b": fmt.Sprint(eb)})
					continue
				}
				c.Eval(1)
				c.Count("pairs:"+p.class, 1)
				c.Distinct(p.class + "|" + p.note + "|" + p.a.Kind + p.b.Kind)
				if len(ha) != 36 || len(hb) != 36 {
					c.Violation("leaf-length", map[string]any{"case": i, "class": p.class, "len_a": len(ha), "len_b": len(hb)})
					continue
				}
				if bytes.Equal(ha, hb) {
					key := "collision:" + p.class
					if p.class == "kv-key|value-boundary" {
						// both members are legal boxes of one app (checked above): the expected known finding
						key = "kv-preimage-boundary-shift"
						c.Count("kv_boundary_collisions_between_legal_boxes", 1)
					}
					c.Violation(key, map[string]any{"seed": c.Seed, "case": i, "class": p.class, "note": p.note,
						"leaf": hex.EncodeToString(ha), "a": p.a.describe(), "b": p.b.describe(),
						"replay": fmt.Sprintf("VERIF_SEED=%d: pair = c15GenPair(c.Rand(15,%d))", c.Seed, i)})
				} else {
					c.Count("pairs_distinct_leaves", 1)
				}
				// kind byte must say what the entry is (catchpoint readers rely on it)
				wantKind := func(e *c15Entry) HashKind {
					switch {
					case e.Kind == "account":
						return AccountHK
					case e.Kind == "kv":
						return KvHK
					case e.Res.IsAsset():
						return AssetHK
					default:
						return AppHK
					}
				}
				if HashKind(ha[HashKindEncodingIndex]) != wantKind(p.a) || HashKind(hb[HashKindEncodingIndex]) != wantKind(p.b) {
					c.Violation("kind-byte", map[string]any{"case": i, "class": p.class, "a": p.a.describe(), "b": p.b.describe(),
						"leaf_a": hex.EncodeToString(ha), "leaf_b": hex.EncodeToString(hb)})
				}
				// global table: unrelated entries must not collide either
				var ka, kb [36]byte
				copy(ka[:], ha)
				copy(kb[:], hb)
				mu.Lock()
				for _, x := range []struct {
					k [36]byte
					e *c15Entry
				}{{ka, p.a}, {kb, p.b}} {
					ent := tabEnt{id: x.e.identity()}
					if x.e.Kind == "kv" {
						ent.kvcat = x.e.Key + string(x.e.Value)
					}
					if prev, ok := table[x.k]; ok {
						switch {
						case prev.id == ent.id || prev.id == p.a.identity() || prev.id == p.b.identity():
							// same entry seen again, or the partner of this pair (already judged above)
						case prev.kvcat != "" && prev.kvcat == ent.kvcat:
							// two boxes from different cases whose key||value concatenations coincide: same class as the known finding
							mu.Unlock()
							c.Violation("kv-preimage-boundary-shift", map[string]any{"case": i, "leaf": hex.EncodeToString(x.k[:]), "entry": x.e.describe(), "other_identity_hex": hex.EncodeToString([]byte(prev.id))})
							mu.Lock()
						default:
							mu.Unlock()
							c.Violation("collision:unrelated-entries", map[string]any{"case": i, "leaf": hex.EncodeToString(x.k[:]), "entry": x.e.describe(), "other_identity_hex": hex.EncodeToString([]byte(prev.id))})
							mu.Lock()
						}
					} else if len(table) < tableCap {
						table[x.k] = ent
					}
				}
				mu.Unlock()
				if i < 40 && i%8 == 0 {
					c.Sample(map[string]any{"case": i, "class": p.class, "note": p.note, "a": p.a.describe(), "b": p.b.describe(),
						"leaf_a": hex.EncodeToString(ha), "leaf_b": hex.EncodeToString(hb)})
				}
			}
		}(w)
	}
	wg.Wait()
	c.Count("table_entries", len(table))
	if c.Violations() > 0 {
		return // exploration was cut short; the verdict is the violation, not vacuity
	}
	for _, cl := range []string{"account-field", "account-addr", "resource-field", "resource-cidx", "resource-addr", "resource-addr|cidx-boundary",
		"resource-flags", "kind-swap-asset-app", "update-round-prefix-equal", "kv-value", "kv-name", "kv-appid", "kv-appid|name-boundary",
		"kv-key|value-boundary", "cross-kind-kv-account", "cross-kind-kv-resource"} {
		c.Require("pairs:"+cl, 100)
	}
	c.Require("pairs_distinct_leaves", int64(n/2))
	c.Require("kv_boundary_collisions_between_legal_boxes", 1) // the known finding must still be observed, otherwise its entry is stale
}

// c15Witness pins the concrete witness of the known finding and checks that both boxes are
// storable and that the owner's box accounting (TotalBoxes, TotalBoxBytes) is equal in both
// states, so nothing else in the state distinguishes them.
func c15Witness(c *kit.Ctx) {
	type bx struct{ name, val string }
	cases := [][2]bx{
		{{"ab", "c"}, {"a", "bc"}},
		{{"ab", ""}, {"a", "b"}},
		{{"abcd", "e"}, {"a", "bcde"}},
		{{string(bytes.Repeat([]byte{'n'}, 64)), "v"}, {string(bytes.Repeat([]byte{'n'}, 63)), "nv"}},
		{{"ab", "c"}, {"ab", "d"}}, // control: must differ
	}
	for i, cs := range cases {
		a := c15Kv(c15BoxKey(7, cs[0].name), []byte(cs[0].val))
		b := c15Kv(c15BoxKey(7, cs[1].name), []byte(cs[1].val))
		ha, _ := a.leaf()
		hb, _ := b.leaf()
		c.Eval(1)
		c.Distinct(fmt.Sprint("variant", i))
		legal := c15Legal(a) && c15Legal(b)
		// box accounting of the app account: TotalBoxes += 1, TotalBoxBytes += len(name)+len(value)
		sameAccounting := len(cs[0].name)+len(cs[0].val) == len(cs[1].name)+len(cs[1].val)
		if i == len(cases)-1 {
			if bytes.Equal(ha, hb) {
				c.Violation("collision:kv-value", map[string]any{"a": a.describe(), "b": b.describe()})
			}
			continue
		}
		c.Count("witness_pairs", 1)
		if bytes.Equal(ha, hb) && legal && sameAccounting {
			c.Count("witness_collisions", 1)
			c.Violation("kv-preimage-boundary-shift", map[string]any{"variant": i, "a": a.describe(), "b": b.describe(), "leaf": hex.EncodeToString(ha),
				"both_boxes_legal": legal, "owner_box_accounting_equal": sameAccounting})
		}
		c.Sample(map[string]any{"variant": i, "a": a.describe(), "b": b.describe(), "equal_leaf": bytes.Equal(ha, hb), "both_legal": legal, "accounting_equal": sameAccounting})
	}
}
