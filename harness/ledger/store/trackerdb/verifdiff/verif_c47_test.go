package verifdiff_test

// C47 (store level): the SQLite and the key-value (Pebble) tracker stores give identical answers.
//
// Differential oracle: the same logical write batches are applied to a SQLite store and a Pebble
// store (either independently, comparing the per-operation results, or through the production
// dualdriver wrapped around both), then the same queries are sent to both through every reader
// method and the normalised results are compared: values, rounds, order, pagination cut points
// and "more" flags, not-found vs empty (nil vs empty kv value; ErrNotFound vs other errors).
// Second oracle: the production dualdriver around both stores must not return
// ErrInconsistentResult for a query whose two answers this monitor found equal.
//
// What is NOT demanded (so that the monitor is not stricter than the property):
//   - opaque refs (row ids vs address refs) are compared only for nil-ness;
//   - error texts are not compared, only: nil / ErrNotFound / other;
//   - nil and empty are equal for LIST results (callers use len()); nil vs empty matters only for
//     PersistedKVData.Value and KvPairResult.Value where the ledger uses it as "absent";
//   - methods one backend does not implement (stubs returning zero values marked TODO, "not
//     supported" errors, "unimplemented" panics) are counted as not compared;
//   - the workload follows the ledger's usage contract (commitRound): an entity is touched at most
//     once per transaction, inserts only for absent rows, updates/deletes only for present ones,
//     an account is deleted only after its resources, rounds only grow, (address, updround) of
//     online rows is unique, online rows inserted in a transaction are newer than the
//     forget-before round of the OnlineAccountsDelete in it, numeric values stay below 2^63 (the
//     SQL driver rejects larger integers) - so differences caused by misuse are never reported.

import (
	"context"
	"database/sql"
	"encoding/binary"
	"errors"
	"fmt"
	"io"
	"os"
	"regexp"
	"runtime/debug"
	"sort"
	"strings"
	"testing"

	"github.com/algorand/go-algorand/config"
	"github.com/algorand/go-algorand/crypto"
	"github.com/algorand/go-algorand/data/basics"
	"github.com/algorand/go-algorand/data/bookkeeping"
	"github.com/algorand/go-algorand/data/transactions"
	"github.com/algorand/go-algorand/ledger/ledgercore"
	"github.com/algorand/go-algorand/ledger/store/trackerdb"
	"github.com/algorand/go-algorand/ledger/store/trackerdb/dualdriver"
	"github.com/algorand/go-algorand/ledger/store/trackerdb/pebbledbdriver"
	"github.com/algorand/go-algorand/ledger/store/trackerdb/sqlitedriver"
	"github.com/algorand/go-algorand/logging"
	"github.com/algorand/go-algorand/protocol"
	"verif.local/kit"
)

var c47Proto = config.Consensus[protocol.ConsensusCurrentVersion]

// ---------------------------------------------------------------------------------------------
// logical operations

type c47Op struct {
	Kind string

	Addr    basics.Address
	Acct    trackerdb.BaseAccountData
	Cidx    basics.CreatableIndex
	Res     trackerdb.ResourcesData
	Ctype   basics.CreatableType
	Key     string
	Value   []byte
	Online  trackerdb.BaseOnlineAccountData
	Rnd     basics.Round
	Rnd2    basics.Round
	Params  []ledgercore.OnlineRoundParamsData
	Tails   [][]byte
	Totals  ledgercore.AccountTotals
	Staging bool
	SP      []*ledgercore.StateProofVerificationContext
}

func (o c47Op) String() string {
	switch o.Kind {
	case "set-account":
		return fmt.Sprintf("set-account(%s status=%d algos=%d upd=%d)", c47A(o.Addr), o.Acct.Status, o.Acct.MicroAlgos.Raw, o.Acct.UpdateRound)
	case "del-account":
		return fmt.Sprintf("del-account(%s)", c47A(o.Addr))
	case "set-resource":
		return fmt.Sprintf("set-resource(%s,%d,%s)", c47A(o.Addr), o.Cidx, c47Ctype(o.Ctype))
	case "del-resource":
		return fmt.Sprintf("del-resource(%s,%d)", c47A(o.Addr), o.Cidx)
	case "set-kv":
		return fmt.Sprintf("set-kv(%x=%x)", o.Key, o.Value)
	case "del-kv":
		return fmt.Sprintf("del-kv(%x)", o.Key)
	case "set-creatable":
		return fmt.Sprintf("set-creatable(%d,%s,creator=%s)", o.Cidx, c47Ctype(o.Ctype), c47A(o.Addr))
	case "del-creatable":
		return fmt.Sprintf("del-creatable(%d,%s)", o.Cidx, c47Ctype(o.Ctype))
	case "online":
		return fmt.Sprintf("online(%s,upd=%d,algos=%d,voteLast=%d,offline=%v)", c47A(o.Addr), o.Rnd, o.Online.MicroAlgos.Raw, o.Online.VoteLastValid, o.Online.IsVotingEmpty())
	case "online-delete":
		return fmt.Sprintf("online-delete(forgetBefore=%d)", o.Rnd)
	case "round-params":
		return fmt.Sprintf("round-params(start=%d,n=%d)", o.Rnd, len(o.Params))
	case "prune-round-params":
		return fmt.Sprintf("prune-round-params(before=%d)", o.Rnd)
	case "txtail":
		return fmt.Sprintf("txtail(base=%d,n=%d,forgetBefore=%d)", o.Rnd, len(o.Tails), o.Rnd2)
	case "totals":
		return fmt.Sprintf("totals(staging=%v,online=%d)", o.Staging, o.Totals.Online.Money.Raw)
	case "round":
		return fmt.Sprintf("round(%d)", o.Rnd)
	case "sp-store":
		r := []basics.Round{}
		for _, x := range o.SP {
			r = append(r, x.LastAttestedRound)
		}
		return fmt.Sprintf("sp-store(%v)", r)
	case "sp-delete":
		return fmt.Sprintf("sp-delete(before=%d)", o.Rnd)
	case "commit":
		return "COMMIT"
	}
	return o.Kind
}

func c47A(a basics.Address) string { return fmt.Sprintf("%x", a[:4]) }
func c47Ctype(c basics.CreatableType) string {
	if c == basics.AssetCreatable {
		return "asset"
	}
	return "app"
}

// c47ApplyTx applies ops[...] (up to the next "commit") inside one transaction of st. It returns one
// result string per op (what was done + rows affected + error class).
func c47ApplyTx(st trackerdb.Store, ops []c47Op) (results []string, err error) {
	err = st.TransactionContext(context.Background(), func(ctx context.Context, tx trackerdb.TransactionScope) error {
		ar, e := tx.MakeAccountsOptimizedReader()
		if e != nil {
			return e
		}
		defer ar.Close()
		aw, e := tx.MakeAccountsOptimizedWriter(true, true, true, true)
		if e != nil {
			return e
		}
		defer aw.Close()
		awx, e := tx.MakeAccountsWriter()
		if e != nil {
			return e
		}
		oaw, e := tx.MakeOnlineAccountsOptimizedWriter(true)
		if e != nil {
			return e
		}
		defer oaw.Close()
		spw := tx.MakeSpVerificationCtxWriter()
		ec := func(e error) string { return c47ErrClass(e) }
		// Phase 1 - like the ledger's accountsLoadOld/resourcesLoadOld: every lookup of the
		// transaction happens BEFORE its first write. (Inside a transaction SQLite sees its own
		// writes while Pebble reads the snapshot taken at Begin; the ledger never relies on
		// reading its own writes, so neither does this workload.)
		type acctInfo struct {
			ref trackerdb.AccountRef
			err error
			all []trackerdb.PersistedResourcesData
		}
		accts := map[basics.Address]*acctInfo{}
		resExists := map[string]bool{}
		resErr := map[string]error{}
		crExists := map[string]bool{}
		crErr := map[string]error{}
		rk := func(o c47Op) string { return fmt.Sprintf("%x/%d", o.Addr, o.Cidx) }
		ck := func(o c47Op) string { return fmt.Sprintf("%d/%d", o.Cidx, o.Ctype) }
		for _, o := range ops {
			switch o.Kind {
			case "set-account", "del-account", "set-resource", "del-resource":
				ai := accts[o.Addr]
				if ai == nil {
					pad, e := ar.LookupAccount(o.Addr)
					ai = &acctInfo{ref: pad.Ref, err: e}
					accts[o.Addr] = ai
				}
				if o.Kind == "del-account" && ai.err == nil && ai.ref != nil {
					ai.all, _, ai.err = ar.LookupAllResources(o.Addr)
				}
				if (o.Kind == "set-resource" || o.Kind == "del-resource") && ai.err == nil && ai.ref != nil {
					cur, e := ar.LookupResources(o.Addr, o.Cidx, o.Ctype)
					resExists[rk(o)], resErr[rk(o)] = cur.AcctRef != nil, e
				}
			case "set-creatable", "del-creatable":
				_, ok, _, e := ar.LookupCreator(o.Cidx, o.Ctype)
				crExists[ck(o)], crErr[ck(o)] = ok, e
			}
		}
		// Phase 2 - writes
		for _, o := range ops {
			var res string
			switch o.Kind {
			case "set-account":
				ai := accts[o.Addr]
				nb := o.Acct.NormalizedOnlineBalance(c47Proto.RewardUnit)
				switch {
				case ai.err != nil:
					res = "lookup:" + ec(ai.err)
				case ai.ref == nil:
					r, e := aw.InsertAccount(o.Addr, nb, o.Acct)
					if e == nil {
						ai.ref = r // the ledger hands the new ref on to the resource writes the same way
					}
					res = fmt.Sprintf("insert refnil=%v %s", r == nil, ec(e))
				default:
					n, e := aw.UpdateAccount(ai.ref, nb, o.Acct)
					res = fmt.Sprintf("update rows=%d %s", n, ec(e))
				}
			case "del-account":
				ai := accts[o.Addr]
				switch {
				case ai.err != nil:
					res = "lookup:" + ec(ai.err)
				case ai.ref == nil:
					res = "absent"
				default:
					// the ledger deletes an account only after its resources are gone
					for _, rr := range ai.all {
						n, e := aw.DeleteResource(ai.ref, rr.Aidx)
						res += fmt.Sprintf("delres(%d) rows=%d %s;", rr.Aidx, n, ec(e))
					}
					n, e := aw.DeleteAccount(ai.ref)
					res += fmt.Sprintf("delete rows=%d %s", n, ec(e))
					ai.ref = nil
				}
			case "set-resource":
				ai := accts[o.Addr]
				switch {
				case ai.err != nil:
					res = "lookup:" + ec(ai.err)
				case ai.ref == nil:
					res = "no-account"
				case resErr[rk(o)] != nil:
					res = "lookup-res:" + ec(resErr[rk(o)])
				case !resExists[rk(o)]:
					r, e := aw.InsertResource(ai.ref, o.Cidx, o.Res)
					res = fmt.Sprintf("insert refnil=%v %s", r == nil, ec(e))
				default:
					n, e := aw.UpdateResource(ai.ref, o.Cidx, o.Res)
					res = fmt.Sprintf("update rows=%d %s", n, ec(e))
				}
			case "del-resource":
				ai := accts[o.Addr]
				switch {
				case ai.err != nil:
					res = "lookup:" + ec(ai.err)
				case ai.ref == nil:
					res = "no-account"
				case resErr[rk(o)] != nil:
					res = "lookup-res:" + ec(resErr[rk(o)])
				case !resExists[rk(o)]:
					res = "absent"
				default:
					n, e := aw.DeleteResource(ai.ref, o.Cidx)
					res = fmt.Sprintf("delete rows=%d %s", n, ec(e))
				}
			case "set-kv":
				res = "upsert " + ec(aw.UpsertKvPair(o.Key, o.Value))
			case "del-kv":
				res = "delete " + ec(aw.DeleteKvPair(o.Key))
			case "set-creatable":
				if e := crErr[ck(o)]; e != nil {
					res = "lookup:" + ec(e)
				} else if crExists[ck(o)] {
					res = "present"
				} else {
					r, e := aw.InsertCreatable(o.Cidx, o.Ctype, o.Addr[:])
					res = fmt.Sprintf("insert refnil=%v %s", r == nil, ec(e))
				}
			case "del-creatable":
				if e := crErr[ck(o)]; e != nil {
					res = "lookup:" + ec(e)
				} else if !crExists[ck(o)] {
					res = "absent"
				} else {
					n, e := aw.DeleteCreatable(o.Cidx, o.Ctype)
					res = fmt.Sprintf("delete rows=%d %s", n, ec(e))
				}
			case "online":
				nb := o.Online.NormalizedOnlineBalance(c47Proto.RewardUnit)
				r, e := oaw.InsertOnlineAccount(o.Addr, nb, o.Online, uint64(o.Rnd), uint64(o.Online.VoteLastValid))
				res = fmt.Sprintf("insert refnil=%v %s", r == nil, ec(e))
			case "online-delete":
				res = ec(awx.OnlineAccountsDelete(o.Rnd))
			case "round-params":
				res = ec(awx.AccountsPutOnlineRoundParams(o.Params, o.Rnd))
			case "prune-round-params":
				res = ec(awx.AccountsPruneOnlineRoundParams(o.Rnd))
			case "txtail":
				res = ec(awx.TxtailNewRound(ctx, o.Rnd, o.Tails, o.Rnd2))
			case "totals":
				res = ec(awx.AccountsPutTotals(o.Totals, o.Staging))
			case "round":
				res = ec(awx.UpdateAccountsRound(o.Rnd))
			case "sp-store":
				res = ec(spw.StoreSPContexts(ctx, o.SP))
			case "sp-delete":
				res = ec(spw.DeleteOldSPContexts(ctx, o.Rnd))
			}
			results = append(results, o.Kind+": "+res)
		}
		return nil
	})
	return
}

func c47ErrClass(e error) string {
	switch {
	case e == nil:
		return "ok"
	case errors.Is(e, dualdriver.ErrInconsistentResult):
		return "DUAL-INCONSISTENT"
	case errors.Is(e, trackerdb.ErrNotFound), errors.Is(e, sql.ErrNoRows):
		// the SQL backend reports a missing singleton row as sql.ErrNoRows; both mean "not there"
		return "err:notfound"
	default:
		return "err:other"
	}
}

// ---------------------------------------------------------------------------------------------
// world: pools the generator draws from, so that operations and queries keep hitting related keys

type c47World struct {
	addrs   []basics.Address
	assets  []basics.CreatableIndex
	apps    []basics.CreatableIndex
	kvKeys  []string
	round   basics.Round // current db round of both stores
	tailLo  basics.Round // oldest txtail round kept
	onlineR map[basics.Address]basics.Round
	spNext  basics.Round
	history []c47Op
}

func c47BoxKey(app uint64, name string) string {
	k := make([]byte, 11+len(name))
	copy(k, "bx:")
	binary.BigEndian.PutUint64(k[3:], app)
	copy(k[11:], name)
	return string(k)
}

func newC47World(r *kit.Rand) *c47World {
	w := &c47World{onlineR: map[basics.Address]basics.Round{}, spNext: 256}
	n := r.Range(4, 10)
	for i := 0; i < n; i++ {
		var a basics.Address
		r.Fill(a[:])
		if i > 0 && r.Chance(1, 2) { // shared prefixes: range scans must not leak into the neighbour
			copy(a[:], w.addrs[r.Intn(len(w.addrs))][:r.Range(1, 31)])
		}
		if r.Chance(1, 6) {
			a[31] = 0xff
		}
		w.addrs = append(w.addrs, a)
	}
	for i := 0; i < r.Range(3, 8); i++ {
		w.assets = append(w.assets, c47Cidx(r))
		w.apps = append(w.apps, c47Cidx(r))
	}
	apps := []uint64{uint64(r.Range(1, 1000)), uint64(r.Range(1, 1<<20)), 255, 256}
	names := []string{"a", "ab", "abc", "b", "a\x00", "a\xff", "\xff", "\xff\xff", "", "k" + string(r.Bytes(3))}
	for i := 0; i < r.Range(6, 16); i++ {
		nm := names[r.Intn(len(names))]
		if r.Chance(1, 3) {
			nm += string(r.Bytes(r.Range(1, 4)))
		}
		if nm == "" {
			nm = "z"
		}
		w.kvKeys = append(w.kvKeys, c47BoxKey(apps[r.Intn(len(apps))], nm))
	}
	if r.Chance(1, 3) { // non-box keys: the kv store is generic
		w.kvKeys = append(w.kvKeys, "x"+string(r.Bytes(2)), "xc-"+string(r.Bytes(2)), "\xffz")
	}
	return w
}

func c47Cidx(r *kit.Rand) basics.CreatableIndex {
	switch r.Intn(6) {
	case 0:
		return basics.CreatableIndex(r.Range(1, 300))
	case 1:
		return basics.CreatableIndex(uint64(1)<<32 + uint64(r.Intn(4)))
	case 2:
		return basics.CreatableIndex(uint64(1)<<62 + uint64(r.Intn(1000))) // still below 2^63
	case 3:
		return basics.CreatableIndex(256*r.Range(1, 4) + r.Intn(2)*255)
	default:
		return basics.CreatableIndex(r.Range(1, 1<<30))
	}
}

func c47U(r *kit.Rand, max int) uint64 {
	if r.Chance(1, 4) {
		return 0
	}
	return uint64(r.Intn(max))
}

func c47Voting(r *kit.Rand, base basics.Round) (v trackerdb.BaseVotingData) {
	r.Fill(v.VoteID[:])
	r.Fill(v.SelectionID[:])
	r.Fill(v.StateProofID[:])
	v.VoteFirstValid = base
	v.VoteLastValid = base + basics.Round(r.Range(1, 40))
	v.VoteKeyDilution = uint64(r.Range(1, 10000))
	return
}

func c47Account(r *kit.Rand, rnd basics.Round) (d trackerdb.BaseAccountData) {
	d.Status = basics.Status(r.Intn(3))
	d.MicroAlgos.Raw = c47U(r, 1<<40)
	d.RewardsBase = c47U(r, 1000)
	d.RewardedMicroAlgos.Raw = c47U(r, 1<<20)
	if r.Chance(1, 4) {
		r.Fill(d.AuthAddr[:])
	}
	d.TotalAssets = c47U(r, 5)
	d.TotalAppLocalStates = c47U(r, 5)
	d.TotalBoxes = c47U(r, 5)
	d.TotalBoxBytes = c47U(r, 500)
	d.IncentiveEligible = r.Chance(1, 4)
	if d.Status == basics.Online {
		d.BaseVotingData = c47Voting(r, rnd)
	}
	d.UpdateRound = uint64(rnd)
	if d.MicroAlgos.Raw == 0 && d.Status == basics.Offline {
		d.MicroAlgos.Raw = 1 // the ledger never stores an empty account
	}
	return
}

func c47TKV(r *kit.Rand) basics.TealKeyValue {
	n := r.Intn(3)
	if n == 0 {
		return nil
	}
	m := basics.TealKeyValue{}
	for i := 0; i < n; i++ {
		k := string(r.Bytes(r.Range(1, 6)))
		if r.Bool() {
			m[k] = basics.TealValue{Type: basics.TealUintType, Uint: c47U(r, 1<<30)}
		} else {
			m[k] = basics.TealValue{Type: basics.TealBytesType, Bytes: string(r.Bytes(r.Intn(6)))}
		}
	}
	return m
}

func c47Resource(r *kit.Rand, asset bool, rnd basics.Round) trackerdb.ResourcesData {
	rd := trackerdb.MakeResourcesData(uint64(rnd))
	holding := r.Bool()
	owning := !holding || r.Bool()
	if asset {
		if owning {
			ap := basics.AssetParams{Total: c47U(r, 1<<40), Decimals: uint32(r.Intn(10)), UnitName: string(r.Bytes(r.Intn(4))), AssetName: string(r.Bytes(r.Intn(8)))}
			if r.Bool() {
				r.Fill(ap.Manager[:])
			}
			rd.SetAssetParams(ap, holding)
		}
		if holding {
			rd.SetAssetHolding(basics.AssetHolding{Amount: c47U(r, 1<<40), Frozen: r.Chance(1, 4)})
		}
	} else {
		if owning {
			ap := basics.AppParams{ApprovalProgram: r.Bytes(r.Range(1, 12)), ClearStateProgram: r.Bytes(r.Range(1, 6)), GlobalState: c47TKV(r)}
			ap.GlobalStateSchema = basics.StateSchema{NumUint: c47U(r, 4), NumByteSlice: c47U(r, 4)}
			rd.SetAppParams(ap, holding)
		}
		if holding {
			rd.SetAppLocalState(basics.AppLocalState{Schema: basics.StateSchema{NumUint: c47U(r, 4), NumByteSlice: c47U(r, 4)}, KeyValue: c47TKV(r)})
		}
	}
	return rd
}

func c47Tail(r *kit.Rand, rnd basics.Round) []byte {
	t := trackerdb.TxTailRound{}
	n := r.Intn(3)
	for i := 0; i < n; i++ {
		var id transactions.Txid
		r.Fill(id[:])
		t.TxnIDs = append(t.TxnIDs, id)
		t.LastValid = append(t.LastValid, rnd+basics.Round(r.Range(1, 1000)))
	}
	t.Hdr = bookkeeping.BlockHeader{Round: rnd, TimeStamp: int64(r.Intn(1 << 30))}
	return protocol.Encode(&t)
}

// genBatch produces the operations of one "commit" of the rounds (w.round, w.round+k]; "commit"
// markers split it into transactions. Every entity is touched at most once per transaction.
func (w *c47World) genBatch(r *kit.Rand) []c47Op {
	k := basics.Round(r.Range(1, 4))
	newRound := w.round + k
	var ops []c47Op
	split := r.Chance(1, 3) // several transactions instead of the ledger's single one
	sep := func() {
		if split && r.Bool() {
			ops = append(ops, c47Op{Kind: "commit"})
		}
	}
	touchedA := map[basics.Address]bool{}
	deletedA := map[basics.Address]bool{}
	touchedR := map[string]bool{}
	touchedK := map[string]bool{}
	touchedC := map[basics.CreatableIndex]bool{}
	// accounts
	for i := r.Intn(4); i > 0; i-- {
		a := w.addrs[r.Intn(len(w.addrs))]
		if touchedA[a] {
			continue
		}
		touchedA[a] = true
		if r.Chance(1, 5) {
			deletedA[a] = true
			ops = append(ops, c47Op{Kind: "del-account", Addr: a})
		} else {
			ops = append(ops, c47Op{Kind: "set-account", Addr: a, Acct: c47Account(r, w.round+1+basics.Round(r.Intn(int(k))))})
		}
	}
	// resources (never for an account deleted in this transaction)
	for i := r.Intn(5); i > 0; i-- {
		a := w.addrs[r.Intn(len(w.addrs))]
		asset := r.Bool()
		var cx basics.CreatableIndex
		ct := basics.AppCreatable
		if asset {
			cx, ct = w.assets[r.Intn(len(w.assets))], basics.AssetCreatable
		} else {
			cx = w.apps[r.Intn(len(w.apps))]
		}
		id := fmt.Sprintf("%x/%d", a, cx)
		if deletedA[a] || touchedR[id] || c47Contains(w.assets, cx) && c47Contains(w.apps, cx) {
			continue
		}
		touchedR[id] = true
		if r.Chance(1, 4) {
			ops = append(ops, c47Op{Kind: "del-resource", Addr: a, Cidx: cx, Ctype: ct})
		} else {
			ops = append(ops, c47Op{Kind: "set-resource", Addr: a, Cidx: cx, Ctype: ct, Res: c47Resource(r, asset, newRound)})
		}
	}
	sep()
	// kv
	for i := r.Intn(6); i > 0; i-- {
		key := w.kvKeys[r.Intn(len(w.kvKeys))]
		if touchedK[key] {
			continue
		}
		touchedK[key] = true
		if r.Chance(1, 4) {
			ops = append(ops, c47Op{Kind: "del-kv", Key: key})
		} else {
			v := r.Bytes(r.Intn(6))
			if r.Chance(1, 5) {
				v = []byte{} // empty box
			}
			if r.Chance(1, 10) {
				v = nil
			}
			ops = append(ops, c47Op{Kind: "set-kv", Key: key, Value: v})
		}
	}
	// creatables
	for i := r.Intn(3); i > 0; i-- {
		asset := r.Bool()
		var cx basics.CreatableIndex
		ct := basics.AppCreatable
		if asset {
			cx, ct = w.assets[r.Intn(len(w.assets))], basics.AssetCreatable
		} else {
			cx = w.apps[r.Intn(len(w.apps))]
		}
		if touchedC[cx] || c47Contains(w.assets, cx) && c47Contains(w.apps, cx) {
			continue
		}
		touchedC[cx] = true
		if r.Chance(1, 4) {
			ops = append(ops, c47Op{Kind: "del-creatable", Cidx: cx, Ctype: ct})
		} else {
			ops = append(ops, c47Op{Kind: "set-creatable", Cidx: cx, Ctype: ct, Addr: w.addrs[r.Intn(len(w.addrs))]})
		}
	}
	sep()
	// online accounts: rows for rounds in (w.round, newRound], strictly growing per address
	for i := r.Intn(5); i > 0; i-- {
		a := w.addrs[r.Intn(len(w.addrs))]
		last, seen := w.onlineR[a]
		lo := w.round + 1
		if seen && last+1 > lo {
			lo = last + 1
		}
		if lo > newRound {
			continue
		}
		upd := lo + basics.Round(r.Intn(int(newRound-lo)+1))
		w.onlineR[a] = upd
		var d trackerdb.BaseOnlineAccountData
		if !r.Chance(1, 4) { // else: went offline -> empty row, balance 0
			d.BaseVotingData = c47Voting(r, upd)
			d.MicroAlgos.Raw = uint64(r.Range(1, 1<<30))
			if r.Chance(1, 3) {
				d.MicroAlgos.Raw = uint64(r.Range(1, 4)) * 1000000 // equal balances: tie-break by address
			}
			d.RewardsBase = c47U(r, 100)
			d.IncentiveEligible = r.Chance(1, 4)
		}
		ops = append(ops, c47Op{Kind: "online", Addr: a, Rnd: upd, Online: d})
	}
	if r.Chance(2, 3) {
		// forget-before never reaches into the rounds being committed (ledger: newBase - lookback)
		fb := basics.Round(r.Intn(int(w.round) + 1))
		if r.Chance(1, 4) && len(w.onlineR) > 0 { // exactly an existing update round
			for _, a := range w.addrs {
				if ur, ok := w.onlineR[a]; ok && ur <= w.round {
					fb = ur
					break
				}
			}
		}
		ops = append(ops, c47Op{Kind: "online-delete", Rnd: fb})
	}
	// round params for the new rounds, pruning
	ps := make([]ledgercore.OnlineRoundParamsData, k)
	for i := range ps {
		ps[i] = ledgercore.OnlineRoundParamsData{OnlineSupply: c47U(r, 1<<40), RewardsLevel: c47U(r, 1000), CurrentProtocol: protocol.ConsensusCurrentVersion}
	}
	ops = append(ops, c47Op{Kind: "round-params", Rnd: w.round + 1, Params: ps})
	if r.Chance(1, 2) {
		ops = append(ops, c47Op{Kind: "prune-round-params", Rnd: basics.Round(r.Intn(int(newRound) + 2))})
	}
	sep()
	// tx tail: contiguous rounds, forgetting a prefix
	tails := make([][]byte, k)
	for i := range tails {
		tails[i] = c47Tail(r, w.round+1+basics.Round(i))
	}
	fb := w.tailLo
	if r.Chance(1, 2) {
		fb = w.tailLo + basics.Round(r.Intn(int(newRound-w.tailLo)+1))
	}
	ops = append(ops, c47Op{Kind: "txtail", Rnd: w.round + 1, Tails: tails, Rnd2: fb})
	if fb > w.tailLo {
		w.tailLo = fb
	}
	// totals
	if r.Chance(3, 4) {
		var t ledgercore.AccountTotals
		t.Online = ledgercore.AlgoCount{Money: basics.MicroAlgos{Raw: c47U(r, 1<<50)}, RewardUnits: c47U(r, 1<<30)}
		t.Offline = ledgercore.AlgoCount{Money: basics.MicroAlgos{Raw: c47U(r, 1<<50)}, RewardUnits: c47U(r, 1<<30)}
		t.NotParticipating = ledgercore.AlgoCount{Money: basics.MicroAlgos{Raw: c47U(r, 1<<50)}, RewardUnits: c47U(r, 1<<30)}
		t.RewardsLevel = c47U(r, 1<<20)
		ops = append(ops, c47Op{Kind: "totals", Totals: t, Staging: r.Chance(1, 8)})
	}
	// state proof verification contexts
	if r.Chance(1, 3) {
		var sp []*ledgercore.StateProofVerificationContext
		for i := r.Range(1, 3); i > 0; i-- {
			sp = append(sp, &ledgercore.StateProofVerificationContext{LastAttestedRound: w.spNext, VotersCommitment: r.Bytes(8),
				OnlineTotalWeight: basics.MicroAlgos{Raw: c47U(r, 1<<40)}, Version: protocol.ConsensusCurrentVersion})
			w.spNext += 256
		}
		ops = append(ops, c47Op{Kind: "sp-store", SP: sp})
	}
	if r.Chance(1, 4) {
		ops = append(ops, c47Op{Kind: "sp-delete", Rnd: basics.Round(256 * r.Intn(int(w.spNext/256)+1))})
	}
	ops = append(ops, c47Op{Kind: "round", Rnd: newRound})
	w.round = newRound
	return ops
}

func c47Contains(s []basics.CreatableIndex, x basics.CreatableIndex) bool {
	for _, y := range s {
		if y == x {
			return true
		}
	}
	return false
}

// ---------------------------------------------------------------------------------------------
// queries

type c47Env struct {
	ar  trackerdb.AccountsReader
	arx trackerdb.AccountsReaderExt
	oar trackerdb.OnlineAccountsReader
	spr trackerdb.SpVerificationCtxReader
}

func c47MakeEnv(rd trackerdb.Reader) (*c47Env, error) {
	e := &c47Env{}
	var err error
	if e.ar, err = rd.MakeAccountsOptimizedReader(); err != nil {
		return nil, err
	}
	if e.arx, err = rd.MakeAccountsReader(); err != nil {
		return nil, err
	}
	if e.oar, err = rd.MakeOnlineAccountsOptimizedReader(); err != nil {
		return nil, err
	}
	e.spr = rd.MakeSpVerificationCtxReader()
	return e, nil
}

func (e *c47Env) close() {
	e.ar.Close()
	e.oar.Close()
}

type c47Query struct {
	Method string
	Args   string
	// Run returns a normalised value (refs replaced by nil-ness) and the error.
	Run func(e *c47Env) (any, error)
	// Stub: the kv backend has no implementation (returns zero values); compared only if it answers non-zero.
	Stub bool
}

type nAcct struct {
	Addr   basics.Address
	Data   trackerdb.BaseAccountData
	HasRef bool
	Round  basics.Round
}
type nRes struct {
	HasRef bool
	Aidx   basics.CreatableIndex
	Data   trackerdb.ResourcesData
	Round  basics.Round
}
type nResC struct {
	nRes
	Creator basics.Address
}
type nOnline struct {
	Addr     basics.Address
	Data     trackerdb.BaseOnlineAccountData
	HasRef   bool
	Round    basics.Round
	UpdRound basics.Round
}
type nKV struct {
	ValueIsNil bool
	Value      []byte
	Round      basics.Round
}
type nKVPair struct {
	Key        string
	ValueIsNil bool
	Value      []byte
}

func c47NOnline(d trackerdb.PersistedOnlineAccountData) nOnline {
	return nOnline{d.Addr, d.AccountData, d.Ref != nil, d.Round, d.UpdRound}
}
func c47NRes(d trackerdb.PersistedResourcesData) nRes {
	return nRes{d.AcctRef != nil, d.Aidx, d.Data, d.Round}
}

func (w *c47World) someAddr(r *kit.Rand) basics.Address {
	if r.Chance(1, 8) {
		var a basics.Address
		r.Fill(a[:])
		return a
	}
	a := w.addrs[r.Intn(len(w.addrs))]
	if r.Chance(1, 12) { // neighbour of a pool address
		a[31]++
	}
	return a
}

func (w *c47World) someRound(r *kit.Rand) basics.Round {
	switch r.Intn(4) {
	case 0:
		return w.round
	case 1:
		return w.round + basics.Round(r.Intn(3))
	default:
		return basics.Round(r.Intn(int(w.round) + 1))
	}
}

func (w *c47World) genQueries(r *kit.Rand, n int) []c47Query {
	ctx := context.Background()
	var qs []c47Query
	add := func(m, args string, run func(e *c47Env) (any, error)) {
		qs = append(qs, c47Query{Method: m, Args: args, Run: run})
	}
	stub := func(m, args string, run func(e *c47Env) (any, error)) {
		qs = append(qs, c47Query{Method: m, Args: args, Run: run, Stub: true})
	}
	for len(qs) < n {
		switch r.Intn(30) {
		case 0:
			a := w.someAddr(r)
			add("LookupAccount", c47A(a), func(e *c47Env) (any, error) {
				d, err := e.ar.LookupAccount(a)
				return nAcct{d.Addr, d.AccountData, d.Ref != nil, d.Round}, err
			})
		case 1:
			a := w.someAddr(r)
			cx, ct := w.assets[r.Intn(len(w.assets))], basics.AssetCreatable
			if r.Bool() {
				cx, ct = w.apps[r.Intn(len(w.apps))], basics.AppCreatable
			}
			add("LookupResources", fmt.Sprintf("%s,%d,%s", c47A(a), cx, c47Ctype(ct)), func(e *c47Env) (any, error) {
				d, err := e.ar.LookupResources(a, cx, ct)
				return c47NRes(d), err
			})
		case 2:
			a := w.someAddr(r)
			add("LookupAllResources", c47A(a), func(e *c47Env) (any, error) {
				d, rnd, err := e.ar.LookupAllResources(a)
				out := []nRes{}
				for _, x := range d {
					out = append(out, c47NRes(x))
				}
				return struct {
					L []nRes
					R basics.Round
				}{out, rnd}, err
			})
		case 3:
			a := w.someAddr(r)
			ct := basics.CreatableType(r.Intn(2))
			min := basics.CreatableIndex(0)
			if r.Bool() {
				min = append(append([]basics.CreatableIndex{}, w.assets...), w.apps...)[r.Intn(len(w.assets)+len(w.apps))]
			}
			max := uint64(r.Range(1, 5))
			add("LookupLimitedResources", fmt.Sprintf("%s,min=%d,max=%d,%s", c47A(a), min, max, c47Ctype(ct)), func(e *c47Env) (any, error) {
				d, rnd, err := e.ar.LookupLimitedResources(a, min, max, ct)
				out := []nResC{}
				for _, x := range d {
					out = append(out, nResC{c47NRes(x.PersistedResourcesData), x.Creator})
				}
				return struct {
					L []nResC
					R basics.Round
				}{out, rnd}, err
			})
		case 4, 5:
			k := w.kvKeys[r.Intn(len(w.kvKeys))]
			if r.Chance(1, 8) {
				k += "\x00"
			}
			add("LookupKeyValue", fmt.Sprintf("%x", k), func(e *c47Env) (any, error) {
				d, err := e.ar.LookupKeyValue(k)
				return nKV{d.Value == nil, d.Value, d.Round}, err
			})
		case 6, 7:
			p := w.somePrefix(r)
			max := uint64(r.Range(0, 8))
			pre := map[string]bool{}
			if r.Chance(1, 3) { // the ledger pre-populates the map from its in-memory deltas
				for i := r.Intn(3); i > 0; i-- {
					pre[w.kvKeys[r.Intn(len(w.kvKeys))]] = r.Bool()
				}
			}
			// contract (acctupdates.lookupKeysByPrefix): resultCount counts the VALID (true) entries of
			// the map and the database is only asked while resultCount < maxKeyNum
			cnt := uint64(0)
			for _, v := range pre {
				if v {
					cnt++
				}
			}
			if max <= cnt {
				max = cnt + uint64(r.Range(1, 3))
			}
			add("LookupKeysByPrefix", fmt.Sprintf("prefix=%x,max=%d,pre=%v", p, max, pre), func(e *c47Env) (any, error) {
				m := map[string]bool{}
				for k, v := range pre {
					m[k] = v
				}
				rnd, err := e.ar.LookupKeysByPrefix(p, max, m, cnt)
				return struct {
					M map[string]bool
					R basics.Round
				}{m, rnd}, err
			})
		case 8, 9, 10:
			p := w.somePrefix(r)
			cursor := ""
			if r.Bool() {
				cursor = w.kvKeys[r.Intn(len(w.kvKeys))]
				if r.Chance(1, 4) {
					cursor = cursor[:len(cursor)-1]
				}
			}
			limit := uint64(r.Intn(5))
			maxBytes := uint64(0)
			if r.Chance(1, 3) {
				maxBytes = uint64(r.Range(1, 60))
			}
			vals := r.Bool()
			var excl map[string][]byte
			if r.Chance(1, 3) {
				excl = map[string][]byte{}
				for i := r.Range(1, 3); i > 0; i-- {
					excl[w.kvKeys[r.Intn(len(w.kvKeys))]] = nil
				}
			}
			add("LookupKeysByPrefixCursor", fmt.Sprintf("prefix=%x,cursor=%x,limit=%d,maxBytes=%d,values=%v,exclude=%d", p, cursor, limit, maxBytes, vals, len(excl)), func(e *c47Env) (any, error) {
				rnd, res, more, err := e.ar.LookupKeysByPrefixCursor(p, cursor, limit, maxBytes, vals, excl)
				out := []nKVPair{}
				for _, x := range res {
					out = append(out, nKVPair{x.Key, x.Value == nil, x.Value})
				}
				return struct {
					R    basics.Round
					L    []nKVPair
					More bool
				}{rnd, out, more}, err
			})
		case 11:
			cx, ct := w.assets[r.Intn(len(w.assets))], basics.AssetCreatable
			if r.Bool() {
				cx = w.apps[r.Intn(len(w.apps))]
			}
			if r.Bool() {
				ct = basics.AppCreatable
			}
			add("LookupCreator", fmt.Sprintf("%d,%s", cx, c47Ctype(ct)), func(e *c47Env) (any, error) {
				a, ok, rnd, err := e.ar.LookupCreator(cx, ct)
				return struct {
					A  basics.Address
					Ok bool
					R  basics.Round
				}{a, ok, rnd}, err
			})
		case 12:
			st := r.Chance(1, 4)
			add("AccountsTotals", fmt.Sprint("staging=", st), func(e *c47Env) (any, error) { return e.arx.AccountsTotals(ctx, st) })
		case 13:
			add("AccountsRound", "", func(e *c47Env) (any, error) { return e.arx.AccountsRound() })
		case 14:
			a := w.someAddr(r)
			add("LookupAccountRowID", c47A(a), func(e *c47Env) (any, error) {
				ref, err := e.arx.LookupAccountRowID(a)
				return ref != nil, err
			})
		case 15:
			a := w.someAddr(r)
			cx := w.assets[r.Intn(len(w.assets))]
			if r.Bool() {
				cx = w.apps[r.Intn(len(w.apps))]
			}
			add("LookupResourceDataByAddrID", fmt.Sprintf("%s,%d", c47A(a), cx), func(e *c47Env) (any, error) {
				ref, err := e.arx.LookupAccountRowID(a)
				if err != nil {
					ref = nil // documented: nil ref -> ErrNotFound
				}
				return e.arx.LookupResourceDataByAddrID(ref, cx)
			})
		case 16:
			a := w.someAddr(r)
			add("LookupOnlineAccountDataByAddress", c47A(a), func(e *c47Env) (any, error) {
				ref, data, err := e.arx.LookupOnlineAccountDataByAddress(a)
				return struct {
					HasRef bool
					Data   []byte
				}{ref != nil, data}, err
			})
		case 17, 18:
			rnd := w.someRound(r)
			off, n := uint64(r.Intn(3)), uint64(r.Range(1, 6))
			if r.Chance(1, 3) {
				off = 0
			}
			add("AccountsOnlineTop", fmt.Sprintf("rnd=%d,offset=%d,n=%d", rnd, off, n), func(e *c47Env) (any, error) {
				return e.arx.AccountsOnlineTop(rnd, off, n, c47Proto.RewardUnit)
			})
		case 19:
			add("AccountsOnlineRoundParams", "", func(e *c47Env) (any, error) {
				d, end, err := e.arx.AccountsOnlineRoundParams()
				return struct {
					L   []ledgercore.OnlineRoundParamsData
					End basics.Round
				}{d, end}, err
			})
		case 20:
			rnd := w.someRound(r)
			vr := rnd + basics.Round(r.Intn(60))
			lvl := 100 + c47U(r, 1000) // the rewards level never is below an account's RewardsBase (< 100 here)
			add("ExpiredOnlineAccountsForRound", fmt.Sprintf("rnd=%d,voteRnd=%d,level=%d", rnd, vr, lvl), func(e *c47Env) (any, error) {
				return e.arx.ExpiredOnlineAccountsForRound(rnd, vr, c47Proto.RewardUnit, lvl)
			})
		case 21:
			max := uint64(r.Intn(4))
			add("OnlineAccountsAll", fmt.Sprint("max=", max), func(e *c47Env) (any, error) {
				d, err := e.arx.OnlineAccountsAll(max)
				out := []nOnline{}
				for _, x := range d {
					out = append(out, c47NOnline(x))
				}
				return out, err
			})
		case 22:
			rnd := w.round
			if r.Chance(1, 5) && rnd > 0 {
				rnd--
			}
			add("LoadTxTail", fmt.Sprint("dbRound=", rnd), func(e *c47Env) (any, error) {
				d, h, base, err := e.arx.LoadTxTail(ctx, rnd)
				return struct {
					D    []*trackerdb.TxTailRound
					H    []crypto.Digest
					Base basics.Round
				}{d, h, base}, err
			})
		case 23:
			a := w.someAddr(r)
			rnd := w.someRound(r)
			if ur, ok := w.onlineR[a]; ok && r.Bool() {
				rnd = ur // exactly at / just before an update round
				if ur > 0 && r.Bool() {
					rnd--
				}
			}
			add("LookupOnline", fmt.Sprintf("%s,rnd=%d", c47A(a), rnd), func(e *c47Env) (any, error) {
				d, err := e.oar.LookupOnline(a, rnd)
				return c47NOnline(d), err
			})
		case 24:
			rnd := w.someRound(r)
			add("LookupOnlineRoundParams", fmt.Sprint(rnd), func(e *c47Env) (any, error) { return e.oar.LookupOnlineRoundParams(rnd) })
		case 25:
			a := w.someAddr(r)
			add("LookupOnlineHistory", c47A(a), func(e *c47Env) (any, error) {
				d, rnd, err := e.oar.LookupOnlineHistory(a)
				out := []nOnline{}
				for _, x := range d {
					out = append(out, c47NOnline(x))
				}
				return struct {
					L []nOnline
					R basics.Round
				}{out, rnd}, err
			})
		case 26:
			rnd := basics.Round(256 * r.Intn(int(w.spNext/256)+1))
			add("LookupSPContext", fmt.Sprint(rnd), func(e *c47Env) (any, error) {
				d, err := e.spr.LookupSPContext(rnd)
				if err != nil {
					return nil, err
				}
				return d, nil
			})
		case 27:
			add("GetAllSPContexts", "", func(e *c47Env) (any, error) { return e.spr.GetAllSPContexts(ctx) })
		case 28:
			switch r.Intn(7) {
			case 0:
				stub("AccountsHashRound", "", func(e *c47Env) (any, error) { return e.arx.AccountsHashRound(ctx) })
			case 1:
				stub("TotalAccounts", "", func(e *c47Env) (any, error) { return e.arx.TotalAccounts(ctx) })
			case 2:
				stub("TotalResources", "", func(e *c47Env) (any, error) { return e.arx.TotalResources(ctx) })
			case 3:
				stub("TotalKVs", "", func(e *c47Env) (any, error) { return e.arx.TotalKVs(ctx) })
			case 4:
				stub("TotalOnlineAccountRows", "", func(e *c47Env) (any, error) { return e.arx.TotalOnlineAccountRows(ctx) })
			case 5:
				stub("TotalOnlineRoundParams", "", func(e *c47Env) (any, error) { return e.arx.TotalOnlineRoundParams(ctx) })
			default:
				stub("GetAllSPContextsFromCatchpointTbl", "", func(e *c47Env) (any, error) { return e.spr.GetAllSPContextsFromCatchpointTbl(ctx) })
			}
		default:
			a := w.someAddr(r)
			stub("LookupAccountAddressFromAddressID", c47A(a), func(e *c47Env) (any, error) {
				ref, err := e.arx.LookupAccountRowID(a)
				if err != nil {
					return nil, err
				}
				return e.arx.LookupAccountAddressFromAddressID(ctx, ref)
			})
		}
	}
	return qs
}

func (w *c47World) somePrefix(r *kit.Rand) string {
	for {
		// a prefix consisting only of 0xff bytes has no upper bound; sql.go documents it as "not an
		// expected use case" and refuses it, so it is outside the contract
		if p := w.somePrefix1(r); strings.Trim(p, "\xff") != "" {
			return p
		}
	}
}

func (w *c47World) somePrefix1(r *kit.Rand) string {
	k := w.kvKeys[r.Intn(len(w.kvKeys))]
	switch r.Intn(6) {
	case 0:
		return k // a whole key as prefix
	case 1:
		if len(k) >= 11 {
			return k[:11] // all boxes of one app
		}
		return k
	case 2:
		return k[:r.Range(1, len(k))]
	case 3:
		return "bx:"
	case 4:
		if len(k) >= 11 {
			return k[:11] + "a"
		}
		return k
	default:
		if len(k) > 11 {
			return k[:len(k)-1]
		}
		return k
	}
}

var c47Opt = kit.FPOptions{NilEqualsEmpty: true}

// the db-round field of PersistedOnlineAccountData in a description ("...;Round=7;UpdRound=3;")
var c47RoundRe = regexp.MustCompile(`Round=\d+;UpdRound`)

// c47Call runs a query against one env, turning "unimplemented" panics into a marker.
func c47Call(q c47Query, e *c47Env) (desc string, errClass string, unimpl bool, errText string) {
	defer func() {
		if p := recover(); p != nil {
			if s := fmt.Sprint(p); strings.Contains(s, "unimplemented") {
				unimpl = true
				return
			}
			panic(p)
		}
	}()
	v, err := q.Run(e)
	if err != nil {
		if err.Error() == "not supported" {
			return "", "", true, ""
		}
		return "", c47ErrClass(err), false, err.Error()
	}
	return kit.Describe(v, c47Opt), "ok", false, ""
}

// c47CallExact is c47Call without the nil==empty normalisation (used to explain dualdriver complaints).
func c47CallExact(q c47Query, e *c47Env) string {
	defer func() { recover() }()
	v, err := q.Run(e)
	if err != nil {
		return "error"
	}
	return kit.Describe(v, kit.FPOptions{})
}

// ---------------------------------------------------------------------------------------------
// stores

type c47Stores struct {
	sql, kv, dual trackerdb.Store
	dir           string
}

func c47Open(c *kit.Ctx, inMem bool, initAccounts map[basics.Address]basics.AccountData) (*c47Stores, error) {
	s := &c47Stores{dir: c.Scratch("stores")}
	log := logging.NewLogger()
	log.SetOutput(io.Discard)
	var err error
	if s.sql, err = sqlitedriver.Open(s.dir+"/tracker.sqlite", inMem, log); err != nil {
		return nil, fmt.Errorf("sqlite open: %w", err)
	}
	if s.kv, err = pebbledbdriver.Open(s.dir+"/tracker", inMem, c47Proto, log); err != nil {
		return nil, fmt.Errorf("pebble open: %w", err)
	}
	params := trackerdb.Params{InitProto: protocol.ConsensusCurrentVersion, InitAccounts: initAccounts}
	for _, st := range []trackerdb.Store{s.sql, s.kv} {
		if _, err = st.RunMigrations(context.Background(), params, log, trackerdb.AccountDBVersion); err != nil {
			return nil, fmt.Errorf("migrations: %w", err)
		}
	}
	s.dual = dualdriver.MakeStore(s.sql, s.kv)
	return s, nil
}

func (s *c47Stores) close() {
	if s.dual != nil {
		s.dual.Close() // closes both
	}
	os.RemoveAll(s.dir)
}

type c47Finding struct {
	key, msg string
	witness  map[string]any
}

// c47RunCase builds the stores, applies nb batches and the queries after each. It stops at the
// first divergence (later differences would only be consequences). batches==nil: generate.
func c47RunCase(c *kit.Ctx, caseIdx uint64, count bool, nilEmpty map[string]int) (found []*c47Finding) {
	seenKeys := map[string]bool{}
	r := c.Rand(47, caseIdx)
	w := newC47World(r)
	inMem := !r.Chance(1, 6)
	var init map[basics.Address]basics.AccountData
	if r.Chance(1, 3) { // genesis accounts through the migration path of each backend
		init = map[basics.Address]basics.AccountData{}
		for i := 0; i < r.Range(1, 4); i++ {
			ad := basics.AccountData{Status: basics.Status(r.Intn(3)), MicroAlgos: basics.MicroAlgos{Raw: uint64(r.Range(1, 1<<40))}}
			if ad.Status == basics.Online {
				v := c47Voting(r, 0)
				ad.VoteID, ad.SelectionID, ad.StateProofID = v.VoteID, v.SelectionID, v.StateProofID
				ad.VoteFirstValid, ad.VoteLastValid, ad.VoteKeyDilution = v.VoteFirstValid, v.VoteLastValid, v.VoteKeyDilution
			}
			a := w.addrs[r.Intn(len(w.addrs))]
			init[a] = ad
			if ad.Status == basics.Online {
				w.onlineR[a] = 0
			}
		}
	}
	st, err := c47Open(c, inMem, init)
	if err != nil {
		c.Harness("case %d: %v", caseIdx, err)
	}
	defer st.close()
	nb := r.Range(2, c.N(8, 14))
	var trace []string
	mk := func(key, msg string, extra map[string]any) *c47Finding {
		wit := map[string]any{"seed": c.Seed, "case": caseIdx, "in_memory": inMem, "genesis_accounts": len(init), "message": msg,
			"history": trace, "replay": fmt.Sprintf("VERIF_SEED=%d: c47RunCase(case %d)", c.Seed, caseIdx)}
		for k, v := range extra {
			wit[k] = v
		}
		return &c47Finding{key, msg, wit}
	}
	for b := 0; b <= nb; b++ {
		if b > 0 {
			ops := w.genBatch(r)
			viaDual := r.Chance(1, 4)
			// split at commit markers
			var chunk []c47Op
			flush := func() *c47Finding {
				if len(chunk) == 0 {
					return nil
				}
				defer func() { chunk = nil }()
				for _, o := range chunk {
					trace = append(trace, o.String())
				}
				trace = append(trace, fmt.Sprintf("COMMIT(viaDual=%v)", viaDual))
				if viaDual {
					res, err := c47ApplyTx(st.dual, chunk)
					if count {
						c.Count("write_ops_via_dualdriver", len(chunk))
					}
					for i, x := range res {
						if strings.Contains(x, "DUAL-INCONSISTENT") {
							return mk("dual-inconsistent-write:"+chunk[i].Kind, fmt.Sprintf("dualdriver reported inconsistent results for %s: %s", chunk[i], x), nil)
						}
					}
					if err != nil {
						if errors.Is(err, dualdriver.ErrInconsistentResult) {
							return mk("dual-inconsistent-write:transaction", "dualdriver transaction failed: "+err.Error(), nil)
						}
						return mk("write-error", "transaction through dualdriver failed: "+err.Error(), nil)
					}
					return nil
				}
				rs, es := c47ApplyTx(st.sql, chunk)
				rk, ek := c47ApplyTx(st.kv, chunk)
				if count {
					c.Count("write_ops_direct", len(chunk))
					c.Eval(len(chunk))
				}
				if (es == nil) != (ek == nil) {
					return mk("write-diff:transaction", fmt.Sprintf("transaction error differs: sqlite=%v pebble=%v", es, ek), nil)
				}
				if es != nil {
					return mk("write-error", fmt.Sprintf("both transactions failed: sqlite=%v pebble=%v", es, ek), nil)
				}
				for i := range rs {
					if i < len(rk) && rs[i] != rk[i] {
						return mk("write-diff:"+chunk[i].Kind, fmt.Sprintf("write result differs for %s: sqlite %q, pebble %q", chunk[i], rs[i], rk[i]), nil)
					}
				}
				return nil
			}
			for _, o := range ops {
				if o.Kind == "commit" {
					if f := flush(); f != nil {
						return append(found, f)
					}
					continue
				}
				chunk = append(chunk, o)
			}
			if f := flush(); f != nil {
				return append(found, f) // write results differ: the states may differ from here on, stop the case
			}
			if count {
				c.Count("batches", 1)
			}
		}
		// state check: the online-accounts table as a whole (address, update round, data). If the
		// tables differ the batch had different EFFECTS on the two stores; everything read later
		// would only be a consequence, so the case ends here with the effect as the finding.
		if b > 0 {
			dump := func(s trackerdb.Store) (string, error) {
				arx, err := s.MakeAccountsReader()
				if err != nil {
					return "", err
				}
				all, err := arx.OnlineAccountsAll(0)
				if err != nil {
					return "", err
				}
				var sb strings.Builder
				for _, x := range all {
					fmt.Fprintf(&sb, "%s@%d offline=%v algos=%d voteLast=%d\n", c47A(x.Addr), x.UpdRound, x.AccountData.IsVotingEmpty(), x.AccountData.MicroAlgos.Raw, x.AccountData.VoteLastValid)
				}
				return sb.String(), nil
			}
			ds, es := dump(st.sql)
			dk, ek := dump(st.kv)
			if es != nil || ek != nil {
				return append(found, mk("write-effect:online-accounts-table:error", fmt.Sprintf("OnlineAccountsAll(0) failed: sqlite=%v pebble=%v", es, ek), nil))
			}
			if count {
				c.Eval(1)
				c.Count("online_table_state_checks", 1)
			}
			if ds != dk {
				var dels []string
				for k := len(trace) - 1; k >= 0 && !strings.HasPrefix(trace[k], "COMMIT") || k == len(trace)-1; k-- {
					if strings.HasPrefix(trace[k], "online") {
						dels = append(dels, trace[k])
					}
				}
				return append(found, mk("write-effect:online-accounts-table", fmt.Sprintf("after batch %d (db round %d) the online-accounts tables differ; online ops of the last transaction: %v", b, w.round, dels),
					map[string]any{"sqlite_rows(addr@updround)": strings.Split(ds, "\n"), "pebble_rows(addr@updround)": strings.Split(dk, "\n")}))
			}
		}
		// queries
		qs := w.genQueries(r, r.Range(25, 60))
		useSnapshot := r.Bool()
		run := func(store trackerdb.Store, f func(e *c47Env)) error {
			if useSnapshot {
				return store.SnapshotContext(context.Background(), func(ctx context.Context, tx trackerdb.SnapshotScope) error {
					e, err := c47MakeEnv(tx)
					if err != nil {
						return err
					}
					defer e.close()
					f(e)
					return nil
				})
			}
			e, err := c47MakeEnv(store)
			if err != nil {
				return err
			}
			defer e.close()
			f(e)
			return nil
		}
		type ans struct {
			desc, ec string
			unimpl   bool
			etext    string
		}
		as, ak := make([]ans, len(qs)), make([]ans, len(qs))
		if err := run(st.sql, func(e *c47Env) {
			for i, q := range qs {
				as[i].desc, as[i].ec, as[i].unimpl, as[i].etext = c47Call(q, e)
			}
		}); err != nil {
			c.Harness("case %d: sqlite readers: %v", caseIdx, err)
		}
		if err := run(st.kv, func(e *c47Env) {
			for i, q := range qs {
				ak[i].desc, ak[i].ec, ak[i].unimpl, ak[i].etext = c47Call(q, e)
			}
		}); err != nil {
			c.Harness("case %d: pebble readers: %v", caseIdx, err)
		}
		var dualQ []int
		for i, q := range qs {
			if as[i].unimpl || ak[i].unimpl {
				if count {
					c.Count("not_compared:"+q.Method, 1)
					c.Count("not_compared_total", 1)
				}
				continue
			}
			same := as[i].desc == ak[i].desc && as[i].ec == ak[i].ec
			if q.Stub && !same && ak[i].ec == "ok" && c47IsZeroDesc(ak[i].desc) {
				if count {
					c.Count("not_compared:"+q.Method, 1)
					c.Count("not_compared_total", 1)
				}
				continue
			}
			if count {
				c.Eval(1)
				c.Count("queries_compared", 1)
				c.Count("q:"+q.Method, 1)
				if as[i].ec == "ok" && !c47IsZeroDesc(as[i].desc) {
					c.Count("queries_with_nonempty_answer", 1)
				}
				if as[i].ec == "err:notfound" {
					c.Count("queries_notfound", 1)
				}
				c.Distinct(fmt.Sprintf("%s|%s|%d", q.Method, as[i].ec, len(as[i].desc)/16))
			}
			if !same {
				// a read does not change state: record the class (once per case) and go on, so that
				// frequent shallow divergences do not hide deeper ones
				cls := as[i].ec + "/" + ak[i].ec
				if as[i].ec == "ok" && ak[i].ec == "ok" {
					cls = "values"
					if q.Method == "LookupKeysByPrefixCursor" && strings.ReplaceAll(as[i].desc, "ValueIsNil=true;Value=[]", "ValueIsNil=false;Value=x''") == strings.ReplaceAll(ak[i].desc, "ValueIsNil=true;Value=[]", "ValueIsNil=false;Value=x''") {
						cls = "empty-value-nil-vs-empty"
					}
					if q.Method == "OnlineAccountsAll" && c47RoundRe.ReplaceAllString(as[i].desc, "Round=*;UpdRound") == c47RoundRe.ReplaceAllString(ak[i].desc, "Round=*;UpdRound") {
						cls = "round-field-only"
					}
				}
				key := "diff:" + q.Method + ":" + cls
				if !seenKeys[key] {
					seenKeys[key] = true
					found = append(found, mk(key, fmt.Sprintf("%s(%s) after batch %d (db round %d, snapshot=%v)", q.Method, q.Args, b, w.round, useSnapshot),
						map[string]any{"method": q.Method, "args": q.Args, "sqlite": c47Trunc(as[i].ec + " " + as[i].etext + as[i].desc), "pebble": c47Trunc(ak[i].ec + " " + ak[i].etext + ak[i].desc),
							"earlier_divergences_in_this_case": c47Keys(seenKeys)}))
				}
				continue
			}
			if !q.Stub {
				dualQ = append(dualQ, i)
			}
		}
		// second oracle: the production dualdriver over the same two stores, for the queries whose
		// answers this monitor found equal
		if err := run(st.dual, func(e *c47Env) {
			for _, i := range dualQ {
				q := qs[i]
				_, ec, _, _ := c47Call(q, e)
				if count {
					c.Count("dualdriver_queries", 1)
				}
				if ec != "DUAL-INCONSISTENT" {
					continue
				}
				key := "dual-inconsistent:" + q.Method
				if seenKeys[key] {
					continue
				}
				seenKeys[key] = true
				// explain: is it only Go's nil-vs-empty list representation (dualdriver compares with cmp.Equal)?
				var xs, xk string
				run(st.sql, func(e2 *c47Env) { xs = c47CallExact(q, e2) })
				run(st.kv, func(e2 *c47Env) { xk = c47CallExact(q, e2) })
				if xs != xk && as[i].desc == ak[i].desc {
					nilEmpty[q.Method]++
					continue
				}
				found = append(found, mk(key, fmt.Sprintf("dualdriver returned ErrInconsistentResult for %s(%s) although both answers are equal for this monitor", q.Method, q.Args),
					map[string]any{"method": q.Method, "args": q.Args, "sqlite": c47Trunc(xs), "pebble": c47Trunc(xk)}))
			}
		}); err != nil {
			c.Harness("case %d: dual readers: %v", caseIdx, err)
		}
	}
	return found
}

func c47Keys(m map[string]bool) []string {
	out := make([]string, 0, len(m))
	for k := range m {
		out = append(out, k)
	}
	sort.Strings(out)
	return out
}

func c47IsZeroDesc(d string) bool {
	return d == "<nil>" || strings.Trim(d, "0{}[] x'") == ""
}

func c47Trunc(s string) string {
	if len(s) > 1800 {
		return s[:1800] + "…"
	}
	return s
}

func TestVerifC47Store(t *testing.T) {
	c := kit.Start(t, "C47", "store")
	defer c.Finish()
	if os.Getenv("VERIF_C47_DEBUG") == "" {
		logging.Base().SetOutput(io.Discard)
	}
	c.Rule("per case a SQLite and a Pebble tracker store (in memory or on disk, optionally with genesis accounts through each backend's migration) receive 2-14 commit-like write batches drawn from small pools with clustered addresses / creatable indices / box keys (accounts, asset and app resources, kv incl. empty values, creatables, online-account rows incl. offline rows and equal balances, OnlineAccountsDelete incl. forget-before equal to an update round, round params + pruning, tx tail + forgetting, totals, state-proof contexts, round), as one transaction or several, directly on each store (per-op results compared) or through the production dualdriver; after the genesis state and after every batch 25-60 queries over every reader method (point lookups, absent keys, prefix listings with pre-filled maps and limits, cursor pagination with byte limits/exclusions, online top/expired/history, tx tail, round params, state proofs) run on both stores through store-level readers or snapshots and are compared after normalising refs; a case stops at its first divergence; distinct = (method, answer class, answer size bucket)")
	c.Assume("workload restricted to the ledger's usage contract (see file header); results are compared after replacing opaque refs by their nil-ness; nil and empty lists are equal; error texts are not compared")
	c.Assume("methods without a key-value implementation (TODO stubs returning zero values, 'not supported', 'unimplemented' panics) are counted under not_compared:<method>, not judged")
	ncase := c.N(120, 4000)
	perKey := map[string]int{}
	nilEmpty := map[string]int{}
	for i := 0; i < ncase; i++ {
		var fs []*c47Finding
		func() {
			defer func() {
				if p := recover(); p != nil {
					fs = append(fs, &c47Finding{key: "panic:store", msg: fmt.Sprint(p), witness: map[string]any{"case": i, "panic": fmt.Sprint(p), "stack": string(debug.Stack())}})
				}
			}()
			fs = c47RunCase(c, uint64(i), true, nilEmpty)
		}()
		c.Count("cases", 1)
		if len(fs) > 0 {
			c.Count("cases_diverged", 1)
		} else {
			c.Count("cases_without_divergence", 1)
		}
		if i < 4 {
			var ks []string
			for _, f := range fs {
				ks = append(ks, f.key)
			}
			c.Sample(map[string]any{"case": i, "divergences": ks})
		}
		for _, f := range fs {
			perKey[f.key]++
			if perKey[f.key] <= 2 {
				c.Violation(f.key, f.witness)
			}
		}
	}
	c.Observation("inside one transaction the SQLite store sees its own writes while the Pebble store reads the snapshot taken at Begin (transactionScope.Get/NewIter use the snapshot, writes go to a batch); the ledger loads old state before writing, and so does this workload, so this is not judged")
	for m, n := range nilEmpty {
		c.Observation("dualdriver returned ErrInconsistentResult for %s in %d cases where the two answers differ only in nil vs empty list (it compares with cmp.Equal); not a different answer for callers, not reported as a violation", m, n)
	}
	keys := make([]string, 0, len(perKey))
	for k := range perKey {
		keys = append(keys, fmt.Sprintf("%s=%d", k, perKey[k]))
	}
	sort.Strings(keys)
	c.Extra("divergence_classes", keys)
	// catchpoint readers/writers and iterators: no kv implementation at all (panic "unimplemented")
	c47ProbeUnimplemented(c)
	if c.Violations() == 0 {
		c.Require("queries_compared", int64(ncase*100))
		c.Require("queries_with_nonempty_answer", int64(ncase*20))
		c.Require("batches", int64(ncase*2))
		c.Require("write_ops_via_dualdriver", int64(ncase))
		c.Require("dualdriver_queries", int64(ncase*50))
		c.Require("not_compared_total", 1)
		for _, m := range []string{"LookupAccount", "LookupResources", "LookupAllResources", "LookupKeyValue", "LookupKeysByPrefix", "LookupKeysByPrefixCursor", "LookupCreator",
			"AccountsTotals", "AccountsRound", "LookupAccountRowID", "LookupResourceDataByAddrID", "LookupOnlineAccountDataByAddress", "AccountsOnlineTop", "AccountsOnlineRoundParams",
			"ExpiredOnlineAccountsForRound", "OnlineAccountsAll", "LoadTxTail", "LookupOnline", "LookupOnlineRoundParams", "LookupOnlineHistory", "LookupSPContext", "GetAllSPContexts"} {
			c.Require("q:"+m, 20)
		}
	}
}

// c47ProbeUnimplemented records which parts of the Store interface the key-value backend does not
// implement at all (so the evidence says what was not compared).
func c47ProbeUnimplemented(c *kit.Ctx) {
	st, err := c47Open(c, true, nil)
	if err != nil {
		c.Harness("probe: %v", err)
	}
	defer st.close()
	probe := func(name string, f func(s trackerdb.Store)) {
		for i, s := range []trackerdb.Store{st.sql, st.kv} {
			func() {
				defer func() {
					if p := recover(); p != nil && strings.Contains(fmt.Sprint(p), "unimplemented") {
						c.Count("not_compared:"+name, 1)
						c.Count("unimplemented_in_"+[]string{"sqlite", "pebble"}[i], 1)
					}
				}()
				f(s)
			}()
		}
	}
	ctx := context.Background()
	probe("MakeCatchpointReader", func(s trackerdb.Store) { s.MakeCatchpointReader() })
	probe("MakeCatchpointWriter", func(s trackerdb.Store) { s.MakeCatchpointWriter() })
	probe("MakeCatchpointReaderWriter", func(s trackerdb.Store) { s.MakeCatchpointReaderWriter() })
	probe("MakeMerkleCommitter", func(s trackerdb.Store) { s.MakeMerkleCommitter(false) })
	probe("MakeOrderedAccountsIter", func(s trackerdb.Store) { s.MakeOrderedAccountsIter(10) })
	probe("MakeKVsIter", func(s trackerdb.Store) {
		if it, err := s.MakeKVsIter(ctx); err == nil && it != nil {
			it.Close()
		}
	})
	probe("MakeEncodedAccountsBatchIter", func(s trackerdb.Store) {
		if it := s.MakeEncodedAccountsBatchIter(); it != nil {
			it.Close()
		}
	})
	probe("MakeCatchpointPendingHashesIterator", func(s trackerdb.Store) {
		if it := s.MakeCatchpointPendingHashesIterator(10); it != nil {
			it.Close()
		}
	})
	probe("MakeOrderedOnlineAccountsIter", func(s trackerdb.Store) {
		if it, err := s.MakeOrderedOnlineAccountsIter(ctx, false, 0); err == nil && it != nil {
			it.Close()
		}
	})
	probe("MakeOnlineRoundParamsIter", func(s trackerdb.Store) {
		if it, err := s.MakeOnlineRoundParamsIter(ctx, false, 0); err == nil && it != nil {
			it.Close()
		}
	})
}
