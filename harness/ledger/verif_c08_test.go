package ledger

// C08: ledger queries answer from the block history, not from flush timing.
// Oracle: the per-round reference model (verif_hl_model_test.go). Concurrent reader goroutines
// query random (round, key) pairs through the public lookup API while the writer adds blocks,
// forces tracker commits, reloads and reopens; verifhook sleeps widen the windows between
// "released the accounts lock" and "read the DB", and between the DB transaction and postCommit.

import (
	"bytes"
	"fmt"
	"sync"
	"sync/atomic"
	"testing"
	"time"

	"github.com/algorand/go-algorand/data/basics"
	"github.com/algorand/go-algorand/ledger/ledgercore"
	"github.com/algorand/go-algorand/util/verifhook"
	"verif.local/kit"
)

type c08Shared struct {
	s       *hlSim
	modelMu sync.RWMutex // protects the model (writer applies deltas under Lock)
	gate    sync.RWMutex // readers hold RLock per query; reopen takes Lock (ledger pointer swap)
	stop    atomic.Bool
	// published by the writer: highest round both ledger and model contain
	latest atomic.Uint64
}

func c08Compare(sh *c08Shared, c *kit.Ctx, r *kit.Rand, caseTag string) {
	s := sh.s
	sh.gate.RLock()
	defer sh.gate.RUnlock()
	l := s.l
	latest := basics.Round(sh.latest.Load())
	dbBefore := l.LatestTrackerCommitted()
	if dbBefore > latest {
		return
	}
	// choose the round: bias toward the boundaries dbRound, dbRound+1, latest
	var rnd basics.Round
	switch r.Intn(6) {
	case 0:
		rnd = dbBefore
	case 1:
		rnd = dbBefore + 1
	case 2:
		rnd = latest
	default:
		rnd = dbBefore + basics.Round(r.Uint64n(uint64(latest-dbBefore)+1))
	}
	if rnd > latest {
		rnd = latest
	}

	sh.modelMu.RLock()
	m := s.m
	addrs := m.addresses()
	addr := addrs[r.Intn(len(addrs))]
	kind := r.Pick([]int{2, 1, 2, 2, 1, 4, 1})
	var idx basics.CreatableIndex
	var creatables []basics.CreatableIndex
	for k := range m.creators {
		creatables = append(creatables, k)
	}
	if len(creatables) > 0 {
		// deterministic choice irrespective of map order
		min, max := creatables[0], creatables[0]
		for _, k := range creatables {
			if k < min {
				min = k
			}
			if k > max {
				max = k
			}
		}
		idx = min + basics.CreatableIndex(r.Uint64n(uint64(max-min)+1))
	}
	var kvKey string
	if kind == 5 {
		keys := make([]string, 0, len(m.kv))
		for k := range m.kv {
			keys = append(keys, k)
		}
		if len(keys) == 0 {
			kind = 0
		} else {
			// pick deterministically: smallest key >= a random probe
			probe := keys[0]
			best := ""
			for _, k := range keys {
				if best == "" || k < best {
					best = k
				}
			}
			n := r.Intn(len(keys))
			// n-th in sorted order without sorting everything each time is overkill; sort (small)
			sortStrings(keys)
			_ = probe
			kvKey = keys[n]
		}
	}
	// an index names either an asset or an app for its whole life; asking the ledger for the other
	// kind is a caller error (the ledger answers with an error), so route by the index's kind
	if kind == 2 || kind == 3 {
		if h := m.creators[idx]; h != nil && len(h.v) > 0 {
			for _, ver := range h.v {
				if ver.present {
					if ver.val.ctype == basics.AssetCreatable {
						kind = 2
					} else {
						kind = 3
					}
					break
				}
			}
		}
	}
	// bias resource lookups toward holders/creators of the resource
	if (kind == 2 || kind == 3) && r.Chance(2, 3) {
		if cr, ok := m.creators[idx].at(m.latest); ok && r.Bool() {
			addr = cr.addr
		}
	}
	// expected values
	wantAcct := m.acct(rnd, addr)
	wantAcctR := m.acctWithRewards(rnd, addr)
	wantAP, okAP := m.assetParams[hlRes{addr, idx}].at(rnd)
	wantAH, okAH := m.assetHold[hlRes{addr, idx}].at(rnd)
	wantPP, okPP := m.appParams[hlRes{addr, idx}].at(rnd)
	wantPL, okPL := m.appLocal[hlRes{addr, idx}].at(rnd)
	wantKV, okKV := m.kv[kvKey].at(rnd)
	ct := basics.AssetCreatable
	if r.Bool() {
		ct = basics.AppCreatable
	}
	wantCr, okCr := m.creator(rnd, idx, ct)
	lastChange := m.accts[addr].lastChange(rnd)
	sh.modelMu.RUnlock()

	c.Eval(1)
	report := func(api string, got, want any, err error) {
		dbAfter := l.LatestTrackerCommitted()
		if err != nil {
			if rnd < dbAfter {
				c.Count("errors_round_left_window", 1)
				return // the round legitimately left the served window during the call
			}
			c.Violation("lookup-error-for-served-round", map[string]any{"api": api, "round": rnd, "latest": latest, "dbRound_before": dbBefore, "dbRound_after": dbAfter, "addr": addr.String(), "idx": idx, "key": fmt.Sprintf("%x", kvKey), "error": err.Error(), "config": s.cfg.String(), "trace": s.traceTail(25), "case": caseTag})
			return
		}
		c.Violation("lookup-differs-from-history", map[string]any{"api": api, "round": rnd, "latest": latest, "dbRound_before": dbBefore, "dbRound_after": dbAfter, "addr": addr.String(), "idx": idx, "key": fmt.Sprintf("%x", kvKey), "got": fmt.Sprintf("%+v", got), "want": fmt.Sprintf("%+v", want), "config": s.cfg.String(), "trace": s.traceTail(25), "case": caseTag})
	}
	served := "deltas"
	if rnd == dbBefore {
		served = "db-round"
	}
	switch kind {
	case 0:
		got, _, err := l.LookupWithoutRewards(rnd, addr)
		if err != nil || got != wantAcct {
			report("LookupWithoutRewards", got, wantAcct, err)
		}
		c.Count("lookups.account", 1)
		c.Distinct(fmt.Sprintf("acct|gap%d|off%d|age%d", min(int(latest-dbBefore), 20), min(int(rnd-dbBefore), 20), min(int(rnd-lastChange), 12)))
	case 1:
		got, _, wr, err := l.LookupAccount(rnd, addr)
		if err != nil || got != wantAcctR || wr != wantAcct.MicroAlgos {
			report("LookupAccount", fmt.Sprintf("%+v wr=%d", got, wr.Raw), fmt.Sprintf("%+v wr=%d", wantAcctR, wantAcct.MicroAlgos.Raw), err)
		}
		c.Count("lookups.account_rewards", 1)
	case 2:
		got, err := l.LookupAsset(rnd, addr, basics.AssetIndex(idx))
		bad := err != nil || (got.AssetParams != nil) != okAP || (got.AssetHolding != nil) != okAH
		if !bad && okAP && *got.AssetParams != wantAP {
			bad = true
		}
		if !bad && okAH && *got.AssetHolding != wantAH {
			bad = true
		}
		if bad {
			report("LookupAsset", c08AssetStr(got), fmt.Sprintf("params(%v)=%+v holding(%v)=%+v", okAP, wantAP, okAH, wantAH), err)
		}
		if okAP || okAH {
			c.Count("lookups.asset_present", 1)
		}
		c.Count("lookups.asset", 1)
	case 3:
		got, err := l.LookupApplication(rnd, addr, basics.AppIndex(idx))
		bad := err != nil || (got.AppParams != nil) != okPP || (got.AppLocalState != nil) != okPL
		o := kit.FPOptions{NilEqualsEmpty: true}
		if !bad && okPP && kit.Fingerprint(*got.AppParams, o) != kit.Fingerprint(wantPP, o) {
			bad = true
		}
		if !bad && okPL && kit.Fingerprint(*got.AppLocalState, o) != kit.Fingerprint(wantPL, o) {
			bad = true
		}
		if bad {
			report("LookupApplication", c08AppStr(got), fmt.Sprintf("params(%v)=%+v local(%v)=%+v", okPP, wantPP, okPL, wantPL), err)
		}
		if okPP || okPL {
			c.Count("lookups.app_present", 1)
		}
		c.Count("lookups.app", 1)
	case 4:
		got, ok, err := l.GetCreatorForRound(rnd, idx, ct)
		if err != nil || ok != okCr || (ok && got != wantCr) {
			report("GetCreatorForRound", fmt.Sprintf("%v %v", got, ok), fmt.Sprintf("%v %v", wantCr, okCr), err)
		}
		if okCr {
			c.Count("lookups.creator_present", 1)
		}
		c.Count("lookups.creator", 1)
	case 5:
		got, err := l.LookupKv(rnd, kvKey)
		if err != nil || (got != nil) != okKV || (okKV && !bytes.Equal(got, wantKV)) {
			report("LookupKv", fmt.Sprintf("%x (nil=%v)", got, got == nil), fmt.Sprintf("%x (present=%v)", wantKV, okKV), err)
		}
		if okKV {
			c.Count("lookups.kv_present", 1)
		} else {
			c.Count("lookups.kv_absent", 1)
		}
	case 6:
		// LookupLatest answers at the latest round and reports it
		got, gotRnd, wr, err := l.LookupLatest(addr)
		if err != nil {
			report("LookupLatest", nil, nil, err)
			break
		}
		if uint64(gotRnd) > sh.latest.Load() {
			// the writer added a block the model does not have yet; skip (cannot be judged)
			c.Count("lookups.latest_ahead_of_model", 1)
			break
		}
		sh.modelMu.RLock()
		want := m.fullAccount(gotRnd, addr)
		wantR := m.acctWithRewards(gotRnd, addr)
		wantWR := m.acct(gotRnd, addr).MicroAlgos
		sh.modelMu.RUnlock()
		// LookupLatest returns the account with pending rewards applied
		want.MicroAlgos = wantR.MicroAlgos
		want.RewardsBase = wantR.RewardsBase
		want.RewardedMicroAlgos = wantR.RewardedMicroAlgos
		o := kit.FPOptions{NilEqualsEmpty: true}
		if kit.Fingerprint(got, o) != kit.Fingerprint(want, o) || wr != wantWR {
			rnd = gotRnd
			report("LookupLatest", kit.Describe(got, o), kit.Describe(want, o), nil)
		}
		c.Count("lookups.latest", 1)
	}
	c.Count("lookups.served_"+served, 1)
}

func sortStrings(a []string) {
	for i := 1; i < len(a); i++ {
		for j := i; j > 0 && a[j] < a[j-1]; j-- {
			a[j], a[j-1] = a[j-1], a[j]
		}
	}
}

func c08AssetStr(r ledgercore.AssetResource) string {
	s := ""
	if r.AssetParams != nil {
		s += fmt.Sprintf("params=%+v ", *r.AssetParams)
	}
	if r.AssetHolding != nil {
		s += fmt.Sprintf("holding=%+v", *r.AssetHolding)
	}
	return s
}

func c08AppStr(r ledgercore.AppResource) string {
	s := ""
	if r.AppParams != nil {
		s += fmt.Sprintf("params=%+v ", *r.AppParams)
	}
	if r.AppLocalState != nil {
		s += fmt.Sprintf("local=%+v", *r.AppLocalState)
	}
	return s
}

func c08ArmHooks(r *kit.Rand) {
	// widen windows that exist in the code: after the accounts lock is released and before the DB
	// read; between the tracker DB transaction and postCommit. Sleep lengths are PRNG-chosen and
	// only some hits sleep, so both orders of the race are explored.
	var n atomic.Uint64
	mk := func(every uint64, d time.Duration) verifhook.Handler {
		return func(string, uint64) {
			if n.Add(1)%every == 0 {
				time.Sleep(d)
			}
		}
	}
	for _, p := range []string{"lookupKv", "lookupResource", "lookupWithoutRewards", "getCreatorForRound", "lookupLatest"} {
		verifhook.Set("ledger.au."+p+".beforeDB", mk(uint64(2+r.Intn(3)), time.Duration(50+r.Intn(400))*time.Microsecond))
	}
	verifhook.Set("ledger.tr.commitRound.afterTx", mk(1, time.Duration(100+r.Intn(900))*time.Microsecond))
	verifhook.Set("ledger.tr.commitRound.afterPrepare", mk(2, time.Duration(50+r.Intn(300))*time.Microsecond))
}

func TestVerifC08(t *testing.T) {
	c := kit.Start(t, "C08", "lookups")
	defer c.Finish()
	c.Rule("PRNG-generated transaction histories (payments, closes, keyreg, asset and app lifecycles, boxes, inner payments, rekeys) on a real on-disk ledger under PRNG-chosen configurations (protocol windows, MaxAcctLookback 1..16, archival) and schedules (forced tracker commits, reloads, close/reopen, cache flushes); 4-8 concurrent readers query random (round,key) pairs via LookupWithoutRewards/LookupAccount/LookupAsset/LookupApplication/GetCreatorForRound/LookupKv/LookupLatest with hook-injected delays in the lock-release→DB-read and DB-commit→postCommit windows; every answer compared with the per-round reference model; distinct = distinct (latest−dbRound, queried offset, age of last change) shapes of account lookups")
	c.Assume("the reference model is built from the evaluator's StateDelta of each block (evaluation itself is checked by C18-C24)")
	nh := c.N(4, 36)
	blocks := c.N(70, 220)
	for h := 0; h < nh && c.Violations() < 5; h++ {
		r := c.Rand(8, uint64(h))
		cfg := hlRandomConfig(r)
		verifhook.Reset()
		c08ArmHooks(r)
		s := hlNewSim(t, c, r, cfg)
		sh := &c08Shared{s: s}
		nReaders := r.Range(4, 8)
		var wg sync.WaitGroup
		var done atomic.Uint64
		for i := 0; i < nReaders; i++ {
			wg.Add(1)
			rr := c.Rand(8, uint64(h), uint64(1000+i))
			go func(i int) {
				defer wg.Done()
				for !sh.stop.Load() {
					c08Compare(sh, c, rr, fmt.Sprintf("history %d reader %d", h, i))
					done.Add(1)
				}
			}(i)
		}
		for b := 0; b < blocks; b++ {
			// writer: produce the block (ledger write happens outside the model lock)
			sh.modelMu.Lock() // model mutation happens inside step() -> addValidated -> m.apply
			s.step()
			sh.latest.Store(uint64(s.m.latest))
			sh.modelMu.Unlock()
			act := s.r.Pick([]int{40, 15, 20, 5, 6, 6, 8})
			switch act {
			case 5:
				sh.gate.Lock()
				s.reopen()
				sh.gate.Unlock()
			case 4:
				s.reload()
			case 2:
				s.flush()
			case 3:
				s.settle()
				s.l.FlushCaches()
			case 1:
				s.waitBlockQueue()
			case 6:
				s.settle()
			}
			c.Count("schedule."+[]string{"none", "wait-bq", "flush", "flush-caches", "reload", "reopen", "settle"}[act], 1)
			// let readers make progress on this state before the next block
			target := done.Load() + uint64(nReaders*6)
			for spin := 0; done.Load() < target && spin < 2000; spin++ {
				time.Sleep(50 * time.Microsecond)
			}
		}
		sh.stop.Store(true)
		wg.Wait()
		for k, v := range verifhook.Counts() {
			c.Count("hook."+k, int(v))
		}
		for k, v := range s.stats {
			c.Count("gen."+k, v)
		}
		if h < 2 {
			c.Sample(map[string]any{"history": h, "config": cfg.String(), "blocks": blocks, "readers": nReaders, "trace_tail": s.traceTail(8)})
		}
		s.close()
		verifhook.Reset()
	}
	c.Require("lookups.account", 200)
	c.Require("lookups.asset_present", 10)
	c.Require("lookups.app_present", 10)
	c.Require("lookups.kv_present", 10)
	c.Require("lookups.creator_present", 10)
	c.Require("lookups.served_db-round", 20)
	c.Require("hook.ledger.au.lookupWithoutRewards.beforeDB", 20)
	c.Require("schedule.flush", 3)
}

// TestVerifC08Sequential asks the same questions from ONE goroutine, a PRNG-chosen number of
// times (often zero) between every block and every schedule action. Concurrent readers query so
// densely that every cache entry is refreshed between any two ledger events; stale-cache defects that
// need "a historical lookup before a commit, NO lookup between that commit and the next block, then a
// later lookup" only show under sparse, irregular querying.
func TestVerifC08Sequential(t *testing.T) {
	c := kit.Start(t, "C08", "sequential")
	defer c.Finish()
	c.Rule("same histories, configurations, schedule actions and oracle as part lookups, box-heavy profile, but queried sparsely from one goroutine: a PRNG-chosen number (0..40, often 0) of random (round,key) lookups after each block and after each schedule action, biased toward kv keys and recently deleted keys; distinct = distinct (latest−dbRound, queried offset, age of last change) shapes")
	nh := c.N(6, 60)
	blocks := c.N(120, 300)
	for h := 0; h < nh && c.Violations() < 5; h++ {
		r := c.Rand(88, uint64(h))
		cfg := hlRandomConfig(r)
		cfg.Profile = "apps"
		verifhook.Reset()
		s := hlNewSim(t, c, r, cfg)
		sh := &c08Shared{s: s}
		ask := func() {
			n := 0
			switch r.Intn(4) {
			case 0:
				n = 0
			case 1:
				n = r.Range(1, 6)
			default:
				n = r.Range(5, 40)
			}
			for i := 0; i < n; i++ {
				c08Compare(sh, c, r, fmt.Sprintf("history %d sequential", h))
			}
		}
		for b := 0; b < blocks; b++ {
			s.step()
			sh.latest.Store(uint64(s.m.latest))
			ask()
			act := s.scheduleAction()
			c.Count("schedule."+act, 1)
			ask()
		}
		for k, v := range s.stats {
			c.Count("gen."+k, v)
		}
		if h < 2 {
			c.Sample(map[string]any{"history": h, "config": cfg.String(), "blocks": blocks, "trace_tail": s.traceTail(8)})
		}
		s.close()
	}
	c.Require("lookups.kv_present", 50)
	c.Require("lookups.kv_absent", 50)
	c.Require("schedule.flush", 5)
}
