package ledger

// C19: a transaction group takes effect entirely or not at all.
//
// Two real block evaluators are started on the same ledger tip. Evaluator A is offered good groups interleaved with
// failing groups of 1..16 members in which member i fails for reason k (the other members are good transactions with
// visible effects: payments, asset transfers, application calls that write global state, boxes, inner payments);
// its twin B is offered only the good groups.
//
// Oracles:
//  1. before/after: across every failing TransactionGroup call, the evaluator's pending state must be unchanged:
//     PaySetSize(), TestingTxnCounter() and a deep structural fingerprint of the evaluator (block under
//     construction, bytes used, and the pending roundCowState: account/resource deltas, tx ids, leases, creatables,
//     kv mods, storage deltas, counters, fees collected). The read caches of the ledger-facing base (roundCowBase)
//     legitimately fill during a failed group and are excluded, as are constant configuration fields.
//  2. twin: whenever A accepts a good group B must accept it too (a rejection means something of a failed group
//     stuck, e.g. a tx id or lease), and at the end of the block both must generate byte-identical blocks and equal
//     StateDeltas.
//  3. corrupted-state guard: if a tracer panics after the commit point, the evaluator must refuse all further use.
// Nothing stricter than the statement is demanded: a failing group may fail for any reason and at any member.

import (
	"bytes"
	"errors"
	"fmt"
	"strings"
	"testing"

	"github.com/algorand/avm-abi/apps"
	"github.com/algorand/go-algorand/crypto"
	"github.com/algorand/go-algorand/data/basics"
	"github.com/algorand/go-algorand/data/transactions"
	"github.com/algorand/go-algorand/data/transactions/logic"
	"github.com/algorand/go-algorand/ledger/eval"
	"github.com/algorand/go-algorand/ledger/ledgercore"
	"github.com/algorand/go-algorand/protocol"
	"verif.local/kit"
)

var c19FPOpts = kit.FPOptions{NilEqualsEmpty: true, Skip: map[string]bool{
	"BlockEvaluator.l":           true, // the ledger
	"BlockEvaluator.Tracer":      true,
	"BlockEvaluator.proto":       true, // constant
	"BlockEvaluator.prevHeader":  true, // constant
	"roundCowState.proto":        true, // constant
	"roundCowState.lookupParent": true, // read caches over the ledger (legitimately filled by failed groups)
}}

type c19Tracer struct {
	logic.NullEvalTracer
	where string // before-group, before-txn, after-txn, opcode, after-group
	at    int
	ops   int
}

func (p *c19Tracer) BeforeTxnGroup(ep *logic.EvalParams) {
	if p.where == "before-group" {
		panic("c19 tracer: BeforeTxnGroup")
	}
}
func (p *c19Tracer) BeforeTxn(ep *logic.EvalParams, gi int) {
	if p.where == "before-txn" && gi == p.at {
		panic("c19 tracer: BeforeTxn")
	}
}
func (p *c19Tracer) AfterTxn(ep *logic.EvalParams, gi int, ad transactions.ApplyData, err error) {
	if p.where == "after-txn" && gi == p.at {
		panic("c19 tracer: AfterTxn")
	}
}
func (p *c19Tracer) BeforeOpcode(cx *logic.EvalContext) {
	p.ops++
	if p.where == "opcode" && p.ops == 3 {
		panic("c19 tracer: BeforeOpcode")
	}
}
func (p *c19Tracer) AfterTxnGroup(ep *logic.EvalParams, deltas *ledgercore.StateDelta, err error) {
	if p.where == "after-group" && deltas != nil { // top-level group only
		panic("c19 tracer: AfterTxnGroup")
	}
}

type c19World struct {
	*cevUniverse
	c        *kit.Ctx
	r        *kit.Rand
	rnd      basics.Round
	boxCtr   int
	leaseCtr int
	included []transactions.SignedTxn // members of good groups accepted into the current block
	leases   []transactions.Transaction
	// model of the box application's boxes: contents = what the last SUCCESSFUL group wrote (a new box is 24 zero bytes)
	boxes    map[string]*c19Box
	boxNames []string        // creation order (determinism)
	boxInUse map[string]bool // a box is touched by at most one member of a group, so the model needs no intra-group order
	touched  []string        // existing boxes touched by the group being built
}

type c19Box struct {
	val       []byte
	committed bool // created in an earlier block (lives in the ledger) or in the block under construction
}

func (w *c19World) beginGroup() { w.boxInUse = map[string]bool{}; w.touched = nil }

// pickBox returns an existing box no other member of the group being built uses.
func (w *c19World) pickBox(wantCommitted, any bool) (string, bool) {
	for _, i := range w.r.Perm(len(w.boxNames)) {
		n := w.boxNames[i]
		if !w.boxInUse[n] && (any || w.boxes[n].committed == wantCommitted) {
			w.boxInUse[n] = true
			w.touched = append(w.touched, n)
			return n, true
		}
	}
	return "", false
}

func (w *c19World) boxCall(sender basics.Address, op, name string, val []byte) transactions.Transaction {
	t := w.appCall(sender, w.box, w.minFee(), w.rnd, op, name)
	if val != nil {
		t.ApplicationArgs = append(t.ApplicationArgs, val)
	}
	t.Boxes = []transactions.BoxRef{{Index: 0, Name: []byte(name)}}
	return t
}

// overwrite returns a call that rewrites all 24 bytes of an existing box in place (box_put of the same size,
// box_replace at offset 0, box_splice of the whole range); failing=true makes the program err right after the write.
func (w *c19World) overwrite(name string, failing bool) transactions.Transaction {
	op := []string{"put", "replace", "splice"}[w.r.Intn(3)]
	if failing {
		op += "fail"
	}
	w.c.Count("box_overwrites_generated:"+op, 1)
	return w.boxCall(w.accts[w.r.Intn(4)].addr, op, name, w.r.Bytes(24))
}

// applyModel records the box effects of an ACCEPTED group.
func (w *c19World) applyModel(g []transactions.SignedTxn) {
	for i := range g {
		t := &g[i].Txn
		if t.Type != protocol.ApplicationCallTx || t.ApplicationID != w.box || len(t.ApplicationArgs) < 2 {
			continue
		}
		name := string(t.ApplicationArgs[1])
		switch string(t.ApplicationArgs[0]) {
		case "create":
			w.boxes[name] = &c19Box{val: make([]byte, 24)}
			w.boxNames = append(w.boxNames, name)
		case "put", "replace", "splice":
			if b := w.boxes[name]; b != nil {
				b.val = append([]byte(nil), t.ApplicationArgs[2]...)
				w.c.Count("box_overwrites_committed", 1)
			}
		}
	}
}

func (w *c19World) boxKey(name string) string { return apps.MakeBoxKey(uint64(w.box), name) }

// ledgerBox reads a box from the LEDGER (latest round), copying the bytes (the slice aliases the tracker's buffer).
func (w *c19World) ledgerBox(name string) ([]byte, bool) {
	v, err := w.l.LookupKv(w.l.Latest(), w.boxKey(name))
	if err != nil {
		w.c.Harness("LookupKv: %v", err)
	}
	if v == nil {
		return nil, false
	}
	return append([]byte{}, v...), true
}

func (w *c19World) minFee() uint64 { return w.proto.MinTxnFee }

// goodMember returns a transaction that is valid on the current evaluator state and changes it visibly.
func (w *c19World) goodMember() transactions.Transaction {
	a := w.accts
	r := w.r
	switch r.Pick([]int{30, 20, 15, 12, 12, 11, 14, 6}) {
	case 6:
		// rewrite an existing box in place (one from the ledger or one created earlier in this block)
		if name, ok := w.pickBox(r.Bool(), false); ok {
			return w.overwrite(name, false)
		} else if name, ok := w.pickBox(false, true); ok {
			return w.overwrite(name, false)
		}
		return w.pay(a[r.Intn(4)].addr, a[4+r.Intn(4)].addr, uint64(r.Range(1, 100000)), w.minFee(), w.rnd, w.note())
	case 7:
		// read back a box and require the contents the model holds (what the last successful group wrote)
		if name, ok := w.pickBox(false, true); ok {
			return w.boxCall(a[r.Intn(4)].addr, "check", name, append([]byte(nil), w.boxes[name].val...))
		}
		return w.appCall(a[r.Intn(4)].addr, w.counter, w.minFee(), w.rnd)
	case 0:
		return w.pay(a[r.Intn(4)].addr, a[4+r.Intn(4)].addr, uint64(r.Range(1, 100000)), w.minFee(), w.rnd, w.note())
	case 1:
		return w.appCall(a[r.Intn(4)].addr, w.counter, w.minFee(), w.rnd)
	case 2:
		if r.Bool() {
			return w.axfer(a[1].addr, a[2].addr, uint64(r.Range(1, 5)), w.rnd)
		}
		return w.axfer(a[2].addr, a[1].addr, uint64(r.Range(1, 5)), w.rnd)
	case 3:
		w.boxCtr++
		name := fmt.Sprintf("b%d-%d", w.rnd, w.boxCtr)
		t := w.appCall(a[r.Intn(4)].addr, w.box, w.minFee(), w.rnd, "create", name)
		t.Boxes = []transactions.BoxRef{{Index: 0, Name: []byte(name)}}
		return t
	case 4:
		return w.appCall(a[r.Intn(4)].addr, w.inner, 2*w.minFee(), w.rnd)
	default:
		w.leaseCtr++
		t := w.pay(a[r.Intn(4)].addr, a[4+r.Intn(4)].addr, uint64(r.Range(1, 1000)), w.minFee(), w.rnd, w.note())
		t.Lease = crypto.Hash([]byte(fmt.Sprintf("lease-%d-%d", w.rnd, w.leaseCtr)))
		return t
	}
}

type c19Kind struct {
	name string
	// mk returns the failing member (nil: the failure is a property of the whole group and post is used) and an
	// optional post-processing of the finished group (after the group id was set).
	mk   func(w *c19World) *transactions.Transaction
	post func(w *c19World, g []transactions.SignedTxn, pos int) bool
	want string // substring expected in the error (statistics only)
}

func c19Kinds() []c19Kind {
	return []c19Kind{
		{name: "bad-authorizer-after-rekey", want: "should have been authorized by", mk: func(w *c19World) *transactions.Transaction {
			t := w.pay(w.rekeyed.addr, w.accts[4].addr, 5, w.minFee(), w.rnd, w.note())
			return &t
		}},
		{name: "wrong-authaddr", want: "should have been authorized by", mk: func(w *c19World) *transactions.Transaction {
			t := w.pay(w.accts[1].addr, w.accts[4].addr, 5, w.minFee(), w.rnd, w.note())
			return &t
		}, post: func(w *c19World, g []transactions.SignedTxn, pos int) bool {
			g[pos].AuthAddr = w.accts[6].addr
			return true
		}},
		{name: "overspend", want: "overspend", mk: func(w *c19World) *transactions.Transaction {
			t := w.pay(w.poor.addr, w.accts[4].addr, 10*w.proto.MinBalance, w.minFee(), w.rnd, w.note())
			return &t
		}},
		{name: "min-balance-dip", want: "below min", mk: func(w *c19World) *transactions.Transaction {
			t := w.pay(w.poor.addr, w.accts[4].addr, 4*w.minFee()+1, w.minFee(), w.rnd, w.note())
			return &t
		}},
		{name: "asset-not-opted-in", want: "", mk: func(w *c19World) *transactions.Transaction {
			t := w.axfer(w.accts[1].addr, w.accts[4].addr, 1, w.rnd)
			return &t
		}},
		{name: "asset-frozen", want: "frozen", mk: func(w *c19World) *transactions.Transaction {
			t := w.axfer(w.accts[3].addr, w.accts[1].addr, 1, w.rnd)
			return &t
		}},
		{name: "program-rejects", want: "rejected by ApprovalProgram", mk: func(w *c19World) *transactions.Transaction {
			t := w.appCall(w.accts[1].addr, w.counter, w.minFee(), w.rnd, "reject")
			return &t
		}},
		{name: "err-opcode", want: "err opcode", mk: func(w *c19World) *transactions.Transaction {
			t := w.appCall(w.accts[1].addr, w.counter, w.minFee(), w.rnd, "err")
			return &t
		}},
		{name: "budget-exhausted", want: "budget", mk: func(w *c19World) *transactions.Transaction {
			t := w.appCall(w.accts[1].addr, w.counter, w.minFee(), w.rnd, "loop")
			return &t
		}},
		{name: "inner-failure-deep", want: "err opcode", mk: func(w *c19World) *transactions.Transaction {
			// inner payment succeeds, inner application call makes its own inner payment and then fails
			t := w.appCall(w.accts[2].addr, w.inner, 6*w.minFee(), w.rnd, "chain", "fail")
			t.ForeignApps = []basics.AppIndex{w.deep}
			return &t
		}},
		{name: "inner-fee-shortfall", want: "fee", mk: func(w *c19World) *transactions.Transaction {
			// the outer fee does not cover the inner transactions
			t := w.appCall(w.accts[2].addr, w.inner, w.minFee(), w.rnd, "chain0", "ok")
			t.ForeignApps = []basics.AppIndex{w.deep}
			return &t
		}},
		{name: "box-without-reference", want: "invalid Box reference", mk: func(w *c19World) *transactions.Transaction {
			t := w.appCall(w.accts[1].addr, w.box, w.minFee(), w.rnd, "create", "noref")
			return &t
		}},
		{name: "box-over-budget", want: "budget", mk: func(w *c19World) *transactions.Transaction {
			// one box reference pays for BytesPerBoxReference bytes; the application creates a larger box
			w.boxCtr++
			name := fmt.Sprintf("big%d-%d", w.rnd, w.boxCtr)
			t := w.appCall(w.accts[1].addr, w.box, w.minFee(), w.rnd, "big", name)
			t.Boxes = []transactions.BoxRef{{Index: 0, Name: []byte(name)}}
			return &t
		}},
		{name: "box-overwrite-then-err", want: "err opcode", mk: func(w *c19World) *transactions.Transaction {
			// the program rewrites an existing box in place (box_put of the same size / box_replace / box_splice) and then fails
			name, ok := w.pickBox(w.r.Bool(), false)
			if !ok {
				if name, ok = w.pickBox(false, true); !ok {
					return nil
				}
			}
			t := w.overwrite(name, true)
			return &t
		}},
		{name: "box-overwrite-then-later-member-fails", want: ""},
		{name: "lease-clash", want: "lease", mk: func(w *c19World) *transactions.Transaction {
			if len(w.leases) == 0 {
				return nil
			}
			prev := w.leases[w.r.Intn(len(w.leases))]
			t := w.pay(prev.Sender, w.accts[5].addr, 3, w.minFee(), w.rnd, w.note())
			t.Lease = prev.Lease
			return &t
		}},
		{name: "duplicate-of-earlier-txn", want: "already in ledger", mk: func(w *c19World) *transactions.Transaction {
			for _, i := range w.r.Perm(len(w.included)) {
				if w.included[i].Txn.Group.IsZero() { // only a singleton can be replayed inside another group unchanged... as a member its id changes
					t := w.included[i].Txn
					return &t
				}
			}
			return nil
		}},
		{name: "malformed-member", want: "malformed", mk: func(w *c19World) *transactions.Transaction {
			t := w.pay(w.accts[1].addr, w.accts[4].addr, 5, w.minFee(), w.rnd, w.note())
			t.CloseRemainderTo = t.Sender
			return &t
		}},
		{name: "expired-member", want: "", mk: func(w *c19World) *transactions.Transaction {
			t := w.pay(w.accts[1].addr, w.accts[4].addr, 5, w.minFee(), w.rnd, w.note())
			t.FirstValid, t.LastValid = 0, w.rnd-1
			return &t
		}},
		{name: "group-fee-shortfall", want: "fees is less than", post: func(w *c19World, g []transactions.SignedTxn, pos int) bool {
			return true // fees are arranged before the group id is computed, see c19FailingGroup
		}},
		{name: "group-id-zero-on-member", want: "zero Group", post: func(w *c19World, g []transactions.SignedTxn, pos int) bool {
			if len(g) < 2 {
				return false
			}
			g[pos].Txn.Group = crypto.Digest{}
			return true
		}},
		{name: "group-id-inconsistent", want: "inconsistent group", post: func(w *c19World, g []transactions.SignedTxn, pos int) bool {
			if len(g) < 2 || pos == 0 {
				return false
			}
			g[pos].Txn.Group[3] ^= 4
			return true
		}},
		{name: "group-id-incomplete", want: "incomplete group", post: func(w *c19World, g []transactions.SignedTxn, pos int) bool {
			d := crypto.Hash([]byte("c19 wrong group"))
			for i := range g {
				g[i].Txn.Group = d
			}
			return true
		}},
		{name: "group-id-absent-everywhere", want: "zero Group", post: func(w *c19World, g []transactions.SignedTxn, pos int) bool {
			if len(g) < 2 {
				return false
			}
			for i := range g {
				g[i].Txn.Group = crypto.Digest{}
			}
			return true
		}},
		{name: "tracer-panic-before-commit", want: "panic"},
	}
}

// c19FailingGroup builds a group of n members failing (at the latest) at position pos for the given reason.
func (w *c19World) failingGroup(k c19Kind, n, pos int) []transactions.SignedTxn {
	w.beginGroup()
	txns := make([]transactions.Transaction, n)
	if k.name == "duplicate-of-earlier-txn" && n > 1 && pos == 0 {
		pos = 1
	}
	for i := range txns {
		switch {
		case k.name == "box-overwrite-then-later-member-fails" && i == pos-1:
			// a successful in-place rewrite of an existing box ...
			name, ok := w.pickBox(w.r.Bool(), false)
			if !ok {
				if name, ok = w.pickBox(false, true); !ok {
					return nil
				}
			}
			txns[i] = w.overwrite(name, false)
		case k.name == "box-overwrite-then-later-member-fails" && i == pos:
			// ... followed by a member that fails
			if w.r.Bool() {
				txns[i] = w.pay(w.poor.addr, w.accts[4].addr, 10*w.proto.MinBalance, w.minFee(), w.rnd, w.note())
			} else {
				txns[i] = w.appCall(w.accts[1].addr, w.counter, w.minFee(), w.rnd, "err")
			}
		case i == pos && k.name == "duplicate-of-earlier-txn" && n > 1:
			// inside a group the id of a member depends on the group id, so a replayed earlier transaction would be a
			// different transaction; the duplicate is the member before it
			txns[i] = txns[i-1]
		case i == pos && k.mk != nil:
			t := k.mk(w)
			if t == nil {
				return nil
			}
			txns[i] = *t
		default:
			txns[i] = w.goodMember()
		}
	}
	if k.name == "group-fee-shortfall" {
		// pooled fees one microalgo short of the requirement: everything on one member, zero on the others
		var usage uint64
		for i := range txns {
			usage += uint64(transactions.SignedTxn{Txn: txns[i]}.FeeFactor(w.proto))
			txns[i].Fee.Raw = 0
		}
		need := (usage*w.minFee() + 999_999) / 1_000_000
		// inner transactions of application members need fees as well; make sure the shortfall is at the top level
		txns[pos].Fee.Raw = need - 1
	}
	if n > 1 {
		cevSetGroup(txns)
	}
	g := cevUnsigned(txns)
	if k.post != nil && !k.post(w, g, pos) {
		return nil
	}
	return g
}

func (w *c19World) goodGroup(n int) []transactions.SignedTxn {
	w.beginGroup()
	txns := make([]transactions.Transaction, n)
	for i := range txns {
		txns[i] = w.goodMember()
	}
	if n > 1 {
		cevSetGroup(txns)
	}
	return cevUnsigned(txns)
}

func c19Diff(a, b string) string {
	i := 0
	for i < len(a) && i < len(b) && a[i] == b[i] {
		i++
	}
	lo := max(0, i-300)
	return fmt.Sprintf("first difference at offset %d:\n before: …%s\n after:  …%s", i, a[lo:min(len(a), i+300)], b[lo:min(len(b), i+300)])
}

func c19Trunc(s string) string {
	if len(s) > 220 {
		return s[:220] + "…"
	}
	return s
}

func c19Pos(n, pos int) string {
	switch {
	case n == 1:
		return "only"
	case pos == 0:
		return "first"
	case pos == n-1:
		return "last"
	}
	return "middle"
}

func TestVerifC19Atomic(t *testing.T) {
	c := kit.Start(t, "C19", "atomic")
	defer c.Finish()
	c.Rule("per case a ledger (Future / v41 / v40) with funded accounts, an asset (holders, a frozen holder, a non-holder), a rekeyed account, an account at its minimum balance and four applications (global counter that can reject / err / loop, boxes, inner payment + inner application call chain); per block evaluator A receives ~40 groups: good groups of 1..16 members and, between them, failing groups of 1..16 members where the member at the first / a middle / the last position fails for one of 25 reasons (authorizer after rekey, wrong AuthAddr, overspend, min-balance dip, asset not opted in, frozen, program rejects, err, budget, inner failure deep in a call chain after inner payments succeeded, inner fee shortfall, box without reference, box larger than the reference budget, in-place rewrite (box_put of the same size / box_replace / box_splice) of a box from the ledger or from earlier in the block followed by err in the same call or by a failing later member, lease clash, duplicate, malformed, expired, pooled fee one microalgo short, zero / inconsistent / incomplete / absent group id, tracer panics before the commit point); twin B receives only the good groups; distinct = (protocol, reason, position) of failing groups that really failed")
	c.Assume("the fingerprint covers the BlockEvaluator and its pending roundCowState reachable by reflection, except the read caches of roundCowBase, the ledger handle, tracer and constant protocol parameters")
	cvs := []protocol.ConsensusVersion{protocol.ConsensusFuture, protocol.ConsensusV41, protocol.ConsensusV40}
	ncases := c.N(8, 220)
	for ci := 0; ci < ncases && c.Violations() < 20; ci++ {
		c19Case(c, t, ci, cvs[ci%3])
	}
	c.Require("failing_groups", int64(c.N(500, 12000)))
	c.Require("failing_groups_with_applied_prefix", int64(c.N(250, 6000)))
	c.Require("good_groups_accepted", int64(c.N(300, 8000)))
	c.Require("twin_blocks_compared", int64(c.N(20, 600)))
	c.Require("corrupted_state_guard_checked", int64(c.N(4, 100)))
	c.Require("replayed_members_after_failed_group", int64(c.N(10, 200)))
	c.Require("failing_group_touches_ledger_box", int64(c.N(40, 1000)))
	c.Require("failing_group_touches_same_block_box", int64(c.N(40, 1000)))
	c.Require("ledger_kv_checked_across_failed_group", int64(c.N(40, 1000)))
	c.Require("box_overwrites_committed", int64(c.N(100, 2500)))
	c.Require("kv_delta_entries_checked", int64(c.N(100, 2500)))
	for _, op := range []string{"put", "replace", "splice"} {
		c.Require("box_overwrites_generated:"+op, int64(c.N(50, 1200)))
		c.Require("box_overwrites_generated:"+op+"fail", int64(c.N(4, 100)))
	}
	for _, k := range c19Kinds() {
		c.Require("failed:"+k.name, 3)
	}
}

func c19Case(c *kit.Ctx, t testing.TB, ci int, cv protocol.ConsensusVersion) {
	r := c.Rand(19, 1, uint64(ci))
	u := cevNewUniverse(c, t, r, cv, ci%4 == 3)
	defer u.close()
	kinds := c19Kinds()
	w := &c19World{cevUniverse: u, c: c, r: r, boxes: map[string]*c19Box{}}
	nblocks := r.Range(3, 5)
	kindCursor := ci * 5
	for bi := 0; bi < nblocks && c.Violations() < 20; bi++ {
		evA := u.startEval(true, true, nil)
		evB := u.startEval(true, true, nil)
		w.rnd = evA.Round()
		w.included = nil
		caseID := fmt.Sprintf("seed=%d case=%d block=%d proto=%s", c.Seed, ci, bi, cv)
		var history []string
		fpPrev := ""
		descPrev := ""
		fp := func() (string, string) {
			d := kit.Describe(evA, c19FPOpts)
			return kit.Fingerprint(d, kit.FPOptions{}), d
		}
		offerGood := func(g []transactions.SignedTxn, what string) bool {
			var errA, errB error
			if c.Guard("TransactionGroup(good)", map[string]any{"case": caseID}, func() { errA = evA.TransactionGroup(cevWrap(g)...) }) {
				return false
			}
			history = append(history, fmt.Sprintf("good(%s,n=%d)->%v", what, len(g), errA))
			if cevInfra(errA) {
				c.Harness("test database error: %v", errA)
			}
			if errA != nil {
				// the twin must agree: try it there too
				errB = evB.TransactionGroup(cevWrap(g)...)
				if errB == nil {
					c.Violation("twin-diverged", map[string]any{"case": caseID, "what": "evaluator A (which saw failing groups) rejects a group its twin accepts", "error_A": errA.Error(),
						"group": fmt.Sprintf("%x", protocol.EncodeReflect(g)), "history": history})
					return false
				}
				c.Count("good_groups_rejected_by_both", 1)
				fpPrev = ""
				return true
			}
			errB = evB.TransactionGroup(cevWrap(g)...)
			if cevInfra(errB) {
				c.Harness("test database error: %v", errB)
			}
			if errB != nil {
				c.Violation("twin-diverged", map[string]any{"case": caseID, "what": "the twin rejects a group that evaluator A accepted", "error_B": errB.Error(),
					"group": fmt.Sprintf("%x", protocol.EncodeReflect(g)), "history": history})
				return false
			}
			c.Count("good_groups_accepted", 1)
			w.applyModel(g)
			for _, s := range g {
				w.included = append(w.included, s)
				if s.Txn.Lease != ([32]byte{}) {
					w.leases = append(w.leases, s.Txn)
				}
			}
			fpPrev = ""
			return true
		}

		nsteps := r.Range(30, 50)
		for step := 0; step < nsteps && c.Violations() < 20; step++ {
			if r.Chance(2, 5) {
				n := r.Range(1, 16)
				if r.Chance(1, 3) {
					n = 1
				}
				if !offerGood(w.goodGroup(n), "fresh") {
					return
				}
				continue
			}
			kindCursor++
			k := kinds[kindCursor%len(kinds)]
			n := r.Range(1, 16)
			pos := []int{0, n / 2, n - 1}[r.Intn(3)]
			if k.name == "box-overwrite-then-later-member-fails" {
				n = max(n, 2)
				if pos == 0 {
					pos = 1 + r.Intn(n-1)
				}
			}
			var g []transactions.SignedTxn
			var tracer *c19Tracer
			if k.name == "tracer-panic-before-commit" {
				g = w.goodGroup(n)
				tracer = &c19Tracer{where: []string{"before-group", "before-txn", "after-txn", "opcode"}[r.Intn(4)], at: pos}
			} else {
				g = w.failingGroup(k, n, pos)
			}
			if g == nil {
				continue
			}
			if fpPrev == "" {
				fpPrev, descPrev = fp()
			}
			// ledger contents of the committed boxes this group touches (the ledger must not change without a block)
			touched := append([]string(nil), w.touched...)
			kvBefore := map[string][]byte{}
			for _, name := range touched {
				if w.boxes[name].committed {
					if v, ok := w.ledgerBox(name); ok {
						kvBefore[name] = v
					}
				}
			}
			sizeBefore, ctrBefore := evA.PaySetSize(), evA.TestingTxnCounter()
			var err, terr error
			testFirst := r.Chance(1, 4)
			if c.Guard("TransactionGroup(failing)", map[string]any{"case": caseID, "kind": k.name}, func() {
				if testFirst {
					terr = evA.TestTransactionGroup(g)
				}
				if tracer != nil {
					evA.Tracer = tracer
				}
				err = evA.TransactionGroup(cevWrap(g)...)
				evA.Tracer = nil
			}) {
				return
			}
			_ = terr
			if cevInfra(err) {
				c.Harness("test database error: %v", err)
			}
			history = append(history, c19Trunc(fmt.Sprintf("failing(%s,n=%d,pos=%d)->%v", k.name, n, pos, err)))
			if len(history) > 60 {
				history = history[len(history)-60:]
			}
			if err == nil {
				// the generator did not manage to make it fail (e.g. opcode tracer on a group without programs): then it is a
				// good group and the twin gets it too
				if tracer == nil {
					c.Count("intended_failure_did_not_fail:"+k.name, 1)
				}
				errB := evB.TransactionGroup(cevWrap(g)...)
				if errB != nil {
					c.Violation("twin-diverged", map[string]any{"case": caseID, "what": "the twin rejects a group that evaluator A accepted", "error_B": errB.Error(), "history": history})
					return
				}
				w.applyModel(g)
				for _, s := range g {
					w.included = append(w.included, s)
				}
				fpPrev = ""
				continue
			}
			c.Eval(1)
			fpAfter, descAfter := fp()
			if evA.PaySetSize() != sizeBefore || evA.TestingTxnCounter() != ctrBefore || fpAfter != fpPrev {
				c.Violation("state-changed-by-failed-group", map[string]any{"case": caseID, "step": step, "reason": k.name, "size": n, "failing_position": pos, "error": err.Error(),
					"payset_size_before_after": []int{sizeBefore, evA.PaySetSize()}, "txn_counter_before_after": []uint64{ctrBefore, evA.TestingTxnCounter()},
					"fingerprint_diff": c19Diff(descPrev, descAfter), "group": fmt.Sprintf("%x", protocol.EncodeReflect(g)), "history": history})
				return
			}
			for _, name := range touched {
				before, had := kvBefore[name]
				if !had {
					continue
				}
				after, _ := w.ledgerBox(name)
				c.Eval(1)
				if !bytes.Equal(before, after) {
					c.Violation("ledger-kv-changed-by-failed-group", map[string]any{"case": caseID, "step": step, "reason": k.name, "size": n, "failing_position": pos, "error": c19Trunc(err.Error()),
						"box": name, "ledger_before": fmt.Sprintf("%x", before), "ledger_after_failed_group": fmt.Sprintf("%x", after), "what": "Ledger.LookupKv(latest) changed although no block was added",
						"group": fmt.Sprintf("%x", protocol.EncodeReflect(g)), "history": history})
					return
				}
				c.Count("ledger_kv_checked_across_failed_group", 1)
			}
			for _, name := range touched {
				if w.boxes[name].committed {
					c.Count("failing_group_touches_ledger_box", 1)
				} else {
					c.Count("failing_group_touches_same_block_box", 1)
				}
			}
			var ep ledgercore.EvalPanicError
			if errors.As(err, &ep) && tracer == nil {
				c.Observation("C19: a failing group made the evaluator panic (recovered): %s %s: %v", caseID, k.name, err)
			}
			c.Count("failing_groups", 1)
			c.Count("failed:"+k.name, 1)
			if (pos > 0 || k.mk == nil) && k.name != "malformed-member" { // well-formedness of all members is checked before the first is applied
				c.Count("failing_groups_with_applied_prefix", 1)
			}
			if k.want != "" && strings.Contains(err.Error(), k.want) {
				c.Count("failed_for_the_intended_reason", 1)
			} else if k.want != "" {
				c.Count("failed_for_another_reason", 1)
			}
			c.Distinct(fmt.Sprintf("%s|%s|%s", cv, k.name, c19Pos(n, pos)))
			// behavioural follow-up: members of the failed group are offered again on their own; if a tx id or lease of
			// the failed group stuck in A, A rejects what its twin accepts
			if k.name == "group-id-absent-everywhere" || (tracer != nil && n == 1) {
				for i := range g {
					if !offerGood(g[i:i+1], "replay-of-failed-member") {
						return
					}
					c.Count("replayed_members_after_failed_group", 1)
				}
			}
		}
		if c.Violations() > 0 {
			return
		}
		// corrupted-state guard: a panic after the commit point must make the evaluator refuse further use
		if bi == nblocks-1 {
			g := w.goodGroup(r.Range(1, 4))
			evA.Tracer = &c19Tracer{where: "after-group"}
			err := evA.TransactionGroup(cevWrap(g)...)
			evA.Tracer = nil
			if err == nil {
				c.Observation("C19: AfterTxnGroup panic was not reported as an error: %s", caseID)
			} else {
				e2 := evA.TransactionGroup(cevWrap(w.goodGroup(1))...)
				e3 := evA.TestTransactionGroup(w.goodGroup(1))
				_, e4 := evA.GenerateBlock(nil)
				c.Eval(1)
				if e2 == nil || e3 == nil || e4 == nil {
					c.Violation("corrupted-evaluator-keeps-working", map[string]any{"case": caseID, "first_error": err.Error(),
						"TransactionGroup": fmt.Sprint(e2), "TestTransactionGroup": fmt.Sprint(e3), "GenerateBlock": fmt.Sprint(e4)})
					return
				}
				c.Count("corrupted_state_guard_checked", 1)
			}
			return
		}
		// twin comparison of the final block and delta
		blkA, deltaA, errA := u.finish(evA, basics.Address{}, true)
		blkB, deltaB, errB := u.finish(evB, basics.Address{}, true)
		if errA != nil || errB != nil {
			if (errA == nil) != (errB == nil) {
				c.Violation("twin-diverged", map[string]any{"case": caseID, "what": "GenerateBlock", "error_A": fmt.Sprint(errA), "error_B": fmt.Sprint(errB), "history": history})
				return
			}
			c.Harness("C19: GenerateBlock failed on both evaluators: %v", errA)
		}
		c.Eval(1)
		encA, encB := protocol.Encode(&blkA), protocol.Encode(&blkB)
		deltaA.Hdr, deltaB.Hdr = nil, nil
		dA := kit.Describe(deltaA, kit.FPOptions{NilEqualsEmpty: true})
		dB := kit.Describe(deltaB, kit.FPOptions{NilEqualsEmpty: true})
		if !bytes.Equal(encA, encB) || dA != dB {
			c.Violation("twin-diverged", map[string]any{"case": caseID, "what": "final block / StateDelta of the evaluator that saw failing groups differs from its twin's",
				"blocks_equal": bytes.Equal(encA, encB), "delta_diff": c19Diff(dB, dA), "block_A": fmt.Sprintf("%x", encA), "block_B": fmt.Sprintf("%x", encB), "history": history})
			return
		}
		c.Count("twin_blocks_compared", 1)
		// kv contents: what the block writes for a known box must be what the last successful group wrote
		for _, name := range w.boxNames {
			if mod, ok := deltaA.KvMods[w.boxKey(name)]; ok {
				c.Eval(1)
				if !bytes.Equal(mod.Data, w.boxes[name].val) {
					c.Violation("kv-delta-differs-from-successful-writes", map[string]any{"case": caseID, "box": name, "delta_data": fmt.Sprintf("%x", mod.Data),
						"last_successful_write": fmt.Sprintf("%x", w.boxes[name].val), "history": history})
					return
				}
				c.Count("kv_delta_entries_checked", 1)
			}
		}
		vb, err := u.validate(blkA, false)
		if err != nil {
			c.Harness("C19: block of evaluator A rejected: %v", err)
		}
		u.add(vb)
		for _, name := range w.boxNames {
			got, ok := w.ledgerBox(name)
			c.Eval(1)
			if !ok || !bytes.Equal(got, w.boxes[name].val) {
				c.Violation("ledger-kv-differs-from-successful-writes", map[string]any{"case": caseID, "box": name, "ledger": fmt.Sprintf("%x", got), "exists": ok,
					"last_successful_write": fmt.Sprintf("%x", w.boxes[name].val), "history": history})
				return
			}
			w.boxes[name].committed = true
		}
		c.Count("ledger_kv_matches_model_after_block", 1)
		if ci == 0 && bi == 0 {
			c.Sample(map[string]any{"protocol": string(cv), "block_txns": len(blkA.Payset), "history_tail": history[max(0, len(history)-6):]})
		}
	}
}

var _ = eval.ComputeLoad
