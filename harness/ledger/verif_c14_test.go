package ledger

// C14: catchpoint labels depend only on the ledger history.
// Oracle (differential): one PRNG history is generated on a real ledger and replayed, block by
// block, on k further real ledgers that differ in everything a node operator or the scheduler
// controls: when tracker commits happen (after every block / in large batches / only when the
// background syncer decides / PRNG mix), reload and close+reopen between the first and the second
// catchpoint stage, MaxAcctLookback, archival or not, catchpoint files stored or labels only, and
// the merkle-trie page/cache configuration. Every label a ledger reports (GetLastCatchpointLabel
// after each block and schedule action, plus the label inside every catchpoint file it serves) is
// recorded per catchpoint round. A violation is two different labels for one round. A label that a
// ledger never produces is NOT a violation: catchpoints are legitimately skipped when a commit
// spans several first-stage rounds, when the first-stage record is lost across a restart, or when
// the commit queue was busy; such gaps are only counted.

import (
	"fmt"
	"sort"
	"testing"

	"github.com/algorand/go-algorand/config"
	"github.com/algorand/go-algorand/crypto/merkletrie"
	"github.com/algorand/go-algorand/data/basics"
	"github.com/algorand/go-algorand/data/bookkeeping"
	"github.com/algorand/go-algorand/data/txntest"
	"github.com/algorand/go-algorand/ledger/eval"
	"github.com/algorand/go-algorand/ledger/ledgercore"
	"github.com/algorand/go-algorand/ledger/store/trackerdb"
	"github.com/algorand/go-algorand/protocol"
	"verif.local/kit"
)

type c14Obs struct {
	Name    string
	Desc    string
	labels  map[basics.Round]string
	src     map[basics.Round]string
	commits []basics.Round // distinct tracker DB rounds seen, in order (the commit boundaries)
	stages  map[basics.Round]trackerdb.CatchpointFirstStageInfo
}

func c14NewObs(name, desc string) *c14Obs {
	return &c14Obs{Name: name, Desc: desc, labels: map[basics.Round]string{}, src: map[basics.Round]string{}, stages: map[basics.Round]trackerdb.CatchpointFirstStageInfo{}}
}

func (o *c14Obs) record(c *kit.Ctx, s *hlSim, lbl, src string) {
	rnd, _, err := ledgercore.ParseCatchpointLabel(lbl)
	if err != nil {
		c.Violation("unparsable-label", map[string]any{"ledger": o.Name, "label": lbl, "source": src, "trace": s.traceTail(20)})
		return
	}
	if prev, ok := o.labels[rnd]; ok {
		if prev != lbl {
			// the same node reports two labels for one round (e.g. before and after a restart)
			c.Violation("label-differs", map[string]any{"round": rnd, "ledger": o.Name, "config": o.Desc, "first": prev, "first_source": o.src[rnd], "second": lbl, "second_source": src, "trace": s.traceTail(30)})
		}
		return
	}
	o.labels[rnd] = lbl
	o.src[rnd] = src
}

// sample records what the ledger reports right now (no waiting: whatever is visible).
func (o *c14Obs) sample(c *kit.Ctx, s *hlSim) {
	if lbl := s.l.GetLastCatchpointLabel(); lbl != "" {
		o.record(c, s, lbl, "GetLastCatchpointLabel")
	}
	db := s.l.LatestTrackerCommitted()
	if n := len(o.commits); n == 0 || o.commits[n-1] != db {
		o.commits = append(o.commits, db)
	}
	if f, ok := cpPendingFirstStage(s); ok {
		if _, seen := o.stages[f]; !seen {
			if info, ok := cpFirstStage(s.l, f); ok {
				o.stages[f] = info
			}
		}
	}
}

// files records the label stored inside every catchpoint file the ledger serves.
func (o *c14Obs) files(c *kit.Ctx, s *hlSim) {
	iv := basics.Round(s.cfg.CatchpointInterval)
	for rnd := iv; rnd <= s.l.Latest(); rnd += iv {
		entries, err := cpReadCatchpointFile(s.l, rnd)
		if err != nil {
			continue
		}
		h, ok := cpHeader(entries)
		if !ok {
			c.Violation("catchpoint-file-unreadable", map[string]any{"round": rnd, "ledger": o.Name, "trace": s.traceTail(20)})
			continue
		}
		c.Count("c14.files_read", 1)
		if h.BlocksRound != rnd {
			c.Violation("catchpoint-file-wrong-round", map[string]any{"asked": rnd, "header_round": h.BlocksRound, "ledger": o.Name})
			continue
		}
		o.record(c, s, h.Catchpoint, "file header")
	}
}

type c14Variant struct {
	policy   string
	lookback uint64
	archival bool
	tracking int64
	syncMode int // sqlite synchronous mode of the node (0 off, 1 normal, 2 full)
	noLRU    bool
	trie     merkletrie.MemoryConfig
}

func (v c14Variant) String() string {
	return fmt.Sprintf("policy=%s MaxAcctLookback=%d archival=%v tracking=%d sqlite-sync=%d DisableLedgerLRUCache=%v trie=%+v", v.policy, v.lookback, v.archival, v.tracking, v.syncMode, v.noLRU, v.trie)
}

func c14Trie(r *kit.Rand, def merkletrie.MemoryConfig) merkletrie.MemoryConfig {
	if r.Chance(1, 4) {
		return def
	}
	return merkletrie.MemoryConfig{
		NodesCountPerPage:         []int64{2, 3, 8, 32, 116}[r.Intn(5)],
		CachedNodesCount:          []int{1, 2, 16, 200, 9000}[r.Intn(5)],
		PageFillFactor:            []float32{0.5, 0.95, 1.0}[r.Intn(3)],
		MaxChildrenPagesThreshold: []uint64{1, 2, 32, 64}[r.Intn(4)],
	}
}

// c14Script adds, to every block of the generated history, holdings that change over consecutive
// rounds and are then left alone: in round r a non-creator account opts in to a dedicated asset
// (zero holding), in round r+1 that same holding receives units or is frozen, and the script never
// touches it again. Whether the two rounds reach the tracker DB in one commit or in two then depends
// only on the node's flush schedule (the "every" replay has a boundary after every round, the
// "syncer"/"batch" replays commit whole catchpoint intervals), which must not show in the labels.
type c14Script struct {
	assets  []basics.AssetIndex
	creator map[basics.AssetIndex]basics.Address
	used    map[hlRes]bool
	pending []hlRes // opted in by the previous block, to be changed by this one
}

func (sc *c14Script) run(a *hlSim, ev *eval.BlockEvaluator) {
	c, m, u := a.c, a.m, a.u
	if sc.used == nil {
		sc.used = map[hlRes]bool{}
		sc.creator = map[basics.AssetIndex]basics.Address{}
	}
	// learn the dedicated assets created by earlier blocks
	if len(sc.assets) < 4 {
		for idx, h := range m.creators {
			if cr, ok := h.at(m.latest); ok && cr.ctype == basics.AssetCreatable {
				if p, ok := m.assetParams[hlRes{cr.addr, idx}].at(m.latest); ok && p.UnitName == "c14" {
					if _, known := sc.creator[basics.AssetIndex(idx)]; !known {
						sc.creator[basics.AssetIndex(idx)] = cr.addr
						sc.assets = append(sc.assets, basics.AssetIndex(idx))
					}
				}
			}
		}
		sort.Slice(sc.assets, func(i, j int) bool { return sc.assets[i] < sc.assets[j] })
		if len(sc.assets) < 4 && ev.Round() <= 6 {
			cr := u.keyed[4+int(ev.Round())%4]
			cpOfferAuth(a, ev, "scripted-acreate", txntest.Txn{Type: protocol.AssetConfigTx, Sender: cr,
				AssetParams: basics.AssetParams{Total: 1 << 40, UnitName: "c14", AssetName: fmt.Sprintf("c14-%d", ev.Round()), Manager: cr, Freeze: cr}})
		}
	}
	// second round of the holdings opted in by the previous block
	for _, k := range sc.pending {
		asset := basics.AssetIndex(k.idx)
		cr := sc.creator[asset]
		if h, ok := m.assetHold[k].at(m.latest); !ok || h.Amount != 0 || h.Frozen {
			continue
		}
		var err error
		if a.r.Chance(1, 3) {
			err = cpOfferAuth(a, ev, "scripted-freeze", txntest.Txn{Type: protocol.AssetFreezeTx, Sender: cr, FreezeAsset: asset, FreezeAccount: k.addr, AssetFrozen: true})
		} else {
			err = cpOfferAuth(a, ev, "scripted-receive", txntest.Txn{Type: protocol.AssetTransferTx, Sender: cr, XferAsset: asset, AssetReceiver: k.addr, AssetAmount: uint64(a.r.Range(1, 1000))})
		}
		if err == nil {
			c.Count("c14.optin_then_changed_in_next_round", 1)
		}
	}
	sc.pending = sc.pending[:0]
	// first round: a fresh (account, asset) pair opts in with a zero holding
	if len(sc.assets) > 0 {
		for tries := 0; tries < 12; tries++ {
			asset := sc.assets[a.r.Intn(len(sc.assets))]
			holder := u.keyed[a.r.Intn(len(u.keyed))]
			k := hlRes{holder, basics.CreatableIndex(asset)}
			if sc.used[k] || holder == sc.creator[asset] || m.acct(m.latest, holder).MicroAlgos.Raw < 10_000_000 {
				continue
			}
			if _, has := m.assetHold[k].at(m.latest); has {
				continue
			}
			sc.used[k] = true
			if cpOfferAuth(a, ev, "scripted-optin", txntest.Txn{Type: protocol.AssetTransferTx, Sender: holder, XferAsset: asset, AssetReceiver: holder}) == nil {
				sc.pending = append(sc.pending, k)
			}
			break
		}
	}
}

func TestVerifC14(t *testing.T) {
	c := kit.Start(t, "C14", "labels")
	defer c.Finish()
	c.Rule("one PRNG history (payments, keyreg, assets, apps with boxes/global/local state, closes, rewards, plus in every block a scripted non-creator asset opt-in with zero holding whose holding receives units or is frozen in the next round and is then left alone; reduced-lookback protocols with CatchpointLookback = MaxBalLookback ∈ {4, 8}, catchpoint interval ∈ {4, 8}, ≥ 5 catchpoint intervals) generated on a real ledger under a PRNG schedule and replayed with AddBlock on 5 more real ledgers: commit after every block / bursts of 6–20 blocks without waiting then one commit / background syncer only / reload or close+reopen while a first-stage record waits for its second stage / PRNG mix; MaxAcctLookback ∈ {1,2,4,8,16}, archival or not, labels only or files stored, merkle-trie config from 2 nodes per page with 1 cached node to the default; labels sampled from GetLastCatchpointLabel after each block/action and from the header of every served catchpoint file; distinct = distinct sequences of tracker commit boundaries")
	c.Assume("a catchpoint a ledger never produces (skipped after a restart, a multi-interval commit or a busy commit queue) is not judged; the background syncer's timing is not controlled by the seed (it only changes which labels get produced, never what they must be)")
	hlRegisterProtos()
	defTrie := trackerdb.TrieMemoryConfig
	defer func() { trackerdb.TrieMemoryConfig = defTrie }()
	nh := c.N(3, 12)
	blocks := c.N(56, 100)
	if c.Lane == "race" && !c.Quick() {
		nh = 6 // the race detector slows the ledger about fourfold; keep the lane inside the thorough budget
	}
	for h := 0; h < nh && c.Violations() < 5; h++ {
		r := c.Rand(14, uint64(h))
		cfg := hlConfig{
			Proto:              []protocol.ConsensusVersion{hlProtoShort, hlProtoMid, hlProtoCurrentMid}[(h+r.Intn(3))%3],
			MaxAcctLookback:    []uint64{1, 2, 4}[r.Intn(3)],
			Archival:           r.Bool(),
			OnDisk:             true,
			Storage:            "sqlite",
			NAccounts:          12,
			NOnline:            4,
			CatchpointInterval: []uint64{4, 8}[r.Intn(2)],
			CatchpointTracking: []int64{1, 2}[r.Intn(2)],
			Profile:            []string{"", "apps", "status", "money"}[r.Intn(4)],
		}
		// ---- generator ledger: PRNG schedule ------------------------------------------------
		trackerdb.TrieMemoryConfig = defTrie
		a := hlNewSim(t, c, r, cfg)
		var chain []bookkeeping.Block
		a.onBlock = append(a.onBlock, func(vb *ledgercore.ValidatedBlock) { chain = append(chain, vb.Block()) })
		all := []*c14Obs{c14NewObs("generator", fmt.Sprintf("policy=prng-schedule %s tracking=%d trie=default", cfg.String(), cfg.CatchpointTracking))}
		script := &c14Script{}
		for i := 0; i < blocks; i++ {
			cpStepWith(a, func(ev *eval.BlockEvaluator) { script.run(a, ev) })
			all[0].sample(c, a)
			act := cpScheduleAction(a)
			c.Count("schedule.generator."+act, 1)
			all[0].sample(c, a)
		}
		cpFlush(a)
		a.settle()
		all[0].sample(c, a)
		all[0].files(c, a)
		for k, v := range a.stats {
			c.Count("gen."+k, v)
		}
		a.l.Close() // keep the model and the scratch dir bookkeeping; the ledger must be gone before the trie config changes
		a.l = nil

		// ---- replays ----------------------------------------------------------------------------
		policies := []string{"every", "batch", "syncer", "restart", "prng"}
		for vi, pol := range policies {
			rv := c.Rand(14, uint64(h), uint64(1+vi))
			v := c14Variant{policy: pol, lookback: []uint64{1, 2, 4, 8, 16}[rv.Intn(5)], archival: rv.Bool(), tracking: []int64{1, 2}[rv.Intn(2)], syncMode: []int{0, 0, 1, 2}[rv.Intn(4)], noLRU: rv.Chance(2, 3), trie: c14Trie(rv, defTrie)}
			if pol == "restart" && v.lookback > 4 {
				v.lookback = []uint64{1, 2, 4}[rv.Intn(3)] // keep many catchpoints inside the run
			}
			lc := a.lcfg
			lc.MaxAcctLookback = v.lookback
			lc.Archival = v.archival
			lc.CatchpointTracking = v.tracking
			lc.LedgerSynchronousMode = v.syncMode
			lc.DisableLedgerLRUCache = v.noLRU
			lc.TxPoolSize, lc.VerifiedTranscationsCacheSize = 100, 100 // (the verified-transaction cache plays no role here; its default size dominates the cost of a restart)
			trackerdb.TrieMemoryConfig = v.trie
			b := cpTwin(a, rv, lc, pol)
			o := c14NewObs(fmt.Sprintf("replay-%d-%s", vi, pol), v.String())
			all = append(all, o)
			burst := 0
			for _, blk := range chain {
				if err := cpAddBlock(b, blk); err != nil {
					// a block the generator's ledger accepted must be accepted by every ledger with the same history (C20's concern; fatal here)
					c.Violation("replayed-block-rejected", map[string]any{"round": blk.Round(), "error": err.Error(), "ledger": o.Name, "config": v.String(), "trace": b.traceTail(20)})
					c.Harness("cannot continue the replay: %v", err)
				}
				o.sample(c, b)
				switch pol {
				case "every":
					cpFlush(b)
				case "batch":
					if burst == 0 {
						burst = rv.Range(6, 20)
					}
					burst--
					if burst == 0 {
						cpFlush(b)
					}
				case "syncer":
					b.settle()
				case "restart":
					b.settle()
					if rv.Chance(1, 5) {
						cpFlush(b)
					}
					if f, ok := cpPendingFirstStage(b); ok && rv.Chance(1, 3) {
						o.sample(c, b)
						if rv.Bool() {
							b.reload()
						} else {
							b.reopen()
						}
						c.Count("c14.restart_between_stages", 1)
						b.tr("restart while first stage %d waits for its second stage", f)
					}
				case "prng":
					c.Count("schedule.replay."+cpScheduleAction(b), 1)
				}
				o.sample(c, b)
			}
			cpFlush(b)
			b.settle()
			o.sample(c, b)
			o.files(c, b)
			c.Distinct(fmt.Sprint(o.commits))
			b.close()
		}
		c.Distinct(fmt.Sprint(all[0].commits))

		// ---- verdict -------------------------------------------------------------------------------
		rounds := map[basics.Round]bool{}
		for _, o := range all {
			for rnd := range o.labels {
				rounds[rnd] = true
			}
		}
		var rs []basics.Round
		for rnd := range rounds {
			rs = append(rs, rnd)
		}
		sort.Slice(rs, func(i, j int) bool { return rs[i] < rs[j] })
		lb := cpLookback(config.Consensus[cfg.Proto])
		for _, rnd := range rs {
			byLabel := map[string][]string{}
			for _, o := range all {
				if lbl, ok := o.labels[rnd]; ok {
					byLabel[lbl] = append(byLabel[lbl], o.Name)
					c.Count("c14.labels_produced", 1)
				} else {
					c.Count("c14.labels_not_produced", 1)
				}
			}
			n := 0
			for _, who := range byLabel {
				n += len(who)
			}
			if n < 2 {
				c.Count("c14.rounds_with_single_producer", 1)
				continue
			}
			c.Eval(n - 1)
			c.Count("c14.rounds_compared", 1)
			c.Max("c14.max_ledgers_agreeing_on_a_round", int64(n))
			if len(byLabel) > 1 {
				w := map[string]any{"round": rnd, "history": h, "history_config": cfg.String(), "labels": byLabel}
				var det []map[string]any
				for _, o := range all {
					if lbl, ok := o.labels[rnd]; ok {
						d := map[string]any{"ledger": o.Name, "config": o.Desc, "label": lbl, "source": o.src[rnd], "commit_boundaries": fmt.Sprint(o.commits)}
						if info, ok := o.stages[rnd-lb]; ok {
							d["first_stage"] = cpStageStr(info)
						}
						det = append(det, d)
					}
				}
				w["ledgers"] = det
				c.Violation("label-differs", w)
			}
		}
		if h < 3 {
			smp := map[string]any{"history": h, "config": cfg.String(), "blocks": blocks, "catchpoint_rounds": len(rs)}
			for _, o := range all {
				smp[o.Name] = fmt.Sprintf("%d labels; commits %v", len(o.labels), o.commits)
			}
			c.Sample(smp)
		}
		a.close()
	}
	c.Require("c14.rounds_compared", int64(c.N(12, 80)))
	c.Require("c14.restart_between_stages", int64(c.N(3, 20)))
	c.Require("c14.files_read", int64(c.N(3, 20)))
	c.Require("c14.optin_then_changed_in_next_round", int64(c.N(30, 100)))
}
