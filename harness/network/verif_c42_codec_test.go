package network

// C42 (codec part): the stateful vote compression as wired into a peer connection (wsPeerMsgCodec + the send
// path wsPeer.writeLoopSendMsg) is lossless, both ends negotiate the same table size, and after any error the
// abort handshake leaves both ends with stateful compression off (never a wrong vote).
//
// Model: two nodes A and B with PRNG-chosen configured table sizes. Each has a real wsPeer object (not started)
// whose msgCodec is built by makeWsPeerMsgCodec from the features header the other side would really send
// (setHeaders + decodePeerFeatures). The wire is two FIFO queues. Sending uses the real writeLoopSendMsg on a
// capturing connection; receiving applies codec.decompress exactly as readLoop does (VP error => abort message
// queued to the other side; nil => dropped; VP => delivered as AV).
//
// Oracle: every vote delivered to the receiving node equals, bytewise, a vote the other node sent, in order
// (votes may be dropped only while an abort is in flight); both ends agree on the table size; once either end
// has seen an error or an abort, it never produces or accepts VP traffic again.

import (
	"bytes"
	"context"
	"encoding/binary"
	"encoding/hex"
	"fmt"
	"io"
	"net"
	"net/http"
	"testing"
	"time"

	"github.com/algorand/go-algorand/config"
	"github.com/algorand/go-algorand/crypto"
	"github.com/algorand/go-algorand/logging"
	"github.com/algorand/go-algorand/protocol"
	"verif.local/kit"
)

type c42Meta struct {
	enabled bool
	size    uint
}

func (m c42Meta) TelemetryGUID() string                  { return "" }
func (m c42Meta) InstanceName() string                   { return "verif" }
func (m c42Meta) GetGenesisID() string                   { return "verif-genesis" }
func (m c42Meta) PublicAddress() string                  { return "" }
func (m c42Meta) RandomID() string                       { return "r" }
func (m c42Meta) SupportedProtoVersions() []string       { return SupportedProtocolVersions }
func (m c42Meta) VoteCompressionEnabled() bool           { return m.enabled }
func (m c42Meta) StatefulVoteCompressionTableSize() uint { return m.size }

// c42Conn captures what the send path writes.
type c42Conn struct{ out [][]byte }

func (m *c42Conn) RemoteAddr() net.Addr                     { return &net.TCPAddr{IP: net.IPv4(127, 0, 0, 1), Port: 1} }
func (m *c42Conn) RemoteAddrString() string                 { return "127.0.0.1:1" }
func (m *c42Conn) NextReader() (int, io.Reader, error)      { return 0, nil, io.EOF }
func (m *c42Conn) WriteMessage(_ int, b []byte) error       { m.out = append(m.out, bytes.Clone(b)); return nil }
func (m *c42Conn) CloseWithMessage([]byte, time.Time) error { return nil }
func (m *c42Conn) SetReadLimit(int64)                       {}
func (m *c42Conn) CloseWithoutFlush() error                 { return nil }
func (m *c42Conn) UnderlyingConn() net.Conn                 { return nil }

type c42RNG struct{ r *kit.Rand }

func (d c42RNG) RandBytes(b []byte) { d.r.Fill(b) }

type c42Vote struct {
	pf                 [80]byte
	per, rnd, step     uint64
	dig, encdig, oprop [32]byte
	snd, p, p2         [32]byte
	p1s, p2s, s, ps    [64]byte // ps = OneTimeSignature.PKSigOld: unused by verification, normally zero
}

func c42Uint(b []byte, v uint64) []byte {
	switch {
	case v <= 0x7f:
		return append(b, byte(v))
	case v <= 0xff:
		return append(b, 0xcc, byte(v))
	case v <= 0xffff:
		return binary.BigEndian.AppendUint16(append(b, 0xcd), uint16(v))
	case v <= 0xffffffff:
		return binary.BigEndian.AppendUint32(append(b, 0xce), uint32(v))
	}
	return binary.BigEndian.AppendUint64(append(b, 0xcf), v)
}
func c42Str(b []byte, s string) []byte { return append(append(b, 0xa0|byte(len(s))), s...) }
func c42Bin(b []byte, d []byte) []byte  { return append(append(b, 0xc4, byte(len(d))), d...) }

// canon: canonical msgpack of a vote whose byte-array fields are all non-zero (integers may be zero => omitted).
func (v *c42Vote) canon() []byte {
	out := []byte{0x83}
	out = append(c42Str(out, "cred"), 0x81)
	out = c42Bin(c42Str(out, "pf"), v.pf[:])
	n := 3
	if v.per != 0 {
		n++
	}
	if v.step != 0 {
		n++
	}
	if v.rnd == 0 {
		n--
	}
	out = append(c42Str(out, "r"), 0x80|byte(n))
	if v.per != 0 {
		out = c42Uint(c42Str(out, "per"), v.per)
	}
	out = append(c42Str(out, "prop"), 0x83)
	out = c42Bin(c42Str(out, "dig"), v.dig[:])
	out = c42Bin(c42Str(out, "encdig"), v.encdig[:])
	out = c42Bin(c42Str(out, "oprop"), v.oprop[:])
	if v.rnd != 0 {
		out = c42Uint(c42Str(out, "rnd"), v.rnd)
	}
	out = c42Bin(c42Str(out, "snd"), v.snd[:])
	if v.step != 0 {
		out = c42Uint(c42Str(out, "step"), v.step)
	}
	out = append(c42Str(out, "sig"), 0x86)
	out = c42Bin(c42Str(out, "p"), v.p[:])
	out = c42Bin(c42Str(out, "p1s"), v.p1s[:])
	out = c42Bin(c42Str(out, "p2"), v.p2[:])
	out = c42Bin(c42Str(out, "p2s"), v.p2s[:])
	out = c42Bin(c42Str(out, "ps"), v.ps[:])
	out = c42Bin(c42Str(out, "s"), v.s[:])
	return out
}

type c42Gen struct {
	r       *kit.Rand
	senders [][32]byte
	keys    [][96]byte
	keys2   [][96]byte
	props   [][96]byte
	rnd     uint64
}

func newC42Gen(r *kit.Rand) *c42Gen {
	g := &c42Gen{r: r, rnd: uint64(r.Range(1, 1<<20))}
	for i, n := 0, r.Range(2, 80); i < n; i++ {
		var a [32]byte
		var k, k2 [96]byte
		r.Fill(a[:])
		r.Fill(k[:])
		r.Fill(k2[:])
		g.senders, g.keys, g.keys2 = append(g.senders, a), append(g.keys, k), append(g.keys2, k2)
	}
	for i, n := 0, r.Range(1, 10); i < n; i++ {
		var p [96]byte
		r.Fill(p[:])
		g.props = append(g.props, p)
	}
	return g
}

func (g *c42Gen) next() []byte { return g.nextVote().canon() }

func (g *c42Gen) nextVote() *c42Vote {
	r := g.r
	switch r.Pick([]int{60, 20, 8, 4}) {
	case 1:
		if g.rnd < 1<<63 {
			g.rnd++
		}
		for j := 0; j < 5; j++ {
			r.Fill(g.keys[r.Intn(len(g.keys))][:])
		}
	case 2:
		g.rnd--
		if g.rnd == 0 {
			g.rnd = 1
		}
	case 3:
		g.rnd = r.Boundary64() | 1
	}
	i := r.Intn(len(g.senders))
	v := &c42Vote{rnd: g.rnd, per: uint64(r.Pick([]int{12, 2, 1})), step: uint64(r.Intn(5))}
	v.snd = g.senders[i]
	copy(v.p[:], g.keys[i][:32])
	copy(v.p1s[:], g.keys[i][32:])
	copy(v.p2[:], g.keys2[i][:32])
	copy(v.p2s[:], g.keys2[i][32:])
	p := g.props[r.Intn(len(g.props))]
	copy(v.dig[:], p[:32])
	copy(v.encdig[:], p[32:64])
	copy(v.oprop[:], p[64:])
	r.Fill(v.pf[:])
	r.Fill(v.s[:])
	return v
}

type c42Node struct {
	name  string
	wp    *wsPeer
	conn  *c42Conn
	inbox []c42Wire // FIFO of frames travelling towards this node
	// what the other side sent towards this node and has not been delivered or dropped yet (in order)
	expect   [][]byte
	sawError bool // this node's codec reported an error or received an abort
}

type c42Wire struct {
	frame  []byte // tag + payload
	vote   []byte // the vote it carries (nil for control/garbage frames)
	forged bool
}

func makeC42Node(name string, log logging.Logger, own, other config.Local) *c42Node {
	h := http.Header{}
	setHeaders(h, "2.2", c42Meta{enabled: other.EnableVoteCompression, size: other.NormalizedVoteCompressionTableSize(log)})
	conn := &c42Conn{}
	wp := &wsPeer{
		wsPeerCore:               wsPeerCore{log: log, originAddress: name},
		conn:                     conn,
		version:                  "2.2",
		features:                 decodePeerFeatures("2.2", h.Get(PeerFeaturesHeader)),
		enableVoteCompression:    own.EnableVoteCompression,
		voteCompressionTableSize: own.NormalizedVoteCompressionTableSize(log),
		sendMessageTag:           defaultSendMessageTags,
	}
	wp.msgCodec = makeWsPeerMsgCodec(wp)
	return &c42Node{name: name, wp: wp, conn: conn}
}

func TestVerifC42Codec(t *testing.T) {
	c := kit.Start(t, "C42", "codec")
	defer c.Finish()
	c.Rule("two nodes with PRNG-chosen StatefulVoteCompressionTableSize settings (valid powers of two, in-between values, 0, <16, >2048) negotiate through the real feature header; full-duplex canonical vote traffic is sent with wsPeer.writeLoopSendMsg and received with wsPeerMsgCodec.decompress over two FIFO queues under a PRNG schedule; faults: votes the stateless layer cannot compress (raw fallback => encoder-side abort), forged/garbled VP frames (decoder-side abort), spontaneous abort messages, with further traffic in flight while the abort travels. Checked at every delivery. distinct = (negotiated size, fault kind, delivery kind)")
	log := logging.NewLogger()
	log.SetOutput(io.Discard)
	log.SetLevel(logging.Error)

	// Reachability of the "uncompressible vote" fault: a one-time signature whose PKSigOld (msgpack "ps") is
	// non-zero still verifies, so a vote carrying it is accepted and relayed by honest nodes.
	{
		r := c.Rand(9, 0)
		ots := crypto.GenerateOneTimeSignatureSecretsRNG(0, 2, c42RNG{r})
		id := crypto.OneTimeSignatureIdentifier{Batch: 1, Offset: 3}
		msg := crypto.OneTimeSignatureSubkeyBatchID{Batch: 77}
		sig := ots.Sign(id, msg)
		okPlain := ots.OneTimeSignatureVerifier.Verify(id, msg, sig)
		r.Fill(sig.PKSigOld[:])
		okPs := ots.OneTimeSignatureVerifier.Verify(id, msg, sig)
		if !okPlain {
			c.Harness("one-time signature self-check failed")
		}
		c.Extra("onetimesig_verifies_with_nonzero_ps", okPs)
	}

	cfgSizes := []uint{0, 1, 15, 16, 17, 31, 32, 64, 100, 128, 256, 512, 1000, 1024, 2048, 4096, 1 << 20}
	ncases := c.N(250, 20000)
	for i := 0; i < ncases && c.Violations() < 20; i++ {
		r := c.Rand(6, uint64(i))
		cfgA, cfgB := config.GetDefaultLocal(), config.GetDefaultLocal()
		cfgA.EnableVoteCompression, cfgB.EnableVoteCompression = true, true
		cfgA.StatefulVoteCompressionTableSize = cfgSizes[r.Intn(len(cfgSizes))]
		cfgB.StatefulVoteCompressionTableSize = cfgSizes[r.Intn(len(cfgSizes))]
		if r.Chance(1, 2) { // most cases should have stateful compression on
			cfgA.StatefulVoteCompressionTableSize = []uint{16, 32, 64, 256, 2048}[r.Intn(5)]
			cfgB.StatefulVoteCompressionTableSize = []uint{16, 32, 64, 256, 2048}[r.Intn(5)]
		}
		if r.Chance(1, 15) {
			cfgB.EnableVoteCompression = false
		}
		A := makeC42Node("A", log, cfgA, cfgB)
		B := makeC42Node("B", log, cfgB, cfgA)
		witness := func(extra map[string]any) map[string]any {
			w := map[string]any{"case": i, "cfgA_table": cfgA.StatefulVoteCompressionTableSize, "cfgB_table": cfgB.StatefulVoteCompressionTableSize,
				"A_negotiated": A.wp.msgCodec.statefulVoteTableSize, "B_negotiated": B.wp.msgCodec.statefulVoteTableSize}
			for k, v := range extra {
				w[k] = v
			}
			return w
		}
		ea, eb := A.wp.msgCodec.statefulVoteEnabled.Load(), B.wp.msgCodec.statefulVoteEnabled.Load()
		c.Eval(1)
		if ea != eb || (ea && A.wp.msgCodec.statefulVoteTableSize != B.wp.msgCodec.statefulVoteTableSize) {
			c.Violation("negotiation-mismatch", witness(map[string]any{"A_enabled": ea, "B_enabled": eb}))
			continue
		}
		size := uint(0)
		if ea {
			size = A.wp.msgCodec.statefulVoteTableSize
			c.Count("stateful_sessions", 1)
		}
		gens := map[*c42Node]*c42Gen{A: newC42Gen(c.Rand(7, uint64(i))), B: newC42Gen(c.Rand(8, uint64(i)))}
		other := map[*c42Node]*c42Node{A: B, B: A}
		fault := "none"
		faultAt := -1
		if r.Chance(2, 3) {
			fault = []string{"uncompressible-vote", "garbled-vp", "forged-vp-ref", "spontaneous-abort", "truncated-vp"}[r.Intn(5)]
			faultAt = r.Range(0, 120)
		}
		nsteps := r.Range(40, 400)
		failed := false
		byzantine := false
		uncompressibleKind := ""

		send := func(n *c42Node, vote []byte, raw bool) {
			var data []byte
			if raw || !n.wp.vpackVoteCompressionSupported() || !n.wp.enableVoteCompression {
				data = append([]byte(protocol.AgreementVoteTag), vote...)
			} else {
				data, _ = vpackCompressVote([]byte(protocol.AgreementVoteTag), vote) // what broadcast hands to the peer
			}
			wasEnabled := n.wp.msgCodec.statefulVoteEnabled.Load()
			n.conn.out = nil
			var reason disconnectReason
			if c.Guard("codec-send", witness(map[string]any{"vote_hex": hex.EncodeToString(vote)}), func() {
				reason = n.wp.writeLoopSendMsg(sendMessage{data: data, enqueued: time.Now(), peerEnqueued: time.Now(), ctx: context.Background()})
			}) {
				failed = true
				return
			}
			if reason != disconnectReasonNone {
				c.Harness("writeLoopSendMsg returned %v", reason)
			}
			o := other[n]
			for _, f := range n.conn.out {
				tag := protocol.Tag(f[:2])
				switch {
				case tag == protocol.VotePackedTag && len(f) == 3 && f[2] == voteCompressionAbortMessage:
					o.inbox = append(o.inbox, c42Wire{frame: f})
					n.sawError = true
					c.Count("aborts_sent_by_encoder", 1)
				case tag == protocol.VotePackedTag:
					if !wasEnabled || n.sawError {
						c.Violation("vp-sent-after-abort", witness(map[string]any{"node": n.name, "frame_hex": hex.EncodeToString(f)}))
						failed = true
					}
					c.Count("vp_frames", 1)
					o.inbox = append(o.inbox, c42Wire{frame: f, vote: vote})
					o.expect = append(o.expect, vote)
				default:
					c.Count("av_frames", 1)
					o.inbox = append(o.inbox, c42Wire{frame: f, vote: vote})
					o.expect = append(o.expect, vote)
				}
			}
		}

		deliver := func(n *c42Node) {
			if len(n.inbox) == 0 {
				return
			}
			w := n.inbox[0]
			n.inbox = n.inbox[1:]
			tag := protocol.Tag(w.frame[:2])
			var out []byte
			var err error
			if c.Guard("codec-receive", witness(map[string]any{"frame_hex": hex.EncodeToString(w.frame)}), func() {
				out, err = n.wp.msgCodec.decompress(tag, bytes.Clone(w.frame[2:]))
			}) {
				failed = true
				return
			}
			c.Eval(1)
			isAbort := tag == protocol.VotePackedTag && len(w.frame) == 3 && w.frame[2] == voteCompressionAbortMessage
			if isAbort {
				n.sawError = true
				c.Count("aborts_received", 1)
			}
			if err != nil {
				// readLoop: a voteCompressionError => send abort, drop the vote, continue
				if _, ok := err.(*voteCompressionError); !ok {
					c.Observation("case %d: decompress returned a non-VP error (connection would be torn down): %v", i, err)
				}
				n.sawError = true
				other[n].inbox = append(other[n].inbox, c42Wire{frame: append([]byte(protocol.VotePackedTag), voteCompressionAbortMessage)})
				c.Count("aborts_sent_by_decoder", 1)
				out = nil
			}
			if n.sawError && n.wp.msgCodec.statefulVoteEnabled.Load() {
				c.Violation("stateful-still-enabled-after-error", witness(map[string]any{"node": n.name, "fault": fault}))
				failed = true
			}
			if w.vote == nil { // control or forged frame
				if out != nil && !w.forged {
					c.Violation("control-frame-delivered", witness(map[string]any{"frame_hex": hex.EncodeToString(w.frame), "delivered_hex": hex.EncodeToString(out)}))
					failed = true
				}
				if w.forged && err == nil && !isAbort {
					// the sending peer is byzantine: its frame was accepted and changed the decoder tables, so nothing
					// can be demanded of the frames that follow. End the case here.
					c.Count("forged_frames_decoded", 1)
					byzantine = true
				}
				c.Distinct(fmt.Sprintf("%d|%s|control", size, fault))
				return
			}
			// a vote-carrying frame: it is the head of n.expect
			want := n.expect[0]
			n.expect = n.expect[1:]
			if out == nil {
				if !n.sawError {
					c.Violation("vote-dropped-without-abort", witness(map[string]any{"node": n.name, "frame_hex": hex.EncodeToString(w.frame)}))
					failed = true
				}
				c.Count("votes_dropped_during_abort", 1)
				c.Distinct(fmt.Sprintf("%d|%s|dropped", size, fault))
				return
			}
			if !bytes.Equal(out, want) {
				key := "codec-wrong-vote"
				if tag == protocol.AgreementVoteTag && len(out) < len(want) && bytes.Equal(out, want[:len(out)]) {
					key = "fallback-truncates-vote" // the delivered bytes are a strict prefix of the vote
				}
				c.Violation(key, witness(map[string]any{"node": n.name, "fault": fault, "uncompressible_kind": uncompressibleKind, "tag": string(tag), "sent_len": len(want), "delivered_len": len(out), "sent_hex": hex.EncodeToString(want), "delivered_hex": hex.EncodeToString(out)}))
				failed = true
				return
			}
			c.Count("votes_delivered_"+string(tag), 1)
			c.Distinct(fmt.Sprintf("%d|%s|%s|%v", size, fault, tag, n.sawError))
		}

		for s := 0; s < nsteps && !failed && !byzantine; s++ {
			n := A
			if r.Bool() {
				n = B
			}
			if s == faultAt {
				switch fault {
				case "uncompressible-vote":
					// a vote the stateless encoder refuses, so that broadcast falls back to the raw bytes:
					// (a) sig.ps (OneTimeSignature.PKSigOld) non-zero: no signature covers that field and
					//     OneTimeSignatureVerifier.Verify ignores it, so such a vote passes verification and is relayed;
					// (b) round 0 (the codec omits rnd): not a vote agreement would relay, kept as a second trigger.
					v := gens[n].nextVote()
					if r.Chance(2, 3) {
						r.Fill(v.ps[:])
						uncompressibleKind = "nonzero-sig.ps"
					} else {
						v.rnd = 0
						uncompressibleKind = "round-0"
					}
					send(n, v.canon(), false)
					c.Count("faults_injected", 1)
				case "garbled-vp", "truncated-vp", "forged-vp-ref":
					vote := gens[n].next()
					st, _ := vpackCompressVote(nil, vote)
					f := append([]byte(protocol.VotePackedTag), st...)
					switch fault {
					case "garbled-vp":
						f[2+r.Intn(len(f)-2)] ^= byte(1 + r.Intn(255))
					case "truncated-vp":
						f = f[:2+r.Intn(len(f)-2)]
					case "forged-vp-ref":
						f[3] = byte(r.Intn(256)) // arbitrary hdr1: references to slots that may be empty
					}
					other[n].inbox = append(other[n].inbox, c42Wire{frame: f, forged: true})
					c.Count("faults_injected", 1)
				case "spontaneous-abort":
					other[n].inbox = append(other[n].inbox, c42Wire{frame: append([]byte(protocol.VotePackedTag), voteCompressionAbortMessage)})
					n.wp.msgCodec.switchOffStatefulVoteCompression()
					n.sawError = true
					c.Count("faults_injected", 1)
				}
				continue
			}
			switch r.Pick([]int{5, 4}) {
			case 0:
				send(n, gens[n].next(), false)
			case 1:
				deliver(n)
			}
		}
		for !failed && !byzantine && (len(A.inbox) > 0 || len(B.inbox) > 0) {
			deliver(A)
			deliver(B)
		}
		if !failed && !byzantine && (A.sawError || B.sawError) {
			// the abort handshake has completed: both ends must be off
			c.Eval(1)
			if A.wp.msgCodec.statefulVoteEnabled.Load() || B.wp.msgCodec.statefulVoteEnabled.Load() {
				c.Violation("abort-leaves-one-side-enabled", witness(map[string]any{"fault": fault, "A_enabled": A.wp.msgCodec.statefulVoteEnabled.Load(), "B_enabled": B.wp.msgCodec.statefulVoteEnabled.Load()}))
			}
			c.Count("completed_abort_handshakes", 1)
		}
		if i < 3 {
			c.Sample(map[string]any{"case": i, "cfgA_table": cfgA.StatefulVoteCompressionTableSize, "cfgB_table": cfgB.StatefulVoteCompressionTableSize, "negotiated": size, "fault": fault, "fault_at_step": faultAt, "steps": nsteps})
		}
	}
	c.Require("stateful_sessions", 50)
	c.Require("votes_delivered_VP", 2000)
	c.Require("votes_delivered_AV", 200)
	c.Require("completed_abort_handshakes", 20)
	c.Require("aborts_sent_by_decoder", 5)
	c.Require("aborts_sent_by_encoder", 5)
}
