package network

// C43 (duplicates): once the incoming filter has seen a (tag,payload), the same (tag,payload) is reported as a
// duplicate (and therefore not handed to handlers by readLoop) for as long as fewer than (buckets-1)*bucketSize
// inserting calls were made in between.
//
// Why (buckets-1)*bucketSize calls: an entry sits in the top bucket at fill position k<=S; the top bucket rotates
// every S insertions/promotions and the entry's bucket is overwritten at the (buckets)th rotation after it was
// last top, i.e. after (S-k)+(B-1)*S >= (B-1)*S fill events. Every add=true call causes at most one fill event, so
// counting calls is a lower bound for the retention the code promises; the model never demands more.
// A key that was never checked before must be reported as new (a filter that drops fresh messages would also
// "never deliver twice"; the sequential model is a set, so this direction is checked under its own finding key).

import (
	"fmt"
	"sync"
	"sync/atomic"
	"testing"
	"time"

	"github.com/anishathalye/porcupine"

	"github.com/algorand/go-algorand/protocol"
	"verif.local/kit"
)

type c43Key struct {
	tag protocol.Tag
	msg string
}

func TestVerifC43Dedup(t *testing.T) {
	c := kit.Start(t, "C43", "dedup")
	defer c.Finish()
	ra := &ruleAcc{c: c}
	c43DedupSequentialLane(c, ra)
	if c.Violations() < 20 {
		c43DedupConcurrentLane(c, ra)
	}
}

func c43DedupSequentialLane(c *kit.Ctx, ra *ruleAcc) {
	ra.add("sequential", "sequential histories of CheckIncomingMessage on filters with 2..8 buckets of 1..512 entries (incl. the production 5x512): fresh messages, repeats at PRNG-chosen distances from 0 to beyond the retention window (clustered around (buckets-1)*bucketSize), the same payload under the other dedup-safe tag, payloads that are prefixes/extensions of each other, pure lookups (add=false) and non-promoting checks; the reference is a map from (tag,payload) to the call index of its last refresh. distinct = (buckets, bucketSize, distance class, flags, result)")
	ncases := c.N(300, 10000)
	type shape struct{ b, s int }
	shapes := []shape{{5, 512}, {2, 1}, {2, 2}, {2, 3}, {3, 1}, {3, 2}, {3, 8}, {5, 4}, {8, 3}, {4, 64}, {3, 128}, {2, 512}}
	for i := 0; i < ncases && c.Violations() < 20; i++ {
		r := c.Rand(20, uint64(i))
		sh := shapes[i%len(shapes)]
		window := (sh.b - 1) * sh.s
		f := makeMessageFilter(sh.b, sh.s)
		lastRefresh := map[c43Key]int{} // add=true call index at which the key was inserted or promoted
		var order []c43Key
		calls := 0 // number of add=true calls so far
		nops := r.Range(window+5, 4*window+60)
		if nops > 6000 {
			nops = r.Range(2200, 6000)
		}
		var trace []string
		tags := []protocol.Tag{protocol.AgreementVoteTag, protocol.TxnTag}
		fresh := func() c43Key {
			n := r.Range(1, 40)
			if r.Chance(1, 10) {
				n = r.Range(100, 1228)
			}
			return c43Key{tags[r.Intn(2)], string(r.Bytes(n))}
		}
		for op := 0; op < nops && c.Violations() < 20; op++ {
			var k c43Key
			class := "fresh"
			switch {
			case len(order) == 0 || r.Chance(3, 10):
				k = fresh()
			case r.Chance(1, 12): // same payload, other tag
				o := order[r.Intn(len(order))]
				k = c43Key{tags[0], o.msg}
				if o.tag == tags[0] {
					k.tag = tags[1]
				}
				class = "other-tag"
			case r.Chance(1, 12): // prefix / extension of an earlier payload
				o := order[r.Intn(len(order))]
				if len(o.msg) > 1 && r.Bool() {
					k = c43Key{o.tag, o.msg[:len(o.msg)-1]}
				} else {
					k = c43Key{o.tag, o.msg + string(r.Bytes(1))}
				}
				class = "prefix-or-extension"
			default:
				// repeat at a chosen distance (in add=true calls)
				var dist int
				switch r.Intn(6) {
				case 0:
					dist = 0
				case 1:
					dist = r.Intn(window + 1)
				case 2, 3:
					dist = max(0, window-2+r.Intn(4)) // window-2 .. window+1
				case 4:
					dist = window + 1 + r.Intn(window+3)
				default:
					dist = r.Intn(len(order))
				}
				// among some candidates, the key whose last refresh is closest to `dist` calls ago
				target := calls - 1 - dist
				best, bestD := order[len(order)-1], 1<<30
				for try := 0; try < 24; try++ {
					j := r.Intn(len(order))
					if try < 12 { // recent insertions: positions around the wanted distance
						j = min(len(order)-1, max(0, len(order)-1-dist*len(order)/max(calls, 1)+r.Range(-3, 3)))
					}
					d := lastRefresh[order[j]] - target
					if d < 0 {
						d = -d
					}
					if d < bestD {
						best, bestD = order[j], d
					}
				}
				k = best
				class = "repeat"
			}
			add, promote := true, true
			switch r.Intn(12) {
			case 0:
				add = false
			case 1:
				promote = false
			}
			last, known := lastRefresh[k]
			between := calls - last - 1 // add=true calls strictly between the refresh and this call
			var got bool
			in := map[string]any{"case": i, "buckets": sh.b, "bucket_size": sh.s, "op": op, "class": class, "tag": string(k.tag), "payload_hex": fmt.Sprintf("%x", k.msg[:min(len(k.msg), 24)]), "payload_len": len(k.msg), "add": add, "promote": promote, "trace_tail": trace}
			if c.Guard("filter", in, func() { got = f.CheckIncomingMessage(k.tag, []byte(k.msg), add, promote) }) {
				break
			}
			c.Eval(1)
			dclass := "never-seen"
			switch {
			case !known:
				if got {
					c.Violation("fresh-message-reported-duplicate", in)
				}
				c.Count("fresh_checked", 1)
			case between < window:
				dclass = "inside-window"
				if between >= window-2 {
					dclass = "at-window-edge"
					c.Count("repeats_at_window_edge", 1)
				}
				c.Count("repeats_inside_window", 1)
				if !got {
					in["calls_in_between"] = between
					in["window"] = window
					c.Violation("duplicate-not-detected", in)
				}
			default:
				dclass = "beyond-window"
				c.Count("repeats_beyond_window", 1)
				if !got {
					c.Count("forgotten_beyond_window", 1)
				}
			}
			if add {
				// inserted now (not found), or found and promoted to the top bucket; a found entry that is not
				// promoted keeps its age
				if !got || promote {
					lastRefresh[k] = calls
				}
				calls++
				if !known {
					order = append(order, k)
				}
			}
			c.Distinct(fmt.Sprintf("%d|%d|%s|%s|%v|%v|%v", sh.b, sh.s, class, dclass, add, promote, got))
			if len(trace) >= 6 {
				trace = trace[1:]
			}
			trace = append(trace, fmt.Sprintf("#%d %s %s/%dB add=%v promote=%v -> %v", op, class, k.tag, len(k.msg), add, promote, got))
		}
		if i < 2 {
			c.Sample(map[string]any{"case": i, "buckets": sh.b, "bucket_size": sh.s, "window": window, "ops": nops, "distinct_keys": len(order)})
		}
	}
	c.Require("fresh_checked", 5000)
	c.Require("repeats_inside_window", 5000)
	c.Require("repeats_at_window_edge", 300)
	c.Require("forgotten_beyond_window", 100)
}

// ---- concurrent lane: linearizability against a set ----

type c43In struct {
	key int
	add bool
}

var c43SetModel = porcupine.Model{
	Partition: func(h []porcupine.Operation) [][]porcupine.Operation {
		m := map[int][]porcupine.Operation{}
		var keys []int
		for _, o := range h {
			k := o.Input.(c43In).key
			if _, ok := m[k]; !ok {
				keys = append(keys, k)
			}
			m[k] = append(m[k], o)
		}
		out := make([][]porcupine.Operation, 0, len(keys))
		for _, k := range keys {
			out = append(out, m[k])
		}
		return out
	},
	Init: func() any { return false },
	Step: func(state, input, output any) (bool, any) {
		present := state.(bool)
		in := input.(c43In)
		if output.(bool) != present {
			return false, state
		}
		if in.add {
			return true, true
		}
		return true, present
	},
	Equal: func(a, b any) bool { return a.(bool) == b.(bool) },
	DescribeOperation: func(input, output any) string {
		in := input.(c43In)
		return fmt.Sprintf("check(key=%d,add=%v) -> seen=%v", in.key, in.add, output.(bool))
	},
}

func c43DedupConcurrentLane(c *kit.Ctx, ra *ruleAcc) {
	ra.add("concurrent", "k=2..16 goroutines call CheckIncomingMessage concurrently on one filter (production 5x512 and smaller shapes) with overlapping PRNG-chosen subsets of a small message pool (AV/TX tags; some pure lookups); the total number of inserting calls stays below (buckets-1)*bucketSize so nothing may be forgotten; call and return are stamped from one atomic counter and the history is checked with porcupine against a per-message set model (exactly one 'new' per message). distinct = (shape, goroutines, calls on a message, concurrent overlap seen)")
	ncases := c.N(60, 3000)
	type shape struct{ b, s int }
	shapes := []shape{{5, 512}, {5, 512}, {3, 64}, {2, 200}, {8, 40}}
	for i := 0; i < ncases && c.Violations() < 20; i++ {
		r := c.Rand(21, uint64(i))
		sh := shapes[r.Intn(len(shapes))]
		window := (sh.b - 1) * sh.s
		k := r.Range(2, 16)
		budget := window - 1
		perG := max(1, min(budget/k, r.Range(5, 250)))
		npool := r.Range(1, max(2, perG*k/r.Range(2, 8)))
		pool := make([]c43Key, npool)
		for j := range pool {
			tg := protocol.AgreementVoteTag
			if r.Bool() {
				tg = protocol.TxnTag
			}
			pool[j] = c43Key{tg, string(r.Bytes(r.Range(1, 64)))}
			if j > 0 && r.Chance(1, 10) { // same payload under the other tag
				o := pool[r.Intn(j)]
				pool[j] = c43Key{protocol.TxnTag, o.msg}
				if o.tag == protocol.TxnTag {
					pool[j].tag = protocol.AgreementVoteTag
				}
			}
		}
		// dedupe identical keys in the pool (they would alias partitions)
		seenK := map[c43Key]int{}
		alias := make([]int, npool)
		for j, p := range pool {
			if a, ok := seenK[p]; ok {
				alias[j] = a
			} else {
				seenK[p] = j
				alias[j] = j
			}
		}
		plans := make([][]c43In, k)
		for g := range plans {
			for n := 0; n < perG; n++ {
				j := r.Intn(npool)
				if r.Chance(1, 3) {
					j = r.Intn(min(npool, 4)) // hot messages: all goroutines race on them
				}
				plans[g] = append(plans[g], c43In{key: alias[j], add: !r.Chance(1, 10)})
			}
		}
		f := makeMessageFilter(sh.b, sh.s)
		var clock atomic.Int64
		hist := make([][]porcupine.Operation, k)
		var start, wg sync.WaitGroup
		start.Add(1)
		for g := 0; g < k; g++ {
			wg.Add(1)
			go func(g int) {
				defer wg.Done()
				ops := make([]porcupine.Operation, 0, len(plans[g]))
				start.Wait()
				for _, in := range plans[g] {
					p := pool[in.key]
					msg := []byte(p.msg)
					call := clock.Add(1)
					out := f.CheckIncomingMessage(p.tag, msg, in.add, true)
					ret := clock.Add(1)
					ops = append(ops, porcupine.Operation{ClientId: g, Input: in, Call: call, Output: out, Return: ret})
				}
				hist[g] = ops
			}(g)
		}
		start.Done()
		done := make(chan struct{})
		go func() { wg.Wait(); close(done) }()
		select {
		case <-done:
		case <-time.After(c43Watchdog):
			c.Harness("concurrent filter calls did not finish (deadlock?)")
		}
		var all []porcupine.Operation
		for _, h := range hist {
			all = append(all, h...)
		}
		res := porcupine.CheckOperationsTimeout(c43SetModel, all, c43Watchdog)
		c.Eval(1)
		c.Count("histories", 1)
		c.Count("calls", len(all))
		// evidence: how concurrent was it
		perKey := map[int][]porcupine.Operation{}
		for _, o := range all {
			perKey[o.Input.(c43In).key] = append(perKey[o.Input.(c43In).key], o)
		}
		for _, ops := range perKey {
			overlap := false
			for a := 0; a < len(ops) && !overlap; a++ {
				for b := a + 1; b < len(ops); b++ {
					if ops[a].Call < ops[b].Return && ops[b].Call < ops[a].Return {
						overlap = true
						break
					}
				}
			}
			if overlap {
				c.Count("messages_with_overlapping_calls", 1)
			}
			c.Distinct(fmt.Sprintf("%dx%d|%d|%d|%v", sh.b, sh.s, k, min(len(ops), 12), overlap))
		}
		switch res {
		case porcupine.Ok:
		case porcupine.Unknown:
			c.Harness("porcupine timed out on a history of %d operations", len(all))
		default:
			// find an offending partition for the witness
			var bad []string
			for key, ops := range perKey {
				if r2 := porcupine.CheckOperations(c43SetModel, ops); !r2 {
					firsts := 0
					for _, o := range ops {
						if o.Input.(c43In).add && !o.Output.(bool) {
							firsts++
						}
						if len(bad) < 40 {
							bad = append(bad, fmt.Sprintf("g%d [%d,%d] check(add=%v)->seen=%v", o.ClientId, o.Call, o.Return, o.Input.(c43In).add, o.Output.(bool)))
						}
					}
					c.Violation("filter-history-not-linearizable", map[string]any{"case": i, "buckets": sh.b, "bucket_size": sh.s, "goroutines": k, "message_key": key,
						"tag": string(pool[key].tag), "payload_len": len(pool[key].msg), "calls_reporting_new": firsts, "operations": bad, "total_calls": len(all), "window": window})
					break
				}
			}
		}
		if i < 2 {
			c.Sample(map[string]any{"case": i, "buckets": sh.b, "bucket_size": sh.s, "goroutines": k, "calls": len(all), "pool": npool, "result": string(res)})
		}
	}
	c.Require("histories", 30)
	c.Require("messages_with_overlapping_calls", 50)
}
