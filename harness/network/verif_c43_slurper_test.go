package network

// C43 (slurper part): LimitedReaderSlurper never returns successfully with more than the per-message limit,
// consumes a bounded amount of an over-long stream (limit + the chunk it is filling, never more than the
// connection maximum + 1 probe byte) and never holds more capacity than the connection maximum — however the
// stream is chunked and whatever was read through the same slurper before.
//
// The bound "limit + one chunk" (instead of "limit") is the reading DESIGN.md §7 gives the statement: Read fills
// the free part of the chunk it already owns before it compares the running total with the limit.

import (
	"bytes"
	"errors"
	"fmt"
	"io"
	"strings"
	"testing"

	"verif.local/kit"
)

var errC43Injected = errors.New("verif: injected read error")

// c43Reader serves a byte stream in PRNG-sized pieces and counts what was taken from it.
type c43Reader struct {
	r        *kit.Rand
	data     []byte
	pos      int
	mode     int // 0: random pieces, 1: one byte at a time, 2: as much as asked
	eofWith  bool
	failAt   int // inject an error when pos reaches failAt (-1: never)
	zeroRead int
	maxAsked int
}

func (f *c43Reader) Read(p []byte) (int, error) {
	if len(p) > f.maxAsked {
		f.maxAsked = len(p)
	}
	if f.failAt >= 0 && f.pos >= f.failAt {
		return 0, errC43Injected
	}
	if f.pos >= len(f.data) {
		return 0, io.EOF
	}
	if len(p) == 0 {
		return 0, nil
	}
	if f.mode == 0 && f.r.Chance(1, 16) {
		f.zeroRead++
		return 0, nil // allowed by io.Reader
	}
	n := len(p)
	switch f.mode {
	case 0:
		n = 1 + f.r.Intn(len(p))
		if f.r.Chance(1, 3) {
			n = 1 + f.r.Intn(min(len(p), 17))
		}
	case 1:
		n = 1
	}
	n = min(n, len(f.data)-f.pos)
	if f.failAt >= 0 {
		n = min(n, f.failAt-f.pos)
	}
	copy(p, f.data[f.pos:f.pos+n])
	f.pos += n
	if f.eofWith && f.pos == len(f.data) {
		return n, io.EOF
	}
	return n, nil
}

func c43Capacity(s *LimitedReaderSlurper) uint64 {
	var total uint64
	for _, b := range s.buffers {
		total += uint64(cap(b))
	}
	return total
}

// ruleAcc lets several lanes of one part contribute to the part's rule text.
type ruleAcc struct {
	c     *kit.Ctx
	parts []string
}

func (a *ruleAcc) add(lane, s string) {
	a.parts = append(a.parts, "["+lane+"] "+s)
	a.c.Rule(strings.Join(a.parts, " || "))
}

// TestVerifC43Size: the three size lanes (slurper alone, one connection at a time, concurrent connections).
func TestVerifC43Size(t *testing.T) {
	c := kit.Start(t, "C43", "size")
	defer c.Finish()
	ra := &ruleAcc{c: c}
	c43SlurperLane(c, ra)
	if c.Violations() < 20 {
		c43WireLane(c, ra)
	}
	if c.Violations() < 20 {
		c43WireConcurrentLane(c, ra)
	}
}

func c43SlurperLane(c *kit.Ctx, ra *ruleAcc) {
	ra.add("slurper", "LimitedReaderSlurper instances with PRNG-chosen base/max allocations (including the production 2 KiB / 6 MiB) read sequences of streams through Reset(limit)+Read: limits 0 (none), 1, around the base allocation, around 64 KiB chunk boundaries, around and above the maximum, and every protocol tag limit; stream lengths limit-1, limit, limit+1, 2*limit, max-1, max, max+1 and random; readers deliver 1-byte pieces, random pieces, zero-length reads, EOF with or after the last bytes, and injected errors. distinct = (base, max, limit class, length class, reader mode, outcome)")
	c.Assume("one chunk = max(base allocation, 64 KiB allocation step); the statement's 'never buffers more than the limit' is read as 'consumption bounded by limit + one chunk, independent of the stream length' (DESIGN.md section 7)")

	type alloc struct{ base, max uint64 }
	allocs := []alloc{{averageMessageLength, MaxMessageLength}, {0, 1}, {1, 1}, {1, 100}, {7, 200000}, {2048, 2048}, {2048, 65536 + 2048}, {2048, 65536 + 2049},
		{65536, 3 * 65536}, {100000, 100001}, {0, 65536}, {300, 200}, {4096, 1 << 20}}
	tagLimits := []uint64{48, 67, 69, 215, 850, 1228, 6378}
	ncases := c.N(1500, 60000)
	race := c.Lane == "race" // byte loops are ~30x slower under the race detector: fewer cases, no 6 MiB streams
	if race {
		ncases = c.N(300, 6000)
	}
	stream := make([]byte, 0, 2*MaxMessageLength+16)
	for i := 0; i < ncases && c.Violations() < 20; i++ {
		r := c.Rand(10, uint64(i))
		a := allocs[r.Intn(len(allocs))]
		big := a.max > 1<<20
		if big && (race || !r.Chance(1, 6)) { // the 6 MiB configuration is exercised, but most cases use small ones
			a = allocs[1+r.Intn(len(allocs)-1)]
			big = a.max > 1<<20
		}
		effBase := min(a.base, a.max)
		chunk := max(effBase, allocationStep)
		var s *LimitedReaderSlurper
		if c.Guard("slurper-make", fmt.Sprint(a), func() { s = MakeLimitedReaderSlurper(a.base, a.max) }) {
			continue
		}
		nmsgs := r.Range(1, 6)
		var trace []string
		for m := 0; m < nmsgs; m++ {
			// limit
			var limit uint64
			limClass := ""
			switch r.Intn(8) {
			case 0:
				limit, limClass = 0, "none"
			case 1:
				limit, limClass = 1, "one"
			case 2:
				limit, limClass = uint64(max(1, int(effBase)+r.Range(-1, 1))), "at-base"
			case 3:
				limit, limClass = uint64(max(1, int(effBase)+int(allocationStep)*r.Range(0, 2)+r.Range(-1, 1))), "at-chunk-boundary"
			case 4:
				limit, limClass = uint64(max(1, int(a.max)+r.Range(-1, 1))), "at-max"
			case 5:
				limit, limClass = a.max+uint64(r.Range(2, 100000)), "above-max"
			case 6:
				limit, limClass = tagLimits[r.Intn(len(tagLimits))], "tag-limit"
			default:
				limit, limClass = uint64(r.Range(1, int(min(a.max, 300000))+10)), "random"
			}
			// stream length
			var L uint64
			lenClass := ""
			ref := limit
			if limit == 0 {
				ref = a.max
			}
			switch r.Intn(9) {
			case 0:
				L, lenClass = 0, "empty"
			case 1:
				L, lenClass = ref-min(ref, 1), "limit-1"
			case 2:
				L, lenClass = ref, "limit"
			case 3:
				L, lenClass = ref+1, "limit+1"
			case 4:
				L, lenClass = 2*ref, "2*limit"
			case 5:
				L, lenClass = uint64(max(0, int(a.max)+r.Range(-1, 1))), "at-max"
			case 6:
				L, lenClass = ref+chunk+uint64(r.Range(0, 3)), "limit+chunk"
			case 7:
				L, lenClass = ref+uint64(r.Range(2, 200000)), "over"
			default:
				L, lenClass = uint64(r.Intn(int(min(ref, 400000))+1)), "under"
			}
			if L > 2*MaxMessageLength+8 {
				L = 2*MaxMessageLength + 8
			}
			if !big && L > 3<<20 {
				L = 3 << 20
			}
			stream = stream[:L]
			// cheap deterministic content that makes stale bytes visible
			seed := byte(r.Intn(256))
			for j := range stream {
				stream[j] = seed + byte(j) + byte(j>>8)
			}
			rd := &c43Reader{r: r, data: stream, mode: r.Pick([]int{6, 1, 3}), eofWith: r.Bool(), failAt: -1}
			if L > 1<<20 && rd.mode == 1 {
				rd.mode = 0
			}
			if r.Chance(1, 12) && L > 0 {
				rd.failAt = r.Intn(int(L))
			}
			var err error
			in := map[string]any{"case": i, "message": m, "base": a.base, "max": a.max, "limit": limit, "stream_len": L, "reader_mode": rd.mode, "eof_with_data": rd.eofWith, "fail_at": rd.failAt, "earlier": trace}
			if c.Guard("slurper", in, func() {
				s.Reset(limit)
				err = s.Read(rd)
			}) {
				break
			}
			consumed := uint64(rd.pos)
			outcome := "ok"
			c.Eval(1)
			overLimit := limit > 0 && L > limit
			overMax := L > max(a.max, effBase)
			switch {
			case err == nil:
				if overLimit {
					in["size"] = s.Size()
					c.Violation("slurper-accepts-oversized", in)
				}
				if overMax {
					in["size"] = s.Size()
					c.Violation("slurper-exceeds-connection-max", in)
				}
				if s.Size() != L || !bytes.Equal(s.Bytes(), stream) {
					in["size"] = s.Size()
					c.Violation("slurper-returns-wrong-bytes", in)
				}
				if !overLimit && !overMax {
					c.Count("accepted_within_limit", 1)
					if limit > 0 && L == limit {
						c.Count("accepted_exactly_at_limit", 1)
					}
				}
			case errors.Is(err, ErrIncomingMsgTooLarge):
				outcome = "too-large"
				if !overLimit && !overMax {
					// not the property (nothing oversized was delivered); it would starve the guards below
					c.Count("rejected_within_limit", 1)
					c.Observation("case %d: stream of %d bytes rejected with limit %d, max %d", i, L, limit, a.max)
				} else {
					c.Count("rejected_oversized", 1)
				}
				bound := a.max + 1
				if limit > 0 && limit+chunk < bound {
					bound = limit + chunk
				}
				c.Max("max_overread_beyond_limit", int64(consumed)-int64(min(ref, consumed)))
				if consumed > bound {
					in["consumed"] = consumed
					in["bound"] = bound
					c.Violation("slurper-consumes-unbounded", in)
				}
			case errors.Is(err, errC43Injected):
				outcome = "reader-error"
				c.Count("reader_errors_propagated", 1)
			default:
				outcome = "other-error"
				c.Observation("case %d: unexpected error %v", i, err)
			}
			if capa := c43Capacity(s); capa > max(a.max, effBase) {
				in["capacity"] = capa
				c.Violation("slurper-capacity-exceeds-max", in)
			}
			if s.Size() > max(a.max, effBase) || (limit > 0 && err == nil && s.Size() > limit) {
				in["size"] = s.Size()
				c.Violation("slurper-holds-more-than-limit", in)
			}
			c.Distinct(fmt.Sprintf("%d|%d|%s|%s|%d|%v|%s", a.base, a.max, limClass, lenClass, rd.mode, rd.eofWith, outcome))
			if len(trace) < 8 {
				trace = append(trace, fmt.Sprintf("limit=%d len=%d -> %s", limit, L, outcome))
			}
			if i < 2 && m == 0 {
				c.Sample(map[string]any{"case": i, "base": a.base, "max": a.max, "limit": limit, "stream_len": L, "outcome": outcome, "consumed": consumed})
			}
		}
	}
	c.Require("accepted_within_limit", 300)
	c.Require("accepted_exactly_at_limit", 30)
	c.Require("rejected_oversized", 300)
	c.Require("reader_errors_propagated", 20)
}
