package network

// C43 (wire part): a real wsPeer (readLoop, slurper, codec, incoming filter) is fed by a raw websocket client
// over TCP loopback or net.Pipe. The client writes hand-made masked frames, so fragmentation of a message into
// websocket frames and of the byte stream into transport writes is chosen by the PRNG.
//
// Monitored at the readBuffer channel (what the network's handler thread would receive):
//   - every delivered message is one the client sent (same tag, same bytes, or its zstd expansion for PP),
//   - its wire payload was no longer than tag.MaxMessageSize() and its delivered (decompressed) length is within
//     MaxDecompressedMessageSize,
//   - a (tag,payload) of a dedup-safe tag (AV, TX) is delivered at most once per filter, whichever connection
//     carried it (the distinct messages in between stay far below (buckets-1)*bucketSize),
// and at the server's side of the transport:
//   - of an over-long message the peer consumes at most limit + one slurper chunk (64 KiB) + the websocket read
//     buffer + frame headers, i.e. a bound independent of the message length (DESIGN.md section 7).
// Nothing is concluded from timing: the verdict is taken after readLoop and writeLoop have returned.

import (
	"bufio"
	"bytes"
	"context"
	"crypto/rand"
	"encoding/base64"
	"encoding/binary"
	"fmt"
	"io"
	"net"
	"net/http"
	"sync"
	"sync/atomic"
	"time"

	"github.com/DataDog/zstd"
	"github.com/algorand/websocket"

	"github.com/algorand/go-algorand/config"
	"github.com/algorand/go-algorand/logging"
	"github.com/algorand/go-algorand/protocol"
	"verif.local/kit"
)

const c43Watchdog = 120 * time.Second

// c43Net is the GossipNode a bare wsPeer needs: it is only told about the close.
type c43Net struct{ GossipNode }

func (c43Net) peerRemoteClose(*wsPeer, disconnectReason) {}

// countingConn counts the bytes the server side took from the transport.
type countingConn struct {
	net.Conn
	read *atomic.Int64
}

func (c countingConn) Read(p []byte) (int, error) {
	n, err := c.Conn.Read(p)
	c.read.Add(int64(n))
	return n, err
}

// pipeListener hands out server ends of net.Pipe connections.
type pipeListener struct {
	ch     chan net.Conn
	closed chan struct{}
	once   sync.Once
}

func (l *pipeListener) Accept() (net.Conn, error) {
	select {
	case c := <-l.ch:
		return c, nil
	case <-l.closed:
		return nil, net.ErrClosed
	}
}
func (l *pipeListener) Close() error   { l.once.Do(func() { close(l.closed) }); return nil }
func (l *pipeListener) Addr() net.Addr { return &net.TCPAddr{IP: net.IPv4(127, 0, 0, 1), Port: 2} }

// c43Server upgrades every request to a websocket and starts a real wsPeer on it.
type c43Server struct {
	c          *kit.Ctx
	log        logging.Logger
	cfg        config.Local
	readBuffer chan IncomingMessage
	filter     *messageFilter
	tcp        net.Listener
	pipe       *pipeListener
	srvs       []*http.Server
	mu         sync.Mutex
	peers      map[string]*c43Peer // by X-Verif-Conn header
	features   string              // what the "remote" (our raw client) advertises
}

type c43Peer struct {
	wp    *wsPeer
	read  *atomic.Int64
	ready chan struct{}
}

func newC43Server(c *kit.Ctx, filter *messageFilter, features string) *c43Server {
	log := logging.NewLogger()
	log.SetOutput(io.Discard)
	log.SetLevel(logging.Error)
	s := &c43Server{c: c, log: log, cfg: config.GetDefaultLocal(), readBuffer: make(chan IncomingMessage, 64), filter: filter,
		peers: map[string]*c43Peer{}, features: features}
	s.cfg.EnableVoteCompression = true
	var err error
	s.tcp, err = net.Listen("tcp", "127.0.0.1:0")
	if err != nil {
		c.Harness("listen: %v", err)
	}
	s.pipe = &pipeListener{ch: make(chan net.Conn), closed: make(chan struct{})}
	for _, l := range []net.Listener{s.tcp, s.pipe} {
		srv := &http.Server{Handler: s, ConnContext: func(ctx context.Context, cn net.Conn) context.Context { return context.WithValue(ctx, c43ConnKey{}, cn) }}
		s.srvs = append(s.srvs, srv)
		go srv.Serve(countingListener{l})
	}
	return s
}

type c43ConnKey struct{}

// countingListener wraps accepted connections so that server-side reads are counted.
type countingListener struct{ net.Listener }

func (l countingListener) Accept() (net.Conn, error) {
	cn, err := l.Listener.Accept()
	if err != nil {
		return nil, err
	}
	return countingConn{Conn: cn, read: new(atomic.Int64)}, nil
}

func (s *c43Server) ServeHTTP(w http.ResponseWriter, r *http.Request) {
	id := r.Header.Get("X-Verif-Conn")
	s.mu.Lock()
	p := s.peers[id]
	s.mu.Unlock()
	if p == nil {
		http.Error(w, "unknown connection id", 400)
		return
	}
	cc, _ := r.Context().Value(c43ConnKey{}).(countingConn)
	up := websocket.Upgrader{ReadBufferSize: 4096, WriteBufferSize: 4096}
	conn, err := up.Upgrade(w, r, nil)
	if err != nil {
		return
	}
	// the same construction wsNetwork.ServeHTTP uses for an incoming peer
	wp := &wsPeer{
		wsPeerCore:               makePeerCore(context.Background(), c43Net{}, s.log, s.readBuffer, "verif-client-"+id, nil, "127.0.0.1"),
		conn:                     wsPeerWebsocketConnImpl{conn},
		outgoing:                 false,
		incomingMsgFilter:        s.filter,
		createTime:               time.Now(),
		version:                  "2.2",
		features:                 decodePeerFeatures("2.2", s.features),
		enableVoteCompression:    s.cfg.EnableVoteCompression,
		voteCompressionTableSize: s.cfg.NormalizedVoteCompressionTableSize(s.log),
	}
	p.wp = wp
	p.read = cc.read
	wp.init(s.cfg, 16)
	close(p.ready)
}

func (s *c43Server) stop() {
	for _, srv := range s.srvs {
		srv.Close()
	}
	s.tcp.Close()
	s.pipe.Close()
}

// rawClient is the sending side: a transport connection on which the websocket handshake has been done by hand.
type rawClient struct {
	conn    net.Conn
	r       *kit.Rand
	written int64
	dead    bool
	timeout bool
	drained chan struct{}
}

func (s *c43Server) dial(id string, usePipe bool, r *kit.Rand) (*rawClient, *c43Peer) {
	p := &c43Peer{ready: make(chan struct{})}
	s.mu.Lock()
	s.peers[id] = p
	s.mu.Unlock()
	var conn net.Conn
	if usePipe {
		a, b := net.Pipe()
		select {
		case s.pipe.ch <- b:
		case <-time.After(c43Watchdog):
			s.c.Harness("pipe accept watchdog")
		}
		conn = a
	} else {
		var err error
		conn, err = net.DialTimeout("tcp", s.tcp.Addr().String(), c43Watchdog)
		if err != nil {
			s.c.Harness("dial: %v", err)
		}
	}
	conn.SetDeadline(time.Now().Add(c43Watchdog))
	var key [16]byte
	rand.Read(key[:]) // handshake nonce only; not part of any case
	req := "GET /gossip HTTP/1.1\r\nHost: verif\r\nUpgrade: websocket\r\nConnection: Upgrade\r\nSec-WebSocket-Version: 13\r\nSec-WebSocket-Key: " +
		base64.StdEncoding.EncodeToString(key[:]) + "\r\nX-Verif-Conn: " + id + "\r\n\r\n"
	errc := make(chan error, 1)
	go func() { _, err := conn.Write([]byte(req)); errc <- err }()
	br := bufio.NewReader(conn)
	resp, err := http.ReadResponse(br, nil)
	if err != nil {
		s.c.Harness("handshake read: %v", err)
	}
	if werr := <-errc; werr != nil {
		s.c.Harness("handshake write: %v", werr)
	}
	if resp.StatusCode != http.StatusSwitchingProtocols {
		s.c.Harness("handshake status %d", resp.StatusCode)
	}
	select {
	case <-p.ready:
	case <-time.After(c43Watchdog):
		s.c.Harness("peer init watchdog")
	}
	rc := &rawClient{conn: conn, r: r, drained: make(chan struct{})}
	// everything the peer writes (pongs, aborts, close frames) is read and dropped, so that it never blocks
	go func() { io.Copy(io.Discard, br); close(rc.drained) }()
	return rc, p
}

// frame builds one masked client frame.
func (rc *rawClient) frame(opcode byte, fin bool, payload []byte) []byte {
	b0 := opcode
	if fin {
		b0 |= 0x80
	}
	out := []byte{b0}
	switch n := len(payload); {
	case n < 126:
		out = append(out, 0x80|byte(n))
	case n <= 0xffff:
		out = binary.BigEndian.AppendUint16(append(out, 0x80|126), uint16(n))
	default:
		out = binary.BigEndian.AppendUint64(append(out, 0x80|127), uint64(n))
	}
	var mask [4]byte
	rc.r.Fill(mask[:])
	out = append(out, mask[:]...)
	start := len(out)
	out = append(out, payload...)
	for i := range payload {
		out[start+i] ^= mask[i&3]
	}
	return out
}

// fragmentation plans
const (
	fragWhole = iota
	fragRandom
	fragTiny       // 1..3 byte frames (small messages only)
	fragAtLimit    // first frame ends exactly at tag+limit, the rest follows in another frame
	fragWithEmpty  // random, with empty continuation frames and pings in between
	fragKinds
)

// encodeMessage turns tag+payload into websocket frames according to a plan. Returns the wire bytes and the number of frames.
func (rc *rawClient) encodeMessage(msg []byte, plan int, limit int) ([]byte, int) {
	r := rc.r
	var cuts []int // fragment end offsets
	n := len(msg)
	switch plan {
	case fragWhole:
	case fragTiny:
		for p := 0; p < n; {
			p += 1 + r.Intn(3)
			if p < n {
				cuts = append(cuts, p)
			}
		}
	case fragAtLimit:
		if 2+limit < n && limit > 0 {
			cuts = append(cuts, 2+limit)
		} else if n > 2 {
			cuts = append(cuts, 2)
		}
	default:
		k := r.Range(1, 24)
		for j := 0; j < k && n > 1; j++ {
			cuts = append(cuts, 1+r.Intn(n-1))
		}
		// sort + dedupe
		for a := 1; a < len(cuts); a++ {
			for b := a; b > 0 && cuts[b] < cuts[b-1]; b-- {
				cuts[b], cuts[b-1] = cuts[b-1], cuts[b]
			}
		}
		w := 0
		for _, x := range cuts {
			if w == 0 || cuts[w-1] != x {
				cuts[w] = x
				w++
			}
		}
		cuts = cuts[:w]
	}
	cuts = append(cuts, n)
	var out []byte
	frames := 0
	prev := 0
	for i, e := range cuts {
		op := byte(0)
		if i == 0 {
			op = 2 // binary
		}
		out = append(out, rc.frame(op, e == n, msg[prev:e])...)
		frames++
		prev = e
		if plan == fragWithEmpty && e != n {
			if r.Chance(1, 3) {
				out = append(out, rc.frame(0, false, nil)...) // empty continuation
				frames++
			}
			if r.Chance(1, 3) {
				out = append(out, rc.frame(9, true, []byte("verif"))...) // ping between fragments
				frames++
			}
		}
	}
	return out, frames
}

// write pushes wire bytes to the transport in PRNG-sized writes; a failed write means the peer has closed.
func (rc *rawClient) write(wire []byte) {
	if rc.dead {
		return
	}
	r := rc.r
	style := r.Intn(3)
	for len(wire) > 0 {
		n := len(wire)
		switch style {
		case 0: // small writes while the message is small, else up to 64 KiB
			if len(wire) <= 4096 {
				n = 1 + r.Intn(min(len(wire), 64))
			} else {
				n = 1 + r.Intn(min(len(wire), 65536))
			}
		case 1:
			n = 1 + r.Intn(min(len(wire), 1500))
			if len(wire) > 1<<18 {
				n = min(len(wire), 16384+r.Intn(65536))
			}
		}
		rc.conn.SetWriteDeadline(time.Now().Add(c43Watchdog))
		w, err := rc.conn.Write(wire[:n])
		rc.written += int64(w)
		if err != nil {
			if ne, ok := err.(net.Error); ok && ne.Timeout() {
				rc.timeout = true
			}
			rc.dead = true
			return
		}
		wire = wire[n:]
	}
}

func (rc *rawClient) closeWrite() {
	if tc, ok := rc.conn.(*net.TCPConn); ok && !rc.dead {
		tc.CloseWrite()
		return
	}
	rc.conn.Close()
}

// sentMsg is one message of a connection script.
type sentMsg struct {
	Tag        protocol.Tag
	payload    []byte // as written on the wire (after the tag)
	expanded   []byte // what the handler should see (differs for zstd PP), nil = same as payload
	Len        int
	Plan       int
	Role       string
	startWrite int64 // client bytes written before this message
	frames     int
}

func (m *sentMsg) delivered() []byte {
	if m.expanded != nil {
		return m.expanded
	}
	return m.payload
}

type c43Delivery struct {
	peer *wsPeer
	tag  protocol.Tag
	data []byte
}

// collector plays the handler thread: takes messages from readBuffer, releases the per-peer token, records them.
type c43Collector struct {
	mu   sync.Mutex
	got  []c43Delivery
	sync chan struct{}
	done chan struct{}
}

func startC43Collector(rb chan IncomingMessage) *c43Collector {
	col := &c43Collector{sync: make(chan struct{}, 16), done: make(chan struct{})}
	go func() {
		defer close(col.done)
		for m := range rb {
			if m.Tag == "!!" { // harness barrier
				col.sync <- struct{}{}
				continue
			}
			if m.processing != nil {
				select {
				case m.processing <- struct{}{}:
				default:
				}
			}
			wp, _ := m.Sender.(*wsPeer)
			col.mu.Lock()
			col.got = append(col.got, c43Delivery{peer: wp, tag: m.Tag, data: m.Data})
			col.mu.Unlock()
		}
	}()
	return col
}

// barrier returns once everything queued to readBuffer before the call has been recorded.
func (col *c43Collector) barrier(c *kit.Ctx, rb chan IncomingMessage) {
	select {
	case rb <- IncomingMessage{Tag: "!!"}:
	case <-time.After(c43Watchdog):
		c.Harness("collector barrier watchdog (send)")
	}
	select {
	case <-col.sync:
	case <-time.After(c43Watchdog):
		c.Harness("collector barrier watchdog (receive)")
	}
}

func (col *c43Collector) take() []c43Delivery {
	col.mu.Lock()
	defer col.mu.Unlock()
	g := col.got
	col.got = nil
	return g
}

func waitPeerStopped(c *kit.Ctx, wp *wsPeer) {
	done := make(chan struct{})
	go func() { wp.wg.Wait(); close(done) }()
	select {
	case <-done:
	case <-time.After(c43Watchdog):
		c.Harness("peer did not stop within the watchdog after the client closed the connection")
	}
}

// inlineTag: handled inside readLoop, never forwarded to readBuffer.
func inlineTag(t protocol.Tag) bool {
	return t == protocol.MsgOfInterestTag || t == protocol.TopicMsgRespTag || t == protocol.MsgDigestSkipTag
}

func knownTag(t protocol.Tag) bool { _, ok := protocol.TagMap[t]; return ok }

// zstdZeros returns a zstd frame expanding to n zero bytes.
func zstdZeros(c *kit.Ctx, n int) []byte {
	out, err := zstd.Compress(nil, make([]byte, n))
	if err != nil {
		c.Harness("zstd: %v", err)
	}
	return out
}

// avLen moves an AV payload length out of the range in which random bytes could, by length, be taken for a
// stateless vpack frame by the receiver's vote decompressor (which would legitimately rewrite the payload).
func avLen(tag protocol.Tag, n int) int {
	if tag == protocol.AgreementVoteTag && n >= 300 && n <= 560 {
		return n + 300
	}
	return n
}

func c43Payload(r *kit.Rand, n int) []byte {
	b := make([]byte, n)
	if n <= 1<<16 {
		r.Fill(b)
		return b
	}
	// large: random head and tail, cheap patterned middle (content still checked bytewise at delivery)
	r.Fill(b[:4096])
	r.Fill(b[n-4096:])
	seed := byte(r.Intn(256))
	for i := 4096; i < n-4096; i++ {
		b[i] = seed + byte(i) + byte(i>>9)
	}
	return b
}

// runScript sends a script over one fresh connection, waits for the peer to stop, and judges the deliveries.
func runC43Script(c *kit.Ctx, s *c43Server, col *c43Collector, id string, usePipe bool, r *kit.Rand, script []*sentMsg, seen map[string]bool, seenMu *sync.Mutex) {
	rc, p := s.dial(id, usePipe, r)
	for _, m := range script {
		msg := append([]byte(m.Tag), m.payload...)
		wire, frames := rc.encodeMessage(msg, m.Plan, int(m.Tag.MaxMessageSize()))
		m.startWrite = rc.written
		m.frames = frames
		rc.write(wire)
		if rc.dead {
			break
		}
	}
	if rc.timeout {
		c.Harness("client write watchdog: the peer neither read nor closed")
	}
	rc.closeWrite()
	waitPeerStopped(c, p.wp)
	rc.conn.Close()
	select {
	case <-rc.drained:
	case <-time.After(c43Watchdog):
		c.Harness("client drain watchdog")
	}
	col.barrier(c, s.readBuffer)
	judgeC43(c, id, usePipe, script, col.take(), p, rc, seen, seenMu)
}

func judgeC43(c *kit.Ctx, id string, usePipe bool, script []*sentMsg, got []c43Delivery, p *c43Peer, rc *rawClient, seen map[string]bool, seenMu *sync.Mutex) {
	desc := func() []map[string]any {
		var d []map[string]any
		for _, m := range script {
			d = append(d, map[string]any{"tag": string(m.Tag), "payload_len": m.Len, "limit": m.Tag.MaxMessageSize(), "role": m.Role, "fragmentation_plan": m.Plan, "frames": m.frames})
		}
		return d
	}
	next := 0
	for _, d := range got {
		c.Eval(1)
		// match against the earliest not yet matched sent message with these bytes
		match := -1
		for j := next; j < len(script); j++ {
			if script[j].Tag == d.tag && bytes.Equal(script[j].delivered(), d.data) {
				match = j
				break
			}
			// VP is re-tagged AV by readLoop; the harness sends no valid VP frames, so nothing to match there
		}
		if match < 0 {
			c.Violation("delivered-message-not-sent", map[string]any{"conn": id, "pipe": usePipe, "delivered_tag": string(d.tag), "delivered_len": len(d.data),
				"delivered_head_hex": fmt.Sprintf("%x", d.data[:min(len(d.data), 48)]), "script": desc()})
			continue
		}
		m := script[match]
		next = match + 1
		if limit := m.Tag.MaxMessageSize(); uint64(m.Len) > limit {
			c.Violation("oversized-delivered", map[string]any{"conn": id, "pipe": usePipe, "tag": string(m.Tag), "wire_payload_len": m.Len, "limit": limit, "role": m.Role, "script": desc()})
		}
		if len(d.data) > MaxDecompressedMessageSize && m.expanded != nil {
			c.Violation("decompressed-oversized-delivered", map[string]any{"conn": id, "tag": string(m.Tag), "wire_payload_len": m.Len, "delivered_len": len(d.data), "bound": MaxDecompressedMessageSize})
		}
		if dedupSafeTag(d.tag) && len(d.data) > 0 {
			k := string(d.tag) + string(d.data)
			seenMu.Lock()
			dup := seen[k]
			seen[k] = true
			seenMu.Unlock()
			if dup {
				c.Violation("duplicate-delivered", map[string]any{"conn": id, "pipe": usePipe, "tag": string(d.tag), "payload_len": len(d.data), "role": m.Role, "script": desc()})
			} else if m.Role == "duplicate" {
				c.Count("first_copy_arrived_via_duplicate_slot", 1)
			}
		}
		c.Count("delivered", 1)
		if uint64(m.Len) == m.Tag.MaxMessageSize() {
			c.Count("delivered_exactly_at_limit", 1)
		}
		if m.Role == "trailer" {
			c.Count("trailers_delivered", 1)
		}
		if m.expanded != nil {
			c.Count("delivered_zstd_expanded", 1)
		}
		c.Distinct(fmt.Sprintf("%s|%s|%d|%v|delivered", m.Tag, m.Role, m.Plan, usePipe))
	}
	// consumption bound for the first over-long message of the script
	for _, m := range script {
		limit := m.Tag.MaxMessageSize()
		over := uint64(m.Len) > limit || m.Len+2 > MaxMessageLength
		if !over {
			continue
		}
		c.Count("oversized_sent", 1)
		c.Distinct(fmt.Sprintf("%s|%s|%d|%v|rejected", m.Tag, m.Role, m.Plan, usePipe))
		if m.startWrite == 0 && m != script[0] {
			break // never written: the peer had already closed
		}
		eff := limit
		if !knownTag(m.Tag) || limit == 0 {
			eff = MaxMessageLength // unknown tag: no per-tag limit, the connection maximum applies
			c.Count("unknown_tag_oversized", 1)
		}
		eff = min(eff, MaxMessageLength)
		consumed := p.read.Load() - m.startWrite - int64(c43HandshakeLen)
		bound := int64(eff) + int64(allocationStep) + 2*4096 + 14*int64(m.frames) + 2
		c.Max("max_consumed_beyond_limit_of_oversized", consumed-int64(eff))
		c.Eval(1)
		if consumed > bound {
			c.Violation("peer-consumes-unbounded", map[string]any{"conn": id, "pipe": usePipe, "tag": string(m.Tag), "wire_payload_len": m.Len, "limit": limit,
				"consumed_of_message": consumed, "bound": bound, "script": desc()})
		}
		break
	}
}

// The server-side read counter also saw the HTTP upgrade request; rc.written did not.
// Every handshake request has the same length (fixed-width connection ids).
var c43HandshakeLen = len("GET /gossip HTTP/1.1\r\nHost: verif\r\nUpgrade: websocket\r\nConnection: Upgrade\r\nSec-WebSocket-Version: 13\r\nSec-WebSocket-Key: ") +
	24 + len("\r\nX-Verif-Conn: ") + 8 + len("\r\n\r\n")

func c43ID(n int) string { return fmt.Sprintf("%08d", n) }

func c43WireLane(c *kit.Ctx, ra *ruleAcc) {
	ra.add("wire", "for every protocol tag (and unknown/deprecated tags) a fresh connection to a real wsPeer carries: a few in-limit messages, then a probe of payload size limit-1, limit, limit+1, 2*limit, or a total length of 6 MiB-1 / 6 MiB / 6 MiB+1, then an in-limit trailer; PP probes also as zstd frames expanding to the decompression bound, bound+1 and 6 MiB; AV/TX messages are re-sent as duplicates on the same and on a second connection sharing the incoming filter. Messages are cut into websocket frames by plan (whole, random cuts, 1-3 byte frames, a frame ending exactly at the limit, empty continuation frames and pings in between) and the byte stream into PRNG-sized transport writes, over TCP loopback or net.Pipe. distinct = (tag, role, fragmentation plan, transport, outcome)")
	c.Assume("unknown tags have no per-tag limit (MaxMessageSize()==0): they are never delivered, and their buffering is bounded by the connection maximum only — recorded, not judged")

	filter := makeMessageFilter(config.GetDefaultLocal().IncomingMessageFilterBucketCount, config.GetDefaultLocal().IncomingMessageFilterBucketSize)
	srv := newC43Server(c, filter, peerFeatureProposalCompression+","+peerFeatureVoteVpackCompression)
	defer srv.stop()
	col := startC43Collector(srv.readBuffer)
	seen := map[string]bool{}
	var seenMu sync.Mutex

	tags := append([]protocol.Tag{}, protocol.TagList...)
	tags = append(tags, "XX", protocol.PingTag, "\x00\x00")
	forwardable := []protocol.Tag{protocol.AgreementVoteTag, protocol.TxnTag, protocol.ProposalPayloadTag, protocol.StateProofSigTag, protocol.UniEnsBlockReqTag,
		protocol.NetPrioResponseTag, protocol.NetIDVerificationTag, protocol.VoteBundleTag}
	small := func(r *kit.Rand, role string) *sentMsg {
		tg := forwardable[r.Intn(len(forwardable))]
		n := avLen(tg, 1+r.Intn(int(min(tg.MaxMessageSize(), 900))))
		return &sentMsg{Tag: tg, payload: c43Payload(r, n), Len: n, Plan: r.Intn(fragKinds), Role: role}
	}
	type probe struct {
		name string
		size func(limit int) int
	}
	probes := []probe{
		{"limit-1", func(l int) int { return l - 1 }}, {"limit", func(l int) int { return l }}, {"limit+1", func(l int) int { return l + 1 }},
		{"2*limit", func(l int) int { return 2 * l }},
		{"total-6MiB-1", func(int) int { return MaxMessageLength - 3 }}, {"total-6MiB", func(int) int { return MaxMessageLength - 2 }}, {"total-6MiB+1", func(int) int { return MaxMessageLength - 1 }},
	}
	connN := 0
	rounds := c.N(1, 12)
	// Under the race detector the per-byte work (masking, filling, comparing) is ~30x slower; the race lane keeps
	// all tags and fragmentation plans but leaves out probes above 256 KiB and the zstd expansions (those run in
	// the plain lane). Case selection stays a function of (seed, lane) only.
	race := c.Lane == "race"
	for round := 0; round < rounds && c.Violations() < 20; round++ {
		for ti, tg := range tags {
			for pi, pb := range probes {
				r := c.Rand(11, uint64(round), uint64(ti), uint64(pi))
				limit := int(tg.MaxMessageSize())
				n := pb.size(limit)
				if n < 0 {
					continue
				}
				if limit == 0 && pi < 4 && pi != 1 { // unknown tag: "limit" is 0; use one small probe instead of four identical ones
					continue
				}
				if limit == 0 && pi == 1 {
					n = r.Range(1, 5000)
				}
				big := n > 1<<20
				if race && n > 1<<18 {
					continue
				}
				if big && c.Quick() && limit < 1<<20 && pi >= 4 && (ti+pi+round)%3 != 0 {
					continue // quick tier: the 6 MiB probes against small-limit tags are sampled, not all run
				}
				var script []*sentMsg
				for k := r.Intn(3); k > 0; k-- {
					script = append(script, small(r, "warmup"))
				}
				plan := r.Intn(fragKinds)
				if big && plan == fragTiny {
					plan = fragRandom
				}
				if pb.name == "limit+1" || pb.name == "limit" {
					plan = []int{fragAtLimit, fragTiny, fragRandom, fragWhole, fragWithEmpty}[(round+ti)%5]
					if big && plan == fragTiny {
						plan = fragAtLimit
					}
				}
				script = append(script, &sentMsg{Tag: tg, payload: c43Payload(r, n), Len: n, Plan: plan, Role: "probe:" + pb.name})
				script = append(script, small(r, "trailer"))
				if dedupSafeTag(tg) && n <= limit && n > 0 {
					// the same message again on this connection, and once more on a second one
					dup := *script[len(script)-2]
					dup.Role = "duplicate"
					dup.Plan = r.Intn(fragKinds)
					if big && dup.Plan == fragTiny {
						dup.Plan = fragWhole
					}
					script = append(script, &dup, small(r, "trailer"))
				}
				connN++
				usePipe := r.Chance(1, 3)
				runC43Script(c, srv, col, c43ID(connN), usePipe, r, script, seen, &seenMu)
				c.Count("connections", 1)
				if dedupSafeTag(tg) && n <= limit && n > 0 {
					d2 := *script[len(script)-2]
					d2.Role = "duplicate"
					connN++
					runC43Script(c, srv, col, c43ID(connN), !usePipe, r, []*sentMsg{small(r, "warmup"), &d2, small(r, "trailer")}, seen, &seenMu)
					c.Count("connections", 1)
					c.Count("duplicates_sent", 2)
				}
			}
		}
		// compressed proposals: expansion at the bound, one over, and far over
		for zi, zn := range []int{MaxDecompressedMessageSize, MaxDecompressedMessageSize + 1, MaxMessageLength, 64 << 20} {
			r := c.Rand(12, uint64(round), uint64(zi))
			if race || (zn > 16<<20 && c.Quick() && round > 0) {
				continue
			}
			comp := zstdZeros(c, zn)
			m := &sentMsg{Tag: protocol.ProposalPayloadTag, payload: comp, Len: len(comp), Plan: r.Intn(fragKinds), Role: fmt.Sprintf("zstd-expands-to-%d", zn)}
			if zn <= MaxDecompressedMessageSize {
				m.expanded = make([]byte, zn)
			} else {
				m.expanded = []byte("never-delivered") // anything delivered for it is a violation (no match)
			}
			connN++
			script := []*sentMsg{small(r, "warmup"), m, small(r, "trailer")}
			rc, p := srv.dial(c43ID(connN), r.Bool(), r)
			for _, sm := range script {
				wire, frames := rc.encodeMessage(append([]byte(sm.Tag), sm.payload...), sm.Plan, int(sm.Tag.MaxMessageSize()))
				sm.startWrite, sm.frames = rc.written, frames
				rc.write(wire)
			}
			rc.closeWrite()
			waitPeerStopped(c, p.wp)
			rc.conn.Close()
			<-rc.drained
			col.barrier(c, srv.readBuffer)
			got := col.take()
			for _, d := range got {
				c.Eval(1)
				if d.tag == protocol.ProposalPayloadTag && len(d.data) > MaxDecompressedMessageSize {
					c.Violation("decompressed-oversized-delivered", map[string]any{"wire_payload_len": len(comp), "expands_to": zn, "delivered_len": len(d.data), "bound": MaxDecompressedMessageSize})
				}
				if d.tag == protocol.ProposalPayloadTag && len(d.data) == zn && zn <= MaxDecompressedMessageSize && bytes.Equal(d.data, m.expanded) {
					c.Count("delivered_zstd_expanded", 1)
				}
			}
			if zn > MaxDecompressedMessageSize {
				c.Count("zstd_bombs_sent", 1)
			}
			c.Distinct(fmt.Sprintf("PP|zstd|%d|%d", zn, len(got)))
			c.Count("connections", 1)
		}
	}
	close(srv.readBuffer)
	select {
	case <-col.done:
	case <-time.After(c43Watchdog):
		c.Harness("collector did not stop")
	}
	if race { // fewer probes (see above): the race lane is there for the detector, the plain lane for coverage
		c.Require("connections", 25)
		c.Require("delivered", 40)
		c.Require("delivered_exactly_at_limit", 3)
		c.Require("trailers_delivered", 10)
		c.Require("oversized_sent", 10)
		c.Require("duplicates_sent", 2)
	} else {
		c.Require("connections", 60)
		c.Require("delivered", 100)
		c.Require("delivered_exactly_at_limit", 6)
		c.Require("trailers_delivered", 20)
		c.Require("oversized_sent", 25)
		c.Require("duplicates_sent", 8)
	}
	if !race {
		c.Require("delivered_zstd_expanded", 1)
		c.Require("zstd_bombs_sent", 2)
	}
}

// c43WireConcurrentLane: k connections deliver overlapping sets of AV/TX messages at the same time into one
// incoming filter and one readBuffer. Judged after all peers have stopped: nothing delivered twice, nothing
// delivered that was not sent, nothing oversized.
func c43WireConcurrentLane(c *kit.Ctx, ra *ruleAcc) {
	ra.add("wire-concurrent", "k=3..8 concurrent raw websocket connections (TCP and net.Pipe mixed) into real wsPeers sharing one incoming message filter (production size 5x512) send overlapping PRNG-chosen subsets of a pool of AV and TX messages (each message on 1..k connections, some twice on the same one), interleaved with other tags and an occasional over-limit message that ends that connection; the pool stays below (buckets-1)*bucketSize. distinct = (k, copies of a message sent, copies delivered)")
	ncases := c.N(12, 200)
	connN := 0
	for i := 0; i < ncases && c.Violations() < 20; i++ {
		r := c.Rand(13, uint64(i))
		filter := makeMessageFilter(5, 512)
		srv := newC43Server(c, filter, peerFeatureProposalCompression+","+peerFeatureVoteVpackCompression)
		col := startC43Collector(srv.readBuffer)
		k := r.Range(3, 8)
		pool := make([]*sentMsg, r.Range(20, 300))
		for j := range pool {
			tg := protocol.AgreementVoteTag
			if r.Bool() {
				tg = protocol.TxnTag
			}
			n := avLen(tg, r.Range(1, 900))
			if tg == protocol.TxnTag && r.Chance(1, 20) {
				n = r.Range(1229, 200000)
			}
			pool[j] = &sentMsg{Tag: tg, payload: c43Payload(r, n), Len: n, Role: fmt.Sprintf("pool-%d", j)}
		}
		sentCopies := make([]int, len(pool))
		scripts := make([][]*sentMsg, k)
		for ci := range scripts {
			for j, pm := range pool {
				if r.Chance(2, 5) {
					cp := *pm
					cp.Plan = r.Intn(fragKinds)
					scripts[ci] = append(scripts[ci], &cp)
					sentCopies[j]++
					if r.Chance(1, 10) {
						cp2 := cp
						scripts[ci] = append(scripts[ci], &cp2)
						sentCopies[j]++
					}
				}
				if r.Chance(1, 30) {
					n := r.Range(1, 500)
					scripts[ci] = append(scripts[ci], &sentMsg{Tag: protocol.UniEnsBlockReqTag, payload: c43Payload(r, min(n, 67)), Len: min(n, 67), Plan: r.Intn(fragKinds), Role: "other"})
				}
			}
			// shuffle the script
			pm := r.Perm(len(scripts[ci]))
			sh := make([]*sentMsg, len(pm))
			for a, b := range pm {
				sh[a] = scripts[ci][b]
			}
			scripts[ci] = sh
			if r.Chance(1, 4) && len(sh) > 2 {
				// an over-limit vote somewhere: the connection ends there
				at := r.Intn(len(sh))
				n := 1229 + r.Intn(3000)
				over := &sentMsg{Tag: protocol.AgreementVoteTag, payload: c43Payload(r, n), Len: n, Plan: r.Intn(fragKinds), Role: "over-limit"}
				scripts[ci] = append(sh[:at:at], append([]*sentMsg{over}, sh[at:]...)...)
			}
		}
		type conn struct {
			rc *rawClient
			p  *c43Peer
		}
		conns := make([]conn, k)
		for ci := range conns {
			connN++
			rc, p := srv.dial(c43ID(connN), r.Chance(1, 3), c.Rand(14, uint64(i), uint64(ci)))
			conns[ci] = conn{rc, p}
		}
		var wg sync.WaitGroup
		for ci := range conns {
			wg.Add(1)
			go func(ci int) {
				defer wg.Done()
				rc := conns[ci].rc
				for _, m := range scripts[ci] {
					wire, frames := rc.encodeMessage(append([]byte(m.Tag), m.payload...), m.Plan, int(m.Tag.MaxMessageSize()))
					m.frames = frames
					rc.write(wire)
					if rc.dead {
						break
					}
				}
				rc.closeWrite()
			}(ci)
		}
		wg.Wait()
		for ci := range conns {
			waitPeerStopped(c, conns[ci].p.wp)
			conns[ci].rc.conn.Close()
			<-conns[ci].rc.drained
		}
		col.barrier(c, srv.readBuffer)
		got := col.take()
		close(srv.readBuffer)
		<-col.done
		srv.stop()

		index := map[string]int{}
		for j, pm := range pool {
			index[string(pm.Tag)+string(pm.payload)] = j
		}
		deliveredCopies := make([]int, len(pool))
		for _, d := range got {
			c.Eval(1)
			if uint64(len(d.data)) > d.tag.MaxMessageSize() {
				c.Violation("oversized-delivered", map[string]any{"case": i, "tag": string(d.tag), "delivered_len": len(d.data), "limit": d.tag.MaxMessageSize()})
				continue
			}
			if d.tag == protocol.UniEnsBlockReqTag {
				continue
			}
			j, ok := index[string(d.tag)+string(d.data)]
			if !ok {
				c.Violation("delivered-message-not-sent", map[string]any{"case": i, "delivered_tag": string(d.tag), "delivered_len": len(d.data), "delivered_head_hex": fmt.Sprintf("%x", d.data[:min(len(d.data), 48)])})
				continue
			}
			deliveredCopies[j]++
		}
		for j := range pool {
			if deliveredCopies[j] > 1 {
				c.Violation("duplicate-delivered", map[string]any{"case": i, "connections": k, "pool_size": len(pool), "tag": string(pool[j].Tag), "payload_len": pool[j].Len,
					"copies_sent": sentCopies[j], "copies_delivered": deliveredCopies[j], "filter": "5 buckets x 512"})
			}
			if sentCopies[j] > 1 && deliveredCopies[j] == 1 {
				c.Count("messages_sent_repeatedly_delivered_once", 1)
			}
			if sentCopies[j] > 0 {
				c.Distinct(fmt.Sprintf("%d|%d|%d", k, sentCopies[j], deliveredCopies[j]))
			}
		}
		c.Count("concurrent_cases", 1)
		c.Count("deliveries", len(got))
		if i < 2 {
			c.Sample(map[string]any{"case": i, "connections": k, "pool": len(pool), "deliveries": len(got)})
		}
	}
	c.Require("concurrent_cases", 5)
	c.Require("messages_sent_repeatedly_delivered_once", 200)
}
