package vpack

// C42: vote compression is lossless and stays in sync.
//
// Oracle (roundtrip part): for every vote v of a sequence — v being the canonical msgpack encoding of an
// agreement.UnauthenticatedVote, which is what agreement hands to Broadcast/Relay (it always re-encodes with
// protocol.Encode) — the stateless layer reproduces v, the stateful pair on top of it reproduces v, and after
// every message the decoder's dynamicTableState equals the encoder's (all fields: the struct is shared by both
// directions and has no direction-specific member). The oracle is NOT applied to non-canonical msgpack (permuted
// or duplicated map keys, non-minimal integers): honest senders never produce those; what the encoder does with
// them is recorded as an observation by the "noncanonical" lane.
//
// Oracle (malformed part): no input makes encoder or decoder panic; when a mutated frame is decoded
// successfully through both layers, the produced msgpack must be accepted by a fresh stateless encoder and
// round-trip through it (i.e. it is a vote the encoder could have been given).

import (
	"bytes"
	"encoding/binary"
	"encoding/hex"
	"fmt"
	"math"
	"reflect"
	"slices"
	"testing"

	"github.com/algorand/go-algorand/agreement"
	"github.com/algorand/go-algorand/crypto"
	"github.com/algorand/go-algorand/data/basics"
	"github.com/algorand/go-algorand/protocol"
	"verif.local/kit"
)

// ---------------------------------------------------------------------------------------------
// canonical vote builder (independent of the code under test; cross-checked against protocol.Encode)

type vf struct {
	pf                    [80]byte
	per, oper, rnd, step  uint64
	dig, encdig, oprop    [32]byte
	snd, p, p2            [32]byte
	p1s, p2s, s           [64]byte
}

func mpUint(b []byte, v uint64) []byte {
	switch {
	case v <= 0x7f:
		return append(b, byte(v))
	case v <= 0xff:
		return append(b, 0xcc, byte(v))
	case v <= 0xffff:
		return binary.BigEndian.AppendUint16(append(b, 0xcd), uint16(v))
	case v <= 0xffffffff:
		return binary.BigEndian.AppendUint32(append(b, 0xce), uint32(v))
	}
	return binary.BigEndian.AppendUint64(append(b, 0xcf), v)
}

func mpStr(b []byte, s string) []byte { return append(append(b, 0xa0|byte(len(s))), s...) }
func mpBin(b []byte, d []byte) []byte  { return append(append(b, 0xc4, byte(len(d))), d...) }
func zero(b []byte) bool {
	for _, x := range b {
		if x != 0 {
			return false
		}
	}
	return true
}

// canon is the msgpack encoding go-algorand's codec produces for the vote (sorted keys, omitempty on
// unauthenticatedVote / rawVote / proposalValue / UnauthenticatedCredential, no omitempty on OneTimeSignature,
// minimal integers).
func (v *vf) canon() []byte {
	var prop []byte
	np := 0
	if !zero(v.dig[:]) {
		prop = mpBin(mpStr(prop, "dig"), v.dig[:])
		np++
	}
	if !zero(v.encdig[:]) {
		prop = mpBin(mpStr(prop, "encdig"), v.encdig[:])
		np++
	}
	if v.oper != 0 {
		prop = mpUint(mpStr(prop, "oper"), v.oper)
		np++
	}
	if !zero(v.oprop[:]) {
		prop = mpBin(mpStr(prop, "oprop"), v.oprop[:])
		np++
	}
	var r []byte
	nr := 0
	if v.per != 0 {
		r = mpUint(mpStr(r, "per"), v.per)
		nr++
	}
	if np > 0 {
		r = append(mpStr(r, "prop"), 0x80|byte(np))
		r = append(r, prop...)
		nr++
	}
	if v.rnd != 0 {
		r = mpUint(mpStr(r, "rnd"), v.rnd)
		nr++
	}
	if !zero(v.snd[:]) {
		r = mpBin(mpStr(r, "snd"), v.snd[:])
		nr++
	}
	if v.step != 0 {
		r = mpUint(mpStr(r, "step"), v.step)
		nr++
	}
	sigZero := zero(v.p[:]) && zero(v.p1s[:]) && zero(v.p2[:]) && zero(v.p2s[:]) && zero(v.s[:])
	top := 0
	var out []byte
	if !zero(v.pf[:]) {
		top++
	}
	if nr > 0 {
		top++
	}
	if !sigZero {
		top++
	}
	out = append(out, 0x80|byte(top))
	if !zero(v.pf[:]) {
		out = append(mpStr(out, "cred"), 0x81)
		out = mpBin(mpStr(out, "pf"), v.pf[:])
	}
	if nr > 0 {
		out = append(mpStr(out, "r"), 0x80|byte(nr))
		out = append(out, r...)
	}
	if !sigZero {
		out = append(mpStr(out, "sig"), 0x86)
		out = mpBin(mpStr(out, "p"), v.p[:])
		out = mpBin(mpStr(out, "p1s"), v.p1s[:])
		out = mpBin(mpStr(out, "p2"), v.p2[:])
		out = mpBin(mpStr(out, "p2s"), v.p2s[:])
		out = mpBin(mpStr(out, "ps"), make([]byte, 64))
		out = mpBin(mpStr(out, "s"), v.s[:])
	}
	return out
}

// expectCompressible: the stateless encoder needs all 8 required values; the codec omits zero ones.
func (v *vf) expectCompressible() bool {
	return !zero(v.pf[:]) && v.rnd != 0 && !zero(v.snd[:])
}

func setU(x any, field string, val uint64) {
	reflect.ValueOf(x).Elem().FieldByName(field).SetUint(val)
}

func (v *vf) toStruct() *agreement.UnauthenticatedVote {
	uv := &agreement.UnauthenticatedVote{}
	uv.R.Sender = basics.Address(v.snd)
	uv.R.Round = basics.Round(v.rnd)
	setU(&uv.R, "Period", v.per)
	setU(&uv.R, "Step", v.step)
	setU(&uv.R.Proposal, "OriginalPeriod", v.oper)
	uv.R.Proposal.OriginalProposer = basics.Address(v.oprop)
	uv.R.Proposal.BlockDigest = crypto.Digest(v.dig)
	uv.R.Proposal.EncodingDigest = crypto.Digest(v.encdig)
	copy(uv.Cred.Proof[:], v.pf[:])
	copy(uv.Sig.PK[:], v.p[:])
	copy(uv.Sig.PK1Sig[:], v.p1s[:])
	copy(uv.Sig.PK2[:], v.p2[:])
	copy(uv.Sig.PK2Sig[:], v.p2s[:])
	copy(uv.Sig.Sig[:], v.s[:])
	return uv
}

// isCanonical: x is exactly what the codec would emit for the vote it decodes to.
func isCanonical(x []byte) bool {
	var uv agreement.UnauthenticatedVote
	if err := protocol.Decode(x, &uv); err != nil {
		return false
	}
	return bytes.Equal(protocol.Encode(&uv), x)
}

// ---------------------------------------------------------------------------------------------
// state comparison

func lruEq[K comparable](a, b *lruTable[K]) bool {
	return a.numBuckets == b.numBuckets && slices.Equal(a.buckets, b.buckets) && bytes.Equal(a.mru, b.mru)
}

func stateEqual(a, b *dynamicTableState) bool {
	return lruEq(a.sndTable, b.sndTable) && lruEq(a.pkTable, b.pkTable) && lruEq(a.pk2Table, b.pk2Table) &&
		a.proposalWindow == b.proposalWindow && a.lastRnd == b.lastRnd
}

func lruDiff[K comparable](name string, a, b *lruTable[K]) string {
	if a.numBuckets != b.numBuckets {
		return fmt.Sprintf("%s.numBuckets enc=%d dec=%d", name, a.numBuckets, b.numBuckets)
	}
	for i := range a.buckets {
		if a.buckets[i] != b.buckets[i] {
			return fmt.Sprintf("%s.bucket[%d] enc=%x dec=%x", name, i, fmt.Sprint(a.buckets[i]), fmt.Sprint(b.buckets[i]))
		}
	}
	for i := range a.mru {
		if a.mru[i] != b.mru[i] {
			return fmt.Sprintf("%s.mru[byte %d] enc=%08b dec=%08b", name, i, a.mru[i], b.mru[i])
		}
	}
	return ""
}

func stateDiff(a, b *dynamicTableState) string {
	for _, d := range []string{lruDiff("sndTable", a.sndTable, b.sndTable), lruDiff("pkTable", a.pkTable, b.pkTable), lruDiff("pk2Table", a.pk2Table, b.pk2Table)} {
		if d != "" {
			return d
		}
	}
	if a.proposalWindow != b.proposalWindow {
		return fmt.Sprintf("proposalWindow enc(head=%d,size=%d) dec(head=%d,size=%d) entries-equal=%v", a.proposalWindow.head, a.proposalWindow.size,
			b.proposalWindow.head, b.proposalWindow.size, a.proposalWindow.entries == b.proposalWindow.entries)
	}
	if a.lastRnd != b.lastRnd {
		return fmt.Sprintf("lastRnd enc=%d dec=%d", a.lastRnd, b.lastRnd)
	}
	return ""
}

func cloneLRU[K comparable](t *lruTable[K]) *lruTable[K] {
	return &lruTable[K]{numBuckets: t.numBuckets, buckets: slices.Clone(t.buckets), mru: slices.Clone(t.mru)}
}

func cloneState(s *dynamicTableState) dynamicTableState {
	return dynamicTableState{sndTable: cloneLRU(s.sndTable), pkTable: cloneLRU(s.pkTable), pk2Table: cloneLRU(s.pk2Table),
		proposalWindow: s.proposalWindow, lastRnd: s.lastRnd}
}

// restoreState overwrites dst (same table size) with src without allocating.
func restoreState(dst, src *dynamicTableState) {
	copy(dst.sndTable.buckets, src.sndTable.buckets)
	copy(dst.sndTable.mru, src.sndTable.mru)
	copy(dst.pkTable.buckets, src.pkTable.buckets)
	copy(dst.pkTable.mru, src.pkTable.mru)
	copy(dst.pk2Table.buckets, src.pk2Table.buckets)
	copy(dst.pk2Table.mru, src.pk2Table.mru)
	dst.proposalWindow = src.proposalWindow
	dst.lastRnd = src.lastRnd
}

var fpOpt = kit.FPOptions{NilEqualsEmpty: true}

// ---------------------------------------------------------------------------------------------
// the monitored pair

type pair struct {
	size   uint
	enc    *StatefulEncoder
	dec    *StatefulDecoder
	sl     *StatelessEncoder
	sd     *StatelessDecoder
	bufC   []byte // reused destination buffers (the documented dst[:0] reuse pattern)
	bufS   []byte
	bufD   []byte
	reuse  bool
	nmsg   int
	fpEach int // fingerprint with kit.Fingerprint every fpEach messages (1 = every message)
}

func newPair(size uint, reuse bool) (*pair, error) {
	e, err := NewStatefulEncoder(size)
	if err != nil {
		return nil, err
	}
	d, err := NewStatefulDecoder(size)
	if err != nil {
		return nil, err
	}
	p := &pair{size: size, enc: e, dec: d, sl: NewStatelessEncoder(), sd: NewStatelessDecoder(), reuse: reuse, fpEach: 1}
	if size > 64 {
		p.fpEach = 97
	}
	return p, nil
}

type stepStats struct {
	compressed     bool
	rawLen, c1, c2 int
	refs           byte // hdr1 of the stateful frame
	mask           byte // hdr0 (stateless mask)
}

// step sends one vote through stateless+stateful encoder and back. Returns a finding key ("" = fine) and message.
func (p *pair) step(v []byte, canonicalExpectCompressible bool) (string, string, stepStats) {
	var st stepStats
	st.rawLen = len(v)
	var dstC, dstS, dstD []byte
	if p.reuse {
		dstC, dstS, dstD = p.bufC[:0], p.bufS[:0], p.bufD[:0]
	}
	c1, err := p.sl.CompressVote(dstC, v)
	if err != nil {
		if canonicalExpectCompressible {
			// falling back to the raw vote is lossless, so this is not a property violation; but it would make the
			// run vacuous, which the roundtrip counters guard.
			return "", "stateless encoder rejected: " + err.Error(), st
		}
		return "", "", st
	}
	st.compressed = true
	st.c1 = len(c1)
	st.mask = c1[0]
	m0, err := p.sd.DecompressVote(nil, c1)
	if err != nil {
		return "stateless-decoder-rejects-encoder-output", err.Error(), st
	}
	if !bytes.Equal(m0, v) {
		return "stateless-roundtrip-bytes", fmt.Sprintf("stateless decode %x != vote %x", m0, v), st
	}
	c1copy := slices.Clone(c1)
	c2, err := p.enc.Compress(dstS, c1)
	if err != nil {
		return "", "stateful encoder error (codec would abort): " + err.Error(), st
	}
	if !bytes.Equal(c1, c1copy) {
		return "encoder-modifies-input", fmt.Sprintf("stateless frame changed by Compress: %x -> %x", c1copy, c1), st
	}
	st.c2 = len(c2)
	st.refs = c2[1]
	c2copy := slices.Clone(c2)
	d1, err := p.dec.Decompress(dstD, c2)
	if err != nil {
		return "decoder-rejects-encoder-output", fmt.Sprintf("Decompress(%x): %v", c2copy, err), st
	}
	m1, err := p.sd.DecompressVote(nil, d1)
	if err != nil {
		return "decoder-output-not-stateless-frame", fmt.Sprintf("DecompressVote(%x): %v", d1, err), st
	}
	if !bytes.Equal(m1, v) {
		return "roundtrip-bytes", fmt.Sprintf("decoded %x != sent %x (stateful frame %x)", m1, v, c2copy), st
	}
	if c1copy[1] == 0 && !bytes.Equal(d1, c1copy) {
		return "roundtrip-bytes", fmt.Sprintf("stateful decode %x != stateless frame %x", d1, c1copy), st
	}
	if p.reuse {
		p.bufC, p.bufS, p.bufD = c1, c2, d1
	}
	p.nmsg++
	eq := stateEqual(&p.enc.dynamicTableState, &p.dec.dynamicTableState)
	if !eq {
		return "table-desync", stateDiff(&p.enc.dynamicTableState, &p.dec.dynamicTableState), st
	}
	if p.nmsg%p.fpEach == 0 {
		if k, m := p.fingerprintCheck(); k != "" {
			return k, m, st
		}
	}
	return "", "", st
}

func (p *pair) fingerprintCheck() (string, string) {
	fe := kit.Fingerprint(&p.enc.dynamicTableState, fpOpt)
	fd := kit.Fingerprint(&p.dec.dynamicTableState, fpOpt)
	if fe != fd {
		return "table-desync", fmt.Sprintf("fingerprint enc=%s dec=%s; %s", fe, fd, stateDiff(&p.enc.dynamicTableState, &p.dec.dynamicTableState))
	}
	return "", ""
}

// replaySeq re-runs a vote sequence on a fresh pair; used by the shrinker.
func replaySeq(size uint, reuse bool, votes [][]byte) (fk string) {
	defer func() {
		if r := recover(); r != nil {
			fk = "panic:roundtrip"
		}
	}()
	p, err := newPair(size, reuse)
	if err != nil {
		return ""
	}
	for _, v := range votes {
		if k, _, _ := p.step(v, false); k != "" {
			return k
		}
	}
	k, _ := p.fingerprintCheck()
	return k
}

func hexes(vs [][]byte) []string {
	out := make([]string, len(vs))
	for i, v := range vs {
		out[i] = hex.EncodeToString(v)
	}
	return out
}

// ---------------------------------------------------------------------------------------------
// synthetic worlds

var tableSizes = []uint{16, 32, 64, 128, 256, 512, 1024, 2048}

var boundaryRounds = []uint64{1, 2, 0x7f, 0x80, 0xff, 0x100, 0xffff, 0x10000, 0xffffffff, 0x100000000, math.MaxUint64 - 1, math.MaxUint64}

type world struct {
	r        *kit.Rand
	size     uint
	nb       uint64 // buckets per table
	hot      []uint64
	senders  [][32]byte
	pk2s     [][96]byte // per sender current batch key (p2 | p2s)
	pks      [][96]byte // per sender current round key (p | p1s)
	props    []vf       // proposal values (only prop fields used)
	rnd      uint64
	per      uint64
	collide  bool
}

// forceBucket rewrites the first 8 bytes so that the table hash of the value lands in bucket b.
func forceSndBucket(a *[32]byte, nb, b uint64) {
	h := binary.LittleEndian.Uint64(a[:8]) ^ binary.LittleEndian.Uint64(a[8:16]) ^ binary.LittleEndian.Uint64(a[16:24]) ^ binary.LittleEndian.Uint64(a[24:])
	delta := (h ^ b) & (nb - 1)
	binary.LittleEndian.PutUint64(a[:8], binary.LittleEndian.Uint64(a[:8])^delta)
}

func forcePkBucket(a *[96]byte, nb, b uint64) {
	h := binary.LittleEndian.Uint64(a[:8]) ^ binary.LittleEndian.Uint64(a[32:40])
	delta := (h ^ b) & (nb - 1)
	binary.LittleEndian.PutUint64(a[:8], binary.LittleEndian.Uint64(a[:8])^delta)
}

func (w *world) freshPk(i int) [96]byte {
	var k [96]byte
	w.r.Fill(k[:])
	if w.collide {
		forcePkBucket(&k, w.nb, w.hot[w.r.Intn(len(w.hot))])
	}
	return k
}

func newWorld(r *kit.Rand, size uint) *world {
	w := &world{r: r, size: size, nb: uint64(size / 2)}
	w.collide = r.Chance(2, 3)
	nh := r.Range(1, 3)
	for i := 0; i < nh; i++ {
		w.hot = append(w.hot, r.Uint64n(w.nb))
	}
	// number of senders relative to the table: from "fits easily" to "4x over capacity"
	var ns int
	switch r.Intn(4) {
	case 0:
		ns = r.Range(1, 6)
	case 1:
		ns = r.Range(2, int(size))
	case 2:
		ns = r.Range(int(size), int(2*size))
	default:
		ns = r.Range(3, 9) // with collide: > 2 per bucket, constant eviction
	}
	if ns > 3000 {
		ns = 3000
	}
	for i := 0; i < ns; i++ {
		var a [32]byte
		r.Fill(a[:])
		if w.collide {
			forceSndBucket(&a, w.nb, w.hot[r.Intn(len(w.hot))])
		}
		w.senders = append(w.senders, a)
		w.pk2s = append(w.pk2s, w.freshPk(i))
		w.pks = append(w.pks, w.freshPk(i))
	}
	if r.Chance(1, 8) {
		// the all-zero key pair: equal to the content of an empty slot
		w.pks[0] = [96]byte{}
	}
	if r.Chance(1, 8) {
		w.pk2s[r.Intn(ns)] = [96]byte{}
	}
	np := r.Range(1, 12) // > 7 wraps the proposal window
	for i := 0; i < np; i++ {
		w.props = append(w.props, w.randProp())
	}
	w.rnd = w.pickRound()
	return w
}

func (w *world) randProp() vf {
	var p vf
	r := w.r
	switch r.Intn(8) {
	case 0: // bottom
	case 1: // partial
		if r.Bool() {
			r.Fill(p.dig[:])
		}
		if r.Bool() {
			r.Fill(p.encdig[:])
		}
		if r.Bool() {
			r.Fill(p.oprop[:])
		}
		if r.Bool() {
			p.oper = r.Boundary64()
		}
	default:
		r.Fill(p.dig[:])
		r.Fill(p.encdig[:])
		r.Fill(p.oprop[:])
		if r.Chance(1, 3) {
			p.oper = uint64(r.Intn(4))
			if r.Chance(1, 4) {
				p.oper = r.Boundary64()
			}
		}
	}
	return p
}

func (w *world) pickRound() uint64 {
	r := w.r
	switch r.Intn(4) {
	case 0:
		return boundaryRounds[r.Intn(len(boundaryRounds))]
	case 1:
		return r.Boundary64()
	default:
		return uint64(r.Range(1, 50_000_000))
	}
}

func (w *world) next() *vf {
	r := w.r
	// round movement: mostly same, +1, -1; sometimes jumps and boundaries (0 = omitted => uncompressible)
	zeroRnd := false
	switch r.Pick([]int{50, 20, 8, 6, 4, 1}) {
	case 1:
		w.rnd++ // wraps to 0 at MaxUint64 deliberately
		w.rotateRoundKeys()
	case 2:
		w.rnd--
	case 3:
		w.rnd = w.pickRound()
		w.rotateRoundKeys()
	case 4:
		w.rnd = boundaryRounds[r.Intn(len(boundaryRounds))]
	case 5:
		zeroRnd = true // one-off: rnd omitted by the codec, vote is uncompressible
	}
	if r.Chance(1, 20) {
		w.per = uint64(r.Intn(3))
		if r.Chance(1, 6) {
			w.per = r.Boundary64()
		}
	}
	v := &vf{}
	i := r.Intn(len(w.senders))
	if r.Chance(1, 3) {
		i = r.Intn(min(len(w.senders), 4)) // favourite senders: table hits
	}
	v.snd = w.senders[i]
	v.rnd, v.per = w.rnd, w.per
	if zeroRnd {
		v.rnd = 0
	}
	v.step = uint64(r.Pick([]int{2, 10, 10, 3, 2, 1}))
	if v.step == 5 {
		v.step = r.Boundary64()
	}
	pv := w.props[r.Intn(len(w.props))]
	if r.Chance(1, 40) {
		pv = w.randProp() // a one-off proposal value
	}
	if r.Chance(1, 60) {
		w.props[r.Intn(len(w.props))] = w.randProp()
	}
	v.dig, v.encdig, v.oprop, v.oper = pv.dig, pv.encdig, pv.oprop, pv.oper
	copy(v.p[:], w.pks[i][:32])
	copy(v.p1s[:], w.pks[i][32:])
	copy(v.p2[:], w.pk2s[i][:32])
	copy(v.p2s[:], w.pk2s[i][32:])
	if r.Chance(1, 30) {
		w.pk2s[i] = w.freshPk(i) // batch change
	}
	if r.Chance(1, 25) {
		k := w.freshPk(i) // equivocating / unknown key
		copy(v.p[:], k[:32])
		copy(v.p1s[:], k[32:])
	}
	r.Fill(v.pf[:])
	r.Fill(v.s[:])
	if r.Chance(1, 200) {
		v.pf = [80]byte{} // omitted cred: uncompressible, falls back to raw
	}
	if r.Chance(1, 200) {
		v.snd = [32]byte{}
	}
	return v
}

func (w *world) rotateRoundKeys() {
	// a new round: every sender uses a new ephemeral key (p,p1s); a fraction at a time so that tables see both
	n := len(w.pks)
	k := w.r.Range(0, min(n, 40))
	for j := 0; j < k; j++ {
		i := w.r.Intn(n)
		w.pks[i] = w.freshPk(i)
	}
}

// ---------------------------------------------------------------------------------------------
// real signed votes

type detRNG struct{ r *kit.Rand }

func (d detRNG) RandBytes(b []byte) { d.r.Fill(b) }

type participant struct {
	addr basics.Address
	ots  *crypto.OneTimeSignatureSecrets
	vrf  crypto.VrfPrivkey
}

const realDilution = 8

// realVotes simulates nrounds rounds of k participants voting (propose/soft/cert, occasionally next-votes and a
// second period with another proposal), with real VRF proofs and real one-time signatures.
func realVotes(c *kit.Ctx, r *kit.Rand, k, nrounds int, start uint64) [][]byte {
	ps := make([]*participant, k)
	firstBatch := start / realDilution
	for i := range ps {
		p := &participant{}
		r.Fill(p.addr[:])
		p.ots = crypto.GenerateOneTimeSignatureSecretsRNG(firstBatch, uint64(nrounds/realDilution+2), detRNG{r})
		var seed [32]byte
		r.Fill(seed[:])
		_, p.vrf = crypto.VrfKeygenFromSeed(seed)
		ps[i] = p
	}
	var out [][]byte
	for rd := start; rd < start+uint64(nrounds); rd++ {
		id := basics.OneTimeIDForRound(basics.Round(rd), realDilution)
		for _, p := range ps {
			p.ots.DeleteBeforeFineGrained(id, realDilution)
		}
		periods := 1
		if r.Chance(1, 5) {
			periods = 2
		}
		for per := 0; per < periods; per++ {
			var prop vf
			r.Fill(prop.dig[:])
			r.Fill(prop.encdig[:])
			prop.oprop = [32]byte(ps[r.Intn(k)].addr)
			prop.oper = uint64(per) * uint64(r.Intn(2))
			steps := []uint64{0, 1, 2}
			if per+1 < periods {
				steps = []uint64{0, 1, 3, 4} // no cert: next-votes instead
			}
			for _, st := range steps {
				for pi, p := range ps {
					if st == 0 && pi >= 3 {
						continue // few proposers
					}
					if r.Chance(1, 6) {
						continue // not selected
					}
					v := &vf{rnd: rd, per: uint64(per), step: st, snd: [32]byte(p.addr)}
					if !(st >= 3 && r.Chance(1, 3)) { // some next-votes are for bottom
						v.dig, v.encdig, v.oprop, v.oper = prop.dig, prop.encdig, prop.oprop, prop.oper
					}
					uv := v.toStruct()
					sig := p.ots.Sign(id, uv.R)
					if sig == (crypto.OneTimeSignature{}) {
						c.Harness("one-time signing failed for round %d", rd)
					}
					pf, ok := p.vrf.Prove(uv.R)
					if !ok {
						c.Harness("vrf prove failed")
					}
					uv.Sig = sig
					uv.Cred.Proof = pf
					out = append(out, protocol.Encode(uv))
				}
			}
		}
	}
	return out
}

// ---------------------------------------------------------------------------------------------

func TestVerifC42Roundtrip(t *testing.T) {
	c := kit.Start(t, "C42", "roundtrip")
	defer c.Finish()
	c.Rule("vote sequences sent through StatelessEncoder+StatefulEncoder and back through StatefulDecoder+StatelessDecoder, for every negotiable table size (16..2048): (a) synthetic canonical votes from PRNG worlds whose senders and key pairs are forced into 1-3 LRU buckets (constant eviction), with sender counts from below to 4x over table capacity, 1-12 live proposal values (wrapping the 7-slot window), round walks with +1/-1/same/jumps and varuint-width boundaries, all-zero key pairs (equal to empty slots), uncompressible votes interleaved; (b) real votes: k participants with real one-time-signature key hierarchies and VRF proofs voting over consecutive rounds/periods/steps. After every message: bytes equal, encoder state == decoder state (field-wise every message, kit.Fingerprint every message for tables <= 64 and every 97th otherwise and at the end). distinct = (table size, hdr1 reference pattern of the stateful frame, stateless mask)")
	c.Assume("the votes handed to the network layer are canonical msgpack (agreement re-encodes every vote with protocol.Encode before Broadcast/Relay); the harness's canonical builder is cross-checked against protocol.Encode in this run")

	// self-check of the canonical builder against the real codec
	{
		r := c.Rand(1, 0)
		w := newWorld(r, 64)
		for i := 0; i < 400; i++ {
			v := w.next()
			if i%7 == 0 {
				v.rnd = 0
			}
			want := protocol.Encode(v.toStruct())
			if got := v.canon(); !bytes.Equal(got, want) {
				c.Harness("canonical builder disagrees with protocol.Encode: %x vs %x", got, want)
			}
		}
	}

	runSeq := func(caseID string, size uint, reuse bool, votes [][]byte, expectCompressible []bool) {
		var fk, msg string
		at := -1
		panicked := c.Guard("roundtrip", map[string]any{"case": caseID, "table_size": size}, func() {
			p, err := newPair(size, reuse)
			if err != nil {
				c.Harness("newPair(%d): %v", size, err)
			}
			for i, v := range votes {
				k, m, st := p.step(v, expectCompressible == nil || expectCompressible[i])
				c.Count("votes", 1)
				if k != "" {
					fk, msg, at = k, m, i
					return
				}
				if m != "" {
					c.Count("fallback_or_abort", 1)
					if st.compressed {
						// stateful encoder refused a frame produced by the stateless encoder: the codec would abort;
						// model the abort by starting over with a fresh pair
						c.Observation("case %s vote %d: %s", caseID, i, m)
						p, _ = newPair(size, reuse)
					} else if expectCompressible == nil || expectCompressible[i] {
						c.Observation("case %s vote %d: %s", caseID, i, m)
					}
					continue
				}
				if !st.compressed {
					c.Count("uncompressible_votes", 1)
					continue
				}
				c.Eval(2) // bytes + state
				c.Count("stateful_roundtrips", 1)
				c.Count("bytes_raw", st.rawLen)
				c.Count("bytes_stateless", st.c1)
				c.Count("bytes_stateful", st.c2)
				if st.refs&hdr1SndRef != 0 {
					c.Count("snd_table_hits", 1)
				}
				if st.refs&hdr1PkRef != 0 {
					c.Count("pk_table_hits", 1)
				}
				if st.refs&hdr1Pk2Ref != 0 {
					c.Count("pk2_table_hits", 1)
				}
				if st.refs&hdr1PropMask != 0 {
					c.Count("proposal_window_hits", 1)
				}
				if st.refs&hdr1RndMask != 0 {
					c.Count("round_delta_encoded", 1)
				}
				c.Distinct(fmt.Sprintf("%d|%02x|%02x", size, st.refs, st.mask))
			}
			if k, m := p.fingerprintCheck(); k != "" {
				fk, msg, at = k, m, len(votes)
			}
			c.Eval(1)
			// how much eviction happened: count table slots in use
			c.Max("max_messages_in_sequence", int64(len(votes)))
		})
		if panicked || fk == "" {
			return
		}
		upto := votes[:min(at+1, len(votes))]
		small := kit.Shrink(upto, 400, func(vs [][]byte) bool { return replaySeq(size, reuse, vs) == fk })
		c.Violation(fk, map[string]any{"case": caseID, "table_size": size, "buffer_reuse": reuse, "failed_at_vote": at, "message": msg,
			"minimised_votes_hex": hexes(small), "sequence_len": len(votes)})
	}

	// (a) synthetic worlds
	ncases := c.N(120, 1200)
	for i := 0; i < ncases && c.Violations() < 20; i++ {
		r := c.Rand(2, uint64(i))
		size := tableSizes[i%len(tableSizes)]
		w := newWorld(r, size)
		n := r.Range(50, c.N(700, 1500))
		if size >= 512 && r.Chance(1, 2) {
			n = r.Range(2*int(size), 4*int(size)) // enough traffic to fill and churn the big tables
		}
		votes := make([][]byte, n)
		exp := make([]bool, n)
		for j := range votes {
			v := w.next()
			votes[j] = v.canon()
			exp[j] = v.expectCompressible()
		}
		if i < 2 {
			c.Sample(map[string]any{"case": i, "kind": "synthetic", "table_size": size, "senders": len(w.senders), "proposals": len(w.props), "forced_buckets": w.hot, "collide": w.collide, "votes": n, "first_vote_hex": hex.EncodeToString(votes[0])})
		}
		runSeq(fmt.Sprintf("syn-%d", i), size, r.Bool(), votes, exp)
		c.Count("synthetic_sequences", 1)
	}

	// (b) real signed votes
	nreal := c.N(6, 60)
	for i := 0; i < nreal && c.Violations() < 20; i++ {
		r := c.Rand(3, uint64(i))
		size := tableSizes[r.Intn(len(tableSizes))]
		k := r.Range(3, c.N(40, 120))
		nr := r.Range(3, c.N(20, 40))
		start := uint64(r.Range(1, 1_000_000))
		if r.Chance(1, 4) {
			start = []uint64{0xfe, 0xfffd, 0xfffffffc}[r.Intn(3)] // cross a varuint width boundary
		}
		votes := realVotes(c, r, k, nr, start)
		for _, v := range votes[:min(len(votes), 20)] {
			if !isCanonical(v) {
				c.Harness("real vote is not canonical msgpack")
			}
		}
		if i < 2 {
			c.Sample(map[string]any{"case": i, "kind": "real-signed", "table_size": size, "participants": k, "rounds": nr, "start_round": start, "votes": len(votes)})
		}
		c.Count("real_signed_votes", len(votes))
		runSeq(fmt.Sprintf("real-%d", i), size, r.Bool(), votes, nil)
		c.Count("real_sequences", 1)
	}

	c.Require("stateful_roundtrips", 5000)
	c.Require("real_signed_votes", 300)
	c.Require("snd_table_hits", 500)
	c.Require("pk_table_hits", 200)
	c.Require("pk2_table_hits", 500)
	c.Require("proposal_window_hits", 500)
	c.Require("round_delta_encoded", 500)
	c.Require("uncompressible_votes", 5)
}

// ---------------------------------------------------------------------------------------------
// malformed input

// decodeBoth runs a (possibly malformed) stateful frame through a clone of the decoder and then the stateless
// decoder. ok=false means "rejected with an error" at either layer.
func decodeBoth(scratch *StatefulDecoder, base *dynamicTableState, frame []byte) (msgpackVote []byte, ok bool) {
	restoreState(&scratch.dynamicTableState, base)
	d1, err := scratch.Decompress(nil, frame)
	if err != nil {
		return nil, false
	}
	m, err := NewStatelessDecoder().DecompressVote(nil, d1)
	if err != nil {
		return nil, false
	}
	return m, true
}

// acceptable: bytes produced by a successful decode must be a vote the stateless encoder takes and reproduces.
func acceptable(m []byte) (bool, string) {
	c1, err := NewStatelessEncoder().CompressVote(nil, m)
	if err != nil {
		return false, "fresh stateless encoder rejects decoded bytes: " + err.Error()
	}
	m2, err := NewStatelessDecoder().DecompressVote(nil, c1)
	if err != nil {
		return false, "re-decode failed: " + err.Error()
	}
	if !bytes.Equal(m2, m) {
		return false, "decoded bytes do not round-trip through the stateless layer"
	}
	if len(m) > MaxMsgpackVoteSize {
		return false, fmt.Sprintf("decoded vote of %d bytes exceeds MaxMsgpackVoteSize", len(m))
	}
	return true, ""
}

func TestVerifC42Malformed(t *testing.T) {
	c := kit.Start(t, "C42", "malformed")
	defer c.Finish()
	c.Rule("for decoders brought to a PRNG-chosen state (table size 16..2048, 0..600 prior votes) the next stateful frame is mutated: every strict prefix, every one-byte extension, every value of both header bytes, PRNG single-byte mutations at every offset, forged references (sender/key table ids pointing at empty, evicted, last-valid and out-of-range slots; proposal-window indices beyond the live size; round deltas at lastRnd 0 and MaxUint64); the same prefix/mutation treatment for stateless frames (StatelessDecoder) and for msgpack votes (StatelessEncoder). Each mutant runs against a clone of the state. No panic allowed; a mutant decoded successfully by both layers must yield bytes a fresh StatelessEncoder accepts and reproduces. distinct = (lane, table size, outcome, mutated offset class) || [noncanonical, observation only] canonical votes re-encoded non-canonically (rawVote / proposalValue keys permuted, a key repeated, integers widened to a longer msgpack form, explicit zero period/step) are given to the StatelessEncoder and, if accepted, to the stateful pair; the exact round-trip is demanded only of the canonical control of each case; outcomes of the variants are counted and reported as observations")
	c.Assume("a mutated msgpack vote accepted by the StatelessEncoder is held to the exact round-trip only when it is canonical msgpack (Encode(Decode(x)) == x)")

	ncases := c.N(40, 1500)
	for i := 0; i < ncases && c.Violations() < 20; i++ {
		r := c.Rand(4, uint64(i))
		size := tableSizes[r.Intn(len(tableSizes))]
		w := newWorld(r, size)
		p, err := newPair(size, false)
		if err != nil {
			c.Harness("newPair: %v", err)
		}
		p.fpEach = 1 << 30
		npre := []int{0, 1, r.Range(2, 30), r.Range(30, 600)}[r.Intn(4)]
		if r.Chance(1, 6) {
			// drive lastRnd to the top so that +1 deltas overflow
			w.rnd = math.MaxUint64
		}
		for j := 0; j < npre; j++ {
			v := w.next()
			if k, m, _ := p.step(v.canon(), false); k != "" {
				c.Violation(k, map[string]any{"case": i, "lane": "malformed-prefix-sequence", "message": m})
				break
			}
		}
		// the frame to attack
		var v *vf
		for {
			v = w.next()
			if v.expectCompressible() {
				break
			}
		}
		raw := v.canon()
		c1, err := NewStatelessEncoder().CompressVote(nil, raw)
		if err != nil {
			c.Harness("stateless encoder rejects canonical vote: %v", err)
		}
		encClone := &StatefulEncoder{dynamicTableState: cloneState(&p.enc.dynamicTableState)}
		c2, err := encClone.Compress(nil, c1)
		if err != nil {
			c.Observation("case %d: stateful encoder error on valid frame: %v", i, err)
			continue
		}
		base := &p.dec.dynamicTableState
		scratch := &StatefulDecoder{dynamicTableState: cloneState(base)}
		baseFP := ""
		if size <= 64 {
			baseFP = kit.Fingerprint(base, fpOpt)
		}

		try := func(lane, class string, frame []byte) {
			var m []byte
			var ok bool
			in := map[string]any{"case": i, "lane": lane, "class": class, "table_size": size, "prior_votes": npre, "frame_hex": hex.EncodeToString(frame), "honest_frame_hex": hex.EncodeToString(c2)}
			if c.Guard("stateful-decoder", in, func() { m, ok = decodeBoth(scratch, base, frame) }) {
				return
			}
			c.Eval(1)
			if !ok {
				c.Count("mutants_rejected", 1)
				c.Distinct(fmt.Sprintf("%s|%d|rej|%s", lane, size, class))
				return
			}
			c.Count("mutants_decoded", 1)
			c.Distinct(fmt.Sprintf("%s|%d|ok|%s", lane, size, class))
			if good, why := acceptable(m); !good {
				in["decoded_hex"] = hex.EncodeToString(m)
				in["message"] = why
				c.Violation("malformed-frame-decodes-to-non-vote", in)
			}
			if bytes.Equal(frame, c2) && !bytes.Equal(m, raw) {
				in["message"] = "honest frame decoded to different bytes"
				c.Violation("roundtrip-bytes", in)
			}
		}

		try("stateful", "honest", c2)
		for n := 0; n < len(c2); n++ {
			try("stateful", "prefix", c2[:n])
		}
		for _, b := range []byte{0, 1, 0x7f, 0xcc, 0xcf, 0xff} {
			try("stateful", "extended", append(slices.Clone(c2), b))
		}
		for b := 0; b < 256; b++ {
			f := slices.Clone(c2)
			f[0] = byte(b)
			try("stateful", "hdr0", f)
			f = slices.Clone(c2)
			f[1] = byte(b)
			try("stateful", "hdr1", f)
		}
		for off := 2; off < len(c2); off++ {
			for _, nb := range []byte{c2[off] ^ (1 << r.Intn(8)), 0x00, 0xff, 0xcc + byte(r.Intn(4)), byte(r.Intn(256))} {
				if nb == c2[off] {
					continue
				}
				f := slices.Clone(c2)
				f[off] = nb
				try("stateful", "body", f)
			}
		}
		// forged references: rebuild the frame from the stateless one with chosen reference ids
		forge := func(class string, hdr1 byte, sndID, pkID, pk2ID int) {
			f := forgeFrame(c1, hdr1, sndID, pkID, pk2ID)
			if f != nil {
				try("stateful", class, f)
			}
		}
		nslots := int(size)
		ids := []int{0, 1, nslots - 1, nslots, nslots + 1, 2*nslots - 1, 0x7fff, 0x8000, 0xffff, r.Intn(nslots), r.Intn(65536)}
		for _, id := range ids {
			forge("snd-ref", hdr1SndRef, id, -1, -1)
			forge("pk-ref", hdr1PkRef, -1, id, -1)
			forge("pk2-ref", hdr1Pk2Ref, -1, -1, id)
			forge("all-ref", hdr1SndRef|hdr1PkRef|hdr1Pk2Ref, id, (id*7+3)&0xffff, (id*13+5)&0xffff)
		}
		for pr := 1; pr <= 7; pr++ {
			forge("prop-ref", byte(pr)<<hdr1PropShift, -1, -1, -1)
			forge("prop-ref+refs", byte(pr)<<hdr1PropShift|hdr1SndRef|hdr1Pk2Ref, r.Intn(nslots), -1, r.Intn(nslots))
		}
		for _, delta := range []byte{hdr1RndDeltaSame, hdr1RndDeltaPlus1, hdr1RndDeltaMinus1} {
			forge("rnd-delta", delta, -1, -1, -1)
		}
		if baseFP != "" && kit.Fingerprint(base, fpOpt) != baseFP {
			c.Harness("decoder base state changed by cloned runs (harness clone bug)")
		}

		// stateless decoder: prefixes, header values and body mutations of the stateless frame
		tryStateless := func(class string, frame []byte) {
			var m []byte
			var err error
			in := map[string]any{"case": i, "lane": "stateless-decoder", "class": class, "frame_hex": hex.EncodeToString(frame)}
			if c.Guard("stateless-decoder", in, func() { m, err = NewStatelessDecoder().DecompressVote(nil, frame) }) {
				return
			}
			c.Eval(1)
			if err != nil {
				c.Count("mutants_rejected", 1)
				c.Distinct("sl-dec|rej|" + class)
				return
			}
			c.Count("mutants_decoded", 1)
			c.Distinct("sl-dec|ok|" + class)
			if good, why := acceptable(m); !good {
				in["decoded_hex"] = hex.EncodeToString(m)
				in["message"] = why
				c.Violation("malformed-frame-decodes-to-non-vote", in)
			}
		}
		for n := 0; n < len(c1); n++ {
			tryStateless("prefix", c1[:n])
		}
		for b := 0; b < 256; b++ {
			f := slices.Clone(c1)
			f[0] = byte(b)
			tryStateless("hdr0", f)
		}
		for off := 1; off < len(c1); off++ {
			f := slices.Clone(c1)
			f[off] ^= 1 << r.Intn(8)
			tryStateless("body", f)
			f = slices.Clone(c1)
			f[off] = 0xcc + byte(r.Intn(4))
			tryStateless("body-varuint-marker", f)
		}
		tryStateless("raw-msgpack-as-frame", raw)

		// stateless encoder: prefixes and mutations of the msgpack vote
		tryEnc := func(class string, in []byte) {
			var out []byte
			var err error
			w := map[string]any{"case": i, "lane": "stateless-encoder", "class": class, "input_hex": hex.EncodeToString(in)}
			if c.Guard("stateless-encoder", w, func() { out, err = NewStatelessEncoder().CompressVote(nil, in) }) {
				return
			}
			c.Eval(1)
			if err != nil {
				c.Count("mutants_rejected", 1)
				c.Distinct("sl-enc|rej|" + class)
				return
			}
			c.Count("mutants_decoded", 1)
			var back []byte
			if c.Guard("stateless-decoder", w, func() { back, err = NewStatelessDecoder().DecompressVote(nil, out) }) {
				return
			}
			canonical := isCanonical(in)
			c.Distinct(fmt.Sprintf("sl-enc|ok|%s|%v", class, canonical))
			if err == nil && bytes.Equal(back, in) {
				return
			}
			if canonical {
				w["message"] = fmt.Sprintf("canonical vote accepted by the encoder does not round-trip (err=%v, got %x)", err, back)
				c.Violation("stateless-roundtrip-bytes", w)
			} else {
				c.Count("noncanonical_accepted_not_roundtripping", 1)
			}
		}
		for n := 0; n < len(raw); n++ {
			tryEnc("prefix", raw[:n])
		}
		for off := 0; off < len(raw); off++ {
			f := slices.Clone(raw)
			f[off] ^= 1 << r.Intn(8)
			tryEnc("bitflip", f)
			if off%4 == i%4 {
				f = slices.Clone(raw)
				f[off] = byte(r.Intn(256))
				tryEnc("byte", f)
			}
		}
		tryEnc("extended", append(slices.Clone(raw), 0))
		c.Count("attacked_frames", 1)
	}
	c.Require("attacked_frames", 20)
	c.Require("mutants_rejected", 10000)
	c.Require("mutants_decoded", 500)
	if c.Violations() < 20 {
		c42NoncanonicalLane(c)
	}
}

// forgeFrame builds a stateful frame from a stateless one, replacing sender / key pairs by the given table
// reference ids (-1 keeps the literal), with the given hdr1 (proposal reference and round delta bits are taken
// from hdr1: a non-zero proposal reference drops the literal proposal, a non-zero round delta drops the literal round).
func forgeFrame(c1 []byte, hdr1 byte, sndID, pkID, pk2ID int) []byte {
	defer func() { _ = recover() }() // harness-side slicing only
	hdr0 := c1[0]
	pos := 2
	out := []byte{hdr0, hdr1}
	take := func(n int) []byte { b := c1[pos : pos+n]; pos += n; return b }
	varint := func() []byte {
		n, err := msgpVaruintRemaining(c1[pos])
		if err != nil {
			panic(err)
		}
		return take(1 + n)
	}
	out = append(out, take(pfSize)...)
	if hdr0&bitPer != 0 {
		out = append(out, varint()...)
	}
	var prop []byte
	if hdr0&bitDig != 0 {
		prop = append(prop, take(32)...)
	}
	if hdr0&bitEncDig != 0 {
		prop = append(prop, take(32)...)
	}
	if hdr0&bitOper != 0 {
		prop = append(prop, varint()...)
	}
	if hdr0&bitOprop != 0 {
		prop = append(prop, take(32)...)
	}
	if hdr1&hdr1PropMask == 0 {
		out = append(out, prop...)
	}
	rnd := varint()
	if hdr1&hdr1RndMask == 0 {
		out = append(out, rnd...)
	}
	snd := take(32)
	if sndID >= 0 {
		out = binary.BigEndian.AppendUint16(out, uint16(sndID))
	} else {
		out = append(out, snd...)
	}
	if hdr0&bitStep != 0 {
		out = append(out, varint()...)
	}
	pk := take(96)
	if pkID >= 0 {
		out = binary.BigEndian.AppendUint16(out, uint16(pkID))
	} else {
		out = append(out, pk...)
	}
	pk2 := take(96)
	if pk2ID >= 0 {
		out = binary.BigEndian.AppendUint16(out, uint16(pk2ID))
	} else {
		out = append(out, pk2...)
	}
	out = append(out, take(64)...)
	return out
}

// ---------------------------------------------------------------------------------------------
// non-canonical msgpack (observation only)

// c42NoncanonicalLane records what the encoders do with msgpack votes that decode to a valid vote but are not
// canonically encoded (map keys permuted or repeated, non-minimal integers). Honest nodes never send those (agreement
// re-encodes before relaying), so nothing here is a verdict; canonical controls in the same loop are.
func c42NoncanonicalLane(c *kit.Ctx) {
	n := c.N(300, 5000)
	obs := map[string]int{}
	for i := 0; i < n && c.Violations() < 20; i++ {
		r := c.Rand(5, uint64(i))
		w := newWorld(r, 16)
		var v *vf
		for {
			v = w.next()
			if v.expectCompressible() {
				break
			}
		}
		p, _ := newPair(16, false)
		if k, m, _ := p.step(v.canon(), true); k != "" {
			c.Violation(k, map[string]any{"case": i, "lane": "canonical-control", "message": m, "vote_hex": hex.EncodeToString(v.canon())})
			continue
		}
		c.Eval(1)
		c.Count("canonical_controls", 1)
		variant, nc := v.nonCanonical(r)
		if nc == nil || isCanonical(nc) {
			continue
		}
		var uv agreement.UnauthenticatedVote
		decodes := protocol.Decode(nc, &uv) == nil
		outcome := "rejected-by-encoder"
		c.Guard("noncanonical", map[string]any{"case": i, "variant": variant, "input_hex": hex.EncodeToString(nc)}, func() {
			c1, err := NewStatelessEncoder().CompressVote(nil, nc)
			if err != nil {
				return
			}
			back, err := NewStatelessDecoder().DecompressVote(nil, c1)
			switch {
			case err != nil:
				outcome = "stateless-accepts-then-decoder-errors"
				return
			case !bytes.Equal(back, nc):
				outcome = "stateless-accepts-decodes-to-different-bytes"
				return
			}
			// second message with the same round: the stateful layer delta-encodes it
			c2, err := p.enc.Compress(nil, c1)
			if err != nil {
				outcome = "stateful-encoder-error"
				return
			}
			d1, err := p.dec.Decompress(nil, c2)
			if err != nil {
				outcome = "stateful-decoder-error"
				return
			}
			back, err = NewStatelessDecoder().DecompressVote(nil, d1)
			if err != nil || !bytes.Equal(back, nc) {
				outcome = "stateful-decodes-to-different-bytes"
				return
			}
			outcome = "round-trips"
		})
		key := fmt.Sprintf("%s decodes-as-vote=%v: %s", variant, decodes, outcome)
		if obs[key] == 0 && outcome != "round-trips" && outcome != "rejected-by-encoder" {
			c.Sample(map[string]any{"noncanonical_variant": variant, "outcome": outcome, "accepted_by_msgp_decoder": decodes, "input_hex": hex.EncodeToString(nc)})
		}
		obs[key]++
		c.Distinct(key)
		c.Count("noncanonical_variants", 1)
		if outcome != "round-trips" && outcome != "rejected-by-encoder" {
			c.Count("noncanonical_accepted_not_roundtripping", 1)
		}
	}
	keys := make([]string, 0, len(obs))
	for k := range obs {
		keys = append(keys, k)
	}
	slices.Sort(keys)
	for _, k := range keys {
		c.Observation("non-canonical msgpack (not sent by honest nodes): %s  x%d", k, obs[k])
	}
	c.Require("canonical_controls", 100)
	c.Require("noncanonical_variants", 100)
}

// nonCanonical re-encodes v with one deviation from the canonical form.
func (v *vf) nonCanonical(r *kit.Rand) (string, []byte) {
	type kv struct {
		k string
		v []byte
	}
	wide := func(x uint64, lvl int) []byte { // non-minimal integer
		switch lvl {
		case 0:
			return []byte{0xcc, byte(x)}
		case 1:
			return binary.BigEndian.AppendUint16([]byte{0xcd}, uint16(x))
		case 2:
			return binary.BigEndian.AppendUint32([]byte{0xce}, uint32(x))
		}
		return binary.BigEndian.AppendUint64([]byte{0xcf}, x)
	}
	var prop []kv
	if !zero(v.dig[:]) {
		prop = append(prop, kv{"dig", mpBin(nil, v.dig[:])})
	}
	if !zero(v.encdig[:]) {
		prop = append(prop, kv{"encdig", mpBin(nil, v.encdig[:])})
	}
	if v.oper != 0 {
		prop = append(prop, kv{"oper", mpUint(nil, v.oper)})
	}
	if !zero(v.oprop[:]) {
		prop = append(prop, kv{"oprop", mpBin(nil, v.oprop[:])})
	}
	rv := []kv{}
	if v.per != 0 {
		rv = append(rv, kv{"per", mpUint(nil, v.per)})
	}
	propIdx := -1
	if len(prop) > 0 {
		propIdx = len(rv)
		rv = append(rv, kv{"prop", nil})
	}
	rndIdx := len(rv)
	rv = append(rv, kv{"rnd", mpUint(nil, v.rnd)})
	rv = append(rv, kv{"snd", mpBin(nil, v.snd[:])})
	if v.step != 0 {
		rv = append(rv, kv{"step", mpUint(nil, v.step)})
	}
	variant := ""
	switch r.Intn(5) {
	case 0:
		variant = "rawVote-keys-permuted"
		pm := r.Perm(len(rv))
		nrv := make([]kv, len(rv))
		for i, j := range pm {
			nrv[i] = rv[j]
		}
		// keep track of where prop went
		for i := range nrv {
			if nrv[i].k == "prop" {
				propIdx = i
			}
			if nrv[i].k == "rnd" {
				rndIdx = i
			}
		}
		rv = nrv
	case 1:
		variant = "proposal-keys-permuted"
		if len(prop) < 2 {
			return "", nil
		}
		pm := r.Perm(len(prop))
		np := make([]kv, len(prop))
		for i, j := range pm {
			np[i] = prop[j]
		}
		prop = np
	case 2:
		variant = "rawVote-key-repeated"
		if len(rv) >= 5 {
			return "", nil
		}
		rv = append(rv, rv[rndIdx])
	case 3:
		variant = "round-integer-widened"
		lvl := 0
		switch {
		case v.rnd > 0xffffffff:
			return "", nil
		case v.rnd > 0xffff:
			lvl = 3
		case v.rnd > 0xff:
			lvl = 2 + r.Intn(2)
		case v.rnd > 0x7f:
			lvl = 1 + r.Intn(3)
		default:
			lvl = r.Intn(4)
		}
		rv[rndIdx].v = wide(v.rnd, lvl)
	case 4:
		variant = "explicit-zero-period-or-step"
		switch {
		case v.per == 0:
			rv = append([]kv{{"per", []byte{0}}}, rv...)
			if propIdx >= 0 {
				propIdx++
			}
		case v.step == 0:
			rv = append(rv, kv{"step", []byte{0}})
		default:
			return "", nil
		}
	}
	var out []byte
	out = append(out, 0x83)
	out = append(mpStr(out, "cred"), 0x81)
	out = mpBin(mpStr(out, "pf"), v.pf[:])
	out = append(mpStr(out, "r"), 0x80|byte(len(rv)))
	for i, e := range rv {
		out = mpStr(out, e.k)
		if e.k == "prop" && i == propIdx {
			out = append(out, 0x80|byte(len(prop)))
			for _, pe := range prop {
				out = append(mpStr(out, pe.k), pe.v...)
			}
		} else {
			out = append(out, e.v...)
		}
	}
	out = append(mpStr(out, "sig"), 0x86)
	out = mpBin(mpStr(out, "p"), v.p[:])
	out = mpBin(mpStr(out, "p1s"), v.p1s[:])
	out = mpBin(mpStr(out, "p2"), v.p2[:])
	out = mpBin(mpStr(out, "p2s"), v.p2s[:])
	out = mpBin(mpStr(out, "ps"), make([]byte, 64))
	out = mpBin(mpStr(out, "s"), v.s[:])
	return variant, out
}
