package mon

// msgpmon.Package mon holds the shared logic of the C40 (one canonical encoding) and C41 (safe, bounded decoding)
// monitors: type registry, declared-bound index, value generator, structural comparison, msgpack token scanner.
// It imports the standard library and the kit only; go-algorand is reached exclusively through the msgpmon.Obj interface
// and the Codec function table supplied by the test package (verifext/msgpall). The per-package tables are
// registered from generated files /verif/harness/<pkg>/verif_c40gen.go (tools/gen_msgp_harness.py, run at check time).

import (
	"fmt"
	"reflect"
	"sort"
	"strings"
	"sync"
	"verif.local/kit/msgpmon"

	"verif.local/kit"
)

// ID is an identifier derived from an object on some code path. Entries with the same Name must be equal for x and
// for Decode(Encode(x)); an entry with SameAs set must equal the entry of that name computed from the same object.
type ID struct {
	Name, Val string
	SameAs    string
}

// Codec is the production API under test, supplied by the test package.
type Codec struct {
	Encode           func(msgpmon.Obj) []byte            // protocol.Encode
	EncodeReflect    func(any) []byte                    // protocol.EncodeReflect
	Decode           func([]byte, msgpmon.Obj) error     // protocol.Decode
	DecodeReflect    func([]byte, any) error             // protocol.DecodeReflect
	DecodeSequential func([]byte, msgpmon.Obj) error     // protocol.NewMsgpDecoderBytes(b).Decode(obj) (no panic guard of its own)
	Randomize        func(msgpmon.Obj, int) (any, error) // protocol.RandomizeObject with option variant i
	SeedRandomize    func(int64)                         // seeds the PRNG behind Randomize
	InvalidObject    string                              // protocol.ErrInvalidObject.Error()
	IDs              func(pkg, typ string, o msgpmon.Obj) []ID
}

// ---------------------------------------------------------------------------------------------
// declared-bound index

// verifMsgpIndex is the table of declared bounds of ALL registered packages (one test binary holds them all), keyed by the
// Go import path, so that bounds of types nested from other covered packages are known by value too.
type verifMsgpIndex struct {
	pkgs  map[string]string         // Go import path -> repo path, for registered packages
	field map[string]*msgpmon.Bound // "importpath.Struct.Field"
	named map[string]*msgpmon.Bound // "importpath.Type"
}

var (
	verifMsgpIxOnce sync.Once
	verifMsgpIx     *verifMsgpIndex
)

func verifMsgpIndexOf(_ *msgpmon.Package) *verifMsgpIndex {
	verifMsgpIxOnce.Do(func() {
		ix := &verifMsgpIndex{pkgs: map[string]string{}, field: map[string]*msgpmon.Bound{}, named: map[string]*msgpmon.Bound{}}
		for _, p := range msgpmon.Packages() {
			if len(p.Types) == 0 {
				continue
			}
			ip := reflect.TypeOf(p.Types[0].New()).Elem().PkgPath()
			ix.pkgs[ip] = p.Path
			for i := range p.Bounds {
				b := &p.Bounds[i]
				if b.Eval != nil {
					b.Bounds, b.MaxTotal = b.Eval() // at test time: several bounds are variables set by other packages' init
				}
				if b.Named != "" {
					ix.named[ip+"."+b.Named] = b
				} else {
					ix.field[ip+"."+b.Struct+"."+b.Field] = b
				}
			}
		}
		verifMsgpIx = ix
	})
	return verifMsgpIx
}

// lookup returns the declared bounds applying to a value of type t found in field f of struct st (either may be absent);
// inherited is what a parent slice handed down (Bounds[1:]). src names the declaring site ("repo/path.Type" or "repo/path.Struct.Field").
func (ix *verifMsgpIndex) lookup(st reflect.Type, f *reflect.StructField, t reflect.Type, inherited []int64) (bounds []int64, maxTotal int64, src string) {
	if t.Name() != "" {
		if b := ix.named[t.PkgPath()+"."+t.Name()]; b != nil {
			return b.Bounds, 0, ix.pkgs[t.PkgPath()] + "." + t.Name()
		}
	}
	if f != nil && st != nil {
		if b := ix.field[st.PkgPath()+"."+st.Name()+"."+f.Name]; b != nil {
			return b.Bounds, b.MaxTotal, ix.pkgs[st.PkgPath()] + "." + st.Name() + "." + f.Name
		}
	}
	if len(inherited) > 0 {
		return inherited, 0, "inherited"
	}
	return nil, 0, ""
}

// foreignBounded reports whether a field of a struct of ANOTHER package carries an allocbound tag (value unknown here).
func verifMsgpTagBounded(f *reflect.StructField) bool {
	if f == nil {
		return false
	}
	for _, p := range strings.Split(f.Tag.Get("codec"), ",") {
		if strings.HasPrefix(p, "allocbound=") && p != "allocbound=-" {
			return true
		}
	}
	return false
}

func verifMsgpTagHas(f *reflect.StructField, opt string) bool {
	for i, p := range strings.Split(f.Tag.Get("codec"), ",") {
		if i > 0 && p == opt {
			return true
		}
	}
	return false
}

func verifMsgpCodecName(f *reflect.StructField) (name string, skip bool) {
	tag, ok := f.Tag.Lookup("codec")
	if !ok {
		return f.Name, false
	}
	parts := strings.Split(tag, ",")
	if parts[0] == "-" {
		return "", true
	}
	if parts[0] == "" {
		return f.Name, false
	}
	return parts[0], false
}

// ---------------------------------------------------------------------------------------------
// value generator (all randomness from kit.Rand)

type verifMsgpGen struct {
	r      *kit.Rand
	ix     *verifMsgpIndex
	budget int // remaining number of leaves/elements; keeps objects small
	// features seen, for the distinct key / evidence
	feat map[string]int
	// unsupported kinds met (interface, chan, func): the type is then reported, not guessed
	unsupported string
	small       bool // C41: keep encodings small
}

func (g *verifMsgpGen) note(s string) { g.feat[s]++ }

func (g *verifMsgpGen) fill(v reflect.Value, st reflect.Type, f *reflect.StructField, inherited []int64, depth int) {
	if g.budget <= 0 || depth > 7 {
		return
	}
	g.budget--
	t := v.Type()
	switch v.Kind() {
	case reflect.Bool:
		v.SetBool(g.r.Bool())
	case reflect.Uint, reflect.Uint8, reflect.Uint16, reflect.Uint32, reflect.Uint64, reflect.Uintptr:
		if t.Name() == "HashType" && strings.HasSuffix(t.PkgPath(), "go-algorand/crypto") && !g.r.Chance(1, 50) {
			v.SetUint(uint64(g.r.Intn(3))) // values accepted by HashFactory.Validate (postunmarshalcheck)
			return
		}
		x := g.r.Boundary64()
		if g.r.Chance(1, 3) {
			// sizes around the msgpack integer format boundaries
			x = []uint64{0, 1, 127, 128, 255, 256, 65535, 65536, 1<<32 - 1, 1 << 32, 1<<63 - 1, 1 << 63, ^uint64(0)}[g.r.Intn(13)]
		}
		v.SetUint(x & (^uint64(0) >> (64 - uint(t.Bits()))))
	case reflect.Int, reflect.Int8, reflect.Int16, reflect.Int32, reflect.Int64:
		x := int64(g.r.Boundary64())
		if g.r.Chance(1, 3) {
			x = []int64{0, -1, -32, -33, -128, -129, -32768, -32769, -1 << 31, -1<<31 - 1, -1 << 63, 127, 128, 1<<63 - 1}[g.r.Intn(14)]
		}
		sh := 64 - uint(t.Bits())
		v.SetInt(x << sh >> sh)
	case reflect.Float32, reflect.Float64:
		v.SetFloat(float64(int64(g.r.Uint64()>>40)) / 8)
	case reflect.String:
		v.SetString(string(g.r.Bytes(g.length(v, st, f, inherited, true))))
	case reflect.Slice:
		bounds, _, _ := g.ix.lookup(st, f, t, inherited)
		var child []int64
		if len(bounds) > 1 {
			child = bounds[1:]
		}
		if t.Elem().Kind() == reflect.Uint8 {
			switch g.r.Intn(8) {
			case 0:
				g.note("nil-bytes")
				return
			case 1:
				g.note("empty-bytes")
				v.Set(reflect.MakeSlice(t, 0, 0))
				return
			}
			n := g.length(v, st, f, inherited, true)
			b := reflect.MakeSlice(t, n, n)
			raw := g.r.Bytes(n)
			for i := 0; i < n; i++ {
				b.Index(i).SetUint(uint64(raw[i]))
			}
			v.Set(b)
			return
		}
		switch g.r.Intn(8) {
		case 0:
			g.note("nil-slice")
			return
		case 1:
			g.note("empty-slice")
			v.Set(reflect.MakeSlice(t, 0, 0))
			return
		}
		n := g.length(v, st, f, inherited, false)
		s := reflect.MakeSlice(t, n, n)
		for i := 0; i < n; i++ {
			g.fill(s.Index(i), nil, nil, child, depth+1)
		}
		v.Set(s)
	case reflect.Array:
		if g.r.Chance(1, 6) {
			g.note("zero-array")
			return
		}
		if t.Elem().Kind() == reflect.Uint8 {
			raw := g.r.Bytes(v.Len())
			for i := range raw {
				v.Index(i).SetUint(uint64(raw[i]))
			}
			return
		}
		for i := 0; i < v.Len(); i++ {
			g.fill(v.Index(i), nil, nil, nil, depth+1)
		}
	case reflect.Map:
		switch g.r.Intn(8) {
		case 0:
			g.note("nil-map")
			return
		case 1:
			g.note("empty-map")
			v.Set(reflect.MakeMap(t))
			return
		}
		n := g.length(v, st, f, inherited, false)
		m := reflect.MakeMap(t)
		bounds, _, _ := g.ix.lookup(st, f, t, inherited)
		var kb, vb []int64
		if len(bounds) > 1 {
			kb = bounds[1:2]
		}
		if len(bounds) > 2 {
			vb = bounds[2:3]
		}
		for i := 0; i < n; i++ {
			k := reflect.New(t.Key()).Elem()
			g.budget++ // keys are always generated
			g.fill(k, nil, nil, kb, depth+1)
			if i > 0 && g.r.Chance(1, 2) {
				g.mapKeyNeighbour(k, m)
			}
			e := reflect.New(t.Elem()).Elem()
			g.fill(e, nil, nil, vb, depth+1)
			m.SetMapIndex(k, e)
		}
		if m.Len() > 1 {
			g.note("multi-key-map")
		}
		v.Set(m)
	case reflect.Ptr:
		switch g.r.Intn(5) {
		case 0:
			g.note("nil-ptr")
			return
		case 1:
			g.note("ptr-to-zero")
			v.Set(reflect.New(t.Elem()))
			return
		}
		p := reflect.New(t.Elem())
		g.fill(p.Elem(), st, f, inherited, depth+1)
		v.Set(p)
	case reflect.Struct:
		if depth > 0 && g.r.Chance(1, 7) {
			g.note("zero-struct")
			return
		}
		dense := g.r.Chance(1, 3)
		for i := 0; i < t.NumField(); i++ {
			sf := t.Field(i)
			if sf.PkgPath != "" && !sf.Anonymous {
				continue // unexported: not encoded by either encoder
			}
			if _, skip := verifMsgpCodecName(&sf); skip {
				continue
			}
			fv := v.Field(i)
			if !fv.CanSet() {
				if sf.Anonymous && fv.Kind() == reflect.Struct {
					g.fillEmbedded(fv, depth)
				}
				continue
			}
			required := verifMsgpTagHas(&sf, "required")
			if !required && !dense && g.r.Chance(1, 3) {
				continue // leave the zero value: exercises omitempty
			}
			g.fill(fv, t, &sf, nil, depth+1)
			if required {
				// a `required` field must be present in the encoding (the decoder rejects its absence): make it non-empty
				for try := 0; try < 8 && verifMsgpDeepEmpty(fv); try++ {
					g.budget += 20
					g.fill(fv, t, &sf, nil, 1)
				}
			}
		}
	default:
		if g.unsupported == "" {
			g.unsupported = fmt.Sprintf("%s (%s)", t.String(), v.Kind())
		}
	}
}

// fillEmbedded sets the exported fields of an embedded unexported struct (they are promoted and encoded).
func (g *verifMsgpGen) fillEmbedded(v reflect.Value, depth int) {
	t := v.Type()
	for i := 0; i < t.NumField(); i++ {
		sf := t.Field(i)
		fv := v.Field(i)
		if sf.PkgPath != "" && !sf.Anonymous {
			continue
		}
		if _, skip := verifMsgpCodecName(&sf); skip {
			continue
		}
		if fv.CanSet() {
			if g.r.Chance(3, 4) {
				g.fill(fv, t, &sf, nil, depth+1)
			}
		} else if sf.Anonymous && fv.Kind() == reflect.Struct {
			g.fillEmbedded(fv, depth)
		}
	}
}

// mapKeyNeighbour derives a key close to an existing one (same prefix / adjacent integer), so that orderings
// by value, by length and by encoded bytes disagree.
func (g *verifMsgpGen) mapKeyNeighbour(k reflect.Value, m reflect.Value) {
	keys := m.MapKeys()
	if len(keys) == 0 {
		return
	}
	base := keys[g.r.Intn(len(keys))]
	switch k.Kind() {
	case reflect.String:
		s := base.String()
		switch g.r.Intn(3) {
		case 0:
			s += string(g.r.Bytes(1))
		case 1:
			if len(s) > 0 {
				s = s[:len(s)-1]
			}
		case 2:
			if len(s) > 0 {
				b := []byte(s)
				b[g.r.Intn(len(b))] ^= 0x80
				s = string(b)
			}
		}
		k.SetString(s)
	case reflect.Uint, reflect.Uint8, reflect.Uint16, reflect.Uint32, reflect.Uint64:
		x := base.Uint() + uint64(g.r.Intn(3)) - 1
		k.SetUint(x & (^uint64(0) >> (64 - uint(k.Type().Bits()))))
	case reflect.Array:
		if k.Type().Elem().Kind() == reflect.Uint8 && k.Len() > 0 {
			reflect.Copy(k, base)
			i := g.r.Intn(k.Len())
			k.Index(i).SetUint(uint64(byte(base.Index(i).Uint()) ^ byte(1<<uint(g.r.Intn(8)))))
		}
	}
}

// length picks a collection length that respects the declared bound when it is known here, and is at most 1
// when a bound exists but its value is not visible from this package (the upstream randomizer does the same).
func (g *verifMsgpGen) length(v reflect.Value, st reflect.Type, f *reflect.StructField, inherited []int64, bytesLike bool) int {
	bounds, _, _ := g.ix.lookup(st, f, v.Type(), inherited)
	bound := int64(-1)
	known := false
	if len(bounds) > 0 {
		bound, known = bounds[0], true
	}
	if !known && st != nil && g.ix.pkgs[st.PkgPath()] == "" && verifMsgpTagBounded(f) {
		g.note("foreign-bounded")
		return g.r.Intn(2)
	}
	lim := 6
	if bytesLike {
		lim = 70
	}
	if g.small {
		lim = lim/2 + 1
	}
	if known && bound >= 0 {
		// exactly at the declared bound when that is affordable
		cap := int64(24)
		if bytesLike {
			cap = 5000
		}
		if g.small {
			cap /= 4
		}
		if bound <= cap && int(bound) <= g.budget*8 && g.r.Chance(1, 5) {
			g.note("at-bound")
			if !bytesLike {
				g.budget -= int(bound)
			}
			return int(bound)
		}
		if int64(lim) > bound {
			lim = int(bound)
		}
	}
	n := 0
	if lim > 0 {
		if bytesLike && g.r.Chance(1, 3) {
			// around fixstr/str8/bin8 boundaries
			n = []int{1, 31, 32, 33, 64}[g.r.Intn(5)]
			if n > lim {
				n = lim
			}
		} else {
			n = 1 + g.r.Intn(lim)
		}
	}
	if !bytesLike {
		g.budget -= n
	}
	return n
}

func verifMsgpIsRaw(t reflect.Type) bool {
	return t.Name() == "Raw" && t.PkgPath() == "github.com/algorand/msgp/msgp"
}

func verifMsgpContainsRaw(t reflect.Type, seen map[reflect.Type]bool) bool {
	if seen[t] {
		return false
	}
	seen[t] = true
	if verifMsgpIsRaw(t) {
		return true
	}
	switch t.Kind() {
	case reflect.Ptr, reflect.Slice, reflect.Array:
		return verifMsgpContainsRaw(t.Elem(), seen)
	case reflect.Map:
		return verifMsgpContainsRaw(t.Key(), seen) || verifMsgpContainsRaw(t.Elem(), seen)
	case reflect.Struct:
		for i := 0; i < t.NumField(); i++ {
			if verifMsgpContainsRaw(t.Field(i).Type, seen) {
				return true
			}
		}
	}
	return false
}

// fixRaw replaces every msgp.Raw in v by a valid msgpack value (Raw is spliced verbatim by MarshalMsg).
func verifMsgpFixRaw(v reflect.Value, r *kit.Rand) {
	if verifMsgpIsRaw(v.Type()) {
		if v.CanSet() && v.Len() > 0 {
			opts := [][]byte{{0x80}, {0x81, 0xa1, 'a', 0x01}, {0xc4, 0x02, 0xde, 0xad}, {0x92, 0x01, 0xa1, 'x'}}
			v.SetBytes(append([]byte{}, opts[r.Intn(len(opts))]...))
		}
		return
	}
	switch v.Kind() {
	case reflect.Ptr:
		if !v.IsNil() {
			verifMsgpFixRaw(v.Elem(), r)
		}
	case reflect.Slice, reflect.Array:
		if v.Type().Elem().Kind() == reflect.Uint8 {
			return
		}
		for i := 0; i < v.Len(); i++ {
			verifMsgpFixRaw(v.Index(i), r)
		}
	case reflect.Map:
		if !verifMsgpContainsRaw(v.Type().Elem(), map[reflect.Type]bool{}) {
			return
		}
		for _, k := range v.MapKeys() {
			e := reflect.New(v.Type().Elem()).Elem()
			e.Set(v.MapIndex(k))
			verifMsgpFixRaw(e, r)
			v.SetMapIndex(k, e)
		}
	case reflect.Struct:
		for i := 0; i < v.NumField(); i++ {
			if v.Field(i).CanSet() || v.Field(i).Kind() == reflect.Struct {
				verifMsgpFixRaw(v.Field(i), r)
			}
		}
	}
}

// ---------------------------------------------------------------------------------------------
// structural comparison modulo the documented normalisation:
//   nil == empty for slices and maps; a nil pointer == a pointer to a value that is empty all the way down
//   (omitempty with RecursiveEmptyCheck drops it, the decoder then leaves nil).
// Anything else (a dropped or altered non-empty value) is a difference; the path is returned.

func verifMsgpDeepEmpty(v reflect.Value) bool {
	switch v.Kind() {
	case reflect.Bool:
		return !v.Bool()
	case reflect.Int, reflect.Int8, reflect.Int16, reflect.Int32, reflect.Int64:
		return v.Int() == 0
	case reflect.Uint, reflect.Uint8, reflect.Uint16, reflect.Uint32, reflect.Uint64, reflect.Uintptr:
		return v.Uint() == 0
	case reflect.Float32, reflect.Float64:
		return v.Float() == 0
	case reflect.String, reflect.Slice, reflect.Map:
		return v.Len() == 0
	case reflect.Array:
		for i := 0; i < v.Len(); i++ {
			if !verifMsgpDeepEmpty(v.Index(i)) {
				return false
			}
		}
		return true
	case reflect.Ptr, reflect.Interface:
		return v.IsNil() || verifMsgpDeepEmpty(v.Elem())
	case reflect.Struct:
		for i := 0; i < v.NumField(); i++ {
			if !verifMsgpDeepEmpty(v.Field(i)) {
				return false
			}
		}
		return true
	}
	return false
}

// verifMsgpNilEmptyPtrs sets every settable non-nil pointer whose pointee is empty all the way down to nil; returns how many.
func verifMsgpNilEmptyPtrs(v reflect.Value) int {
	n := 0
	switch v.Kind() {
	case reflect.Ptr:
		if v.IsNil() {
			return 0
		}
		if verifMsgpDeepEmpty(v.Elem()) {
			if v.CanSet() {
				v.Set(reflect.Zero(v.Type()))
				return 1
			}
			return 0
		}
		return verifMsgpNilEmptyPtrs(v.Elem())
	case reflect.Struct:
		for i := 0; i < v.NumField(); i++ {
			n += verifMsgpNilEmptyPtrs(v.Field(i))
		}
	case reflect.Slice, reflect.Array:
		if k := v.Type().Elem().Kind(); k == reflect.Ptr || k == reflect.Struct || k == reflect.Slice || k == reflect.Map {
			for i := 0; i < v.Len(); i++ {
				n += verifMsgpNilEmptyPtrs(v.Index(i))
			}
		}
	case reflect.Map:
		if k := v.Type().Elem().Kind(); k == reflect.Ptr || k == reflect.Struct {
			for _, key := range v.MapKeys() {
				e := reflect.New(v.Type().Elem()).Elem()
				e.Set(v.MapIndex(key))
				if m := verifMsgpNilEmptyPtrs(e); m > 0 {
					n += m
					v.SetMapIndex(key, e)
				}
			}
		}
	}
	return n
}

func verifMsgpSame(a, b reflect.Value, path string) (bool, string) {
	if a.Kind() != b.Kind() {
		return false, path + ": kind"
	}
	switch a.Kind() {
	case reflect.Bool:
		return a.Bool() == b.Bool(), path
	case reflect.Int, reflect.Int8, reflect.Int16, reflect.Int32, reflect.Int64:
		return a.Int() == b.Int(), path
	case reflect.Uint, reflect.Uint8, reflect.Uint16, reflect.Uint32, reflect.Uint64, reflect.Uintptr:
		return a.Uint() == b.Uint(), path
	case reflect.Float32, reflect.Float64:
		return a.Float() == b.Float(), path
	case reflect.String:
		return a.String() == b.String(), path
	case reflect.Slice, reflect.Array:
		if a.Len() != b.Len() {
			return false, fmt.Sprintf("%s: len %d vs %d", path, a.Len(), b.Len())
		}
		for i := 0; i < a.Len(); i++ {
			if ok, p := verifMsgpSame(a.Index(i), b.Index(i), fmt.Sprintf("%s[%d]", path, i)); !ok {
				return false, p
			}
		}
		return true, path
	case reflect.Map:
		if a.Len() != b.Len() {
			return false, fmt.Sprintf("%s: map len %d vs %d", path, a.Len(), b.Len())
		}
		it := a.MapRange()
		for it.Next() {
			bv := b.MapIndex(it.Key())
			if !bv.IsValid() {
				return false, fmt.Sprintf("%s: key %v missing", path, it.Key())
			}
			if ok, p := verifMsgpSame(it.Value(), bv, fmt.Sprintf("%s[%v]", path, it.Key())); !ok {
				return false, p
			}
		}
		return true, path
	case reflect.Ptr, reflect.Interface:
		if a.IsNil() || b.IsNil() {
			if a.IsNil() && b.IsNil() {
				return true, path
			}
			nn := a
			if a.IsNil() {
				nn = b
			}
			if verifMsgpDeepEmpty(nn.Elem()) {
				return true, path
			}
			return false, path + ": nil vs non-empty pointee"
		}
		return verifMsgpSame(a.Elem(), b.Elem(), path)
	case reflect.Struct:
		for i := 0; i < a.NumField(); i++ {
			if ok, p := verifMsgpSame(a.Field(i), b.Field(i), path+"."+a.Type().Field(i).Name); !ok {
				return false, p
			}
		}
		return true, path
	}
	return true, path
}

var verifMsgpFP = kit.FPOptions{NilEqualsEmpty: true}

// ---------------------------------------------------------------------------------------------
// msgpack token scanner (format only; used for shape keys and for structural mutations)

type verifMsgpTok struct {
	Off, Hdr int  // offset of the lead byte, header length (lead + length bytes)
	End      int  // end of the whole value including children
	Kind     byte // 'n' nil 'b' bool 'i' int 'f' float 's' str 'x' bin 'a' array 'm' map 'e' ext
	N        int  // str/bin/ext payload length, array element count, map entry count
	Depth    int
}

// verifMsgpScan tokenises one value starting at off; ok=false if the bytes are not well-formed msgpack.
func verifMsgpScan(b []byte, off, depth int, out *[]verifMsgpTok) (end int, ok bool) {
	if off >= len(b) || depth > 4000 {
		return 0, false
	}
	c := b[off]
	idx := len(*out)
	*out = append(*out, verifMsgpTok{Off: off, Depth: depth})
	set := func(kind byte, hdr, n int) { t := &(*out)[idx]; t.Kind, t.Hdr, t.N = kind, hdr, n }
	be := func(o, n int) (int, bool) {
		if o+n > len(b) {
			return 0, false
		}
		x := 0
		for i := 0; i < n; i++ {
			x = x<<8 | int(b[o+i])
		}
		return x, true
	}
	children := 0
	payload := 0
	switch {
	case c <= 0x7f || c >= 0xe0:
		set('i', 1, 0)
	case c >= 0x80 && c <= 0x8f:
		set('m', 1, int(c&0x0f))
		children = 2 * int(c&0x0f)
	case c >= 0x90 && c <= 0x9f:
		set('a', 1, int(c&0x0f))
		children = int(c & 0x0f)
	case c >= 0xa0 && c <= 0xbf:
		set('s', 1, int(c&0x1f))
		payload = int(c & 0x1f)
	case c == 0xc0:
		set('n', 1, 0)
	case c == 0xc2 || c == 0xc3:
		set('b', 1, 0)
	case c == 0xc4 || c == 0xc5 || c == 0xc6 || c == 0xd9 || c == 0xda || c == 0xdb:
		w := map[byte]int{0xc4: 1, 0xc5: 2, 0xc6: 4, 0xd9: 1, 0xda: 2, 0xdb: 4}[c]
		n, k := be(off+1, w)
		if !k {
			return 0, false
		}
		kind := byte('x')
		if c >= 0xd9 {
			kind = 's'
		}
		set(kind, 1+w, n)
		payload = n
	case c == 0xca:
		set('f', 1, 0)
		payload = 4
	case c == 0xcb:
		set('f', 1, 0)
		payload = 8
	case c >= 0xcc && c <= 0xcf:
		set('i', 1, 0)
		payload = 1 << (c - 0xcc)
	case c >= 0xd0 && c <= 0xd3:
		set('i', 1, 0)
		payload = 1 << (c - 0xd0)
	case c >= 0xd4 && c <= 0xd8:
		set('e', 2, 1<<(c-0xd4))
		payload = 1 << (c - 0xd4)
	case c == 0xc7 || c == 0xc8 || c == 0xc9:
		w := 1 << (c - 0xc7)
		n, k := be(off+1, w)
		if !k {
			return 0, false
		}
		set('e', 2+w, n)
		payload = n
	case c == 0xdc || c == 0xdd:
		w := 2
		if c == 0xdd {
			w = 4
		}
		n, k := be(off+1, w)
		if !k {
			return 0, false
		}
		set('a', 1+w, n)
		children = n
	case c == 0xde || c == 0xdf:
		w := 2
		if c == 0xdf {
			w = 4
		}
		n, k := be(off+1, w)
		if !k {
			return 0, false
		}
		set('m', 1+w, n)
		children = 2 * n
	default: // 0xc1
		return 0, false
	}
	end = off + (*out)[idx].Hdr + payload
	if end > len(b) {
		return 0, false
	}
	for i := 0; i < children; i++ {
		e, k := verifMsgpScan(b, end, depth+1, out)
		if !k {
			return 0, false
		}
		end = e
	}
	(*out)[idx].End = end
	return end, true
}

// verifMsgpShape is a short structural signature of an encoding: token kinds with bucketed sizes.
func verifMsgpShape(b []byte) string {
	var toks []verifMsgpTok
	if _, ok := verifMsgpScan(b, 0, 0, &toks); !ok {
		return fmt.Sprintf("raw%d", len(b))
	}
	var sb strings.Builder
	for i, t := range toks {
		if i >= 48 {
			fmt.Fprintf(&sb, "+%d", len(toks)-i)
			break
		}
		sb.WriteByte(t.Kind)
		if t.Kind == 'a' || t.Kind == 'm' {
			fmt.Fprintf(&sb, "%d", t.N)
		}
	}
	return sb.String()
}

func verifMsgpSortedKeys(m map[string]int) []string {
	var ks []string
	for k := range m {
		ks = append(ks, k)
	}
	sort.Strings(ks)
	return ks
}
