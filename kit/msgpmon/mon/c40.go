package mon

// C40: consensus objects have one canonical encoding.
//
// Oracle, per random instance x of every msgp-generated type of this package:
//   1. protocol.Encode(x) (generated marshaler) == protocol.EncodeReflect(x) (go-codec, canonical handle), bytewise
//      (not applicable to types holding msgp.Raw: upstream documents that go-codec cannot reproduce a spliced Raw);
//   2. y := Decode(Encode(x)) succeeds (unless the decoder legitimately rejects the VALUE: a declared allocbound is
//      exceeded or a postunmarshalcheck fails -- counted, never a verdict) and Encode(y) == Encode(x);
//   3. y equals x structurally modulo the documented normalisation (nil == empty; nil pointer == pointer to an
//      all-empty value); the reflection decoder applied to the same bytes yields the same object as the generated one;
//   4. identifiers derived on several code paths agree (per-package hook: txid, block hash).
// The oracle is not stricter than the property: it never compares against an expected byte string of its own,
// only the production encoders/decoders against each other.

import (
	"encoding/hex"
	"fmt"
	"reflect"
	"runtime"
	"sort"
	"strings"
	"sync"
	"sync/atomic"
	"testing"
	"verif.local/kit/msgpmon"

	"verif.local/kit"
)

type verifMsgpCase struct {
	pkg    *msgpmon.Package
	pi     int
	ti, ci int
	obj    msgpmon.Obj
	gen    string
	feat   map[string]int
	raw    bool
	viol   *int32
}

func verifMsgpHex(b []byte) string {
	if len(b) > 12000 {
		return hex.EncodeToString(b[:12000]) + fmt.Sprintf("...(%d bytes)", len(b))
	}
	return hex.EncodeToString(b)
}

func verifMsgpFirstDiff(a, b []byte) int {
	n := len(a)
	if len(b) < n {
		n = len(b)
	}
	for i := 0; i < n; i++ {
		if a[i] != b[i] {
			return i
		}
	}
	return n
}

// legit rejection of a value by the generated decoder: over a declared bound, or the type's postunmarshalcheck.
func verifMsgpLegitReject(err error, cd *Codec) string {
	if err == nil {
		return ""
	}
	if strings.Contains(err.Error(), "msgp: length overflow: ") || strings.Contains(err.Error(), "msgp: wanted array of size ") {
		return "over-declared-bound"
	}
	if cd.InvalidObject != "" && strings.Contains(err.Error(), cd.InvalidObject) {
		return "postunmarshalcheck"
	}
	if strings.Contains(err.Error(), "missing required field: ") {
		return "required-field-empty" // codec:",required": the zero value is not a member of the type's wire domain
	}
	return ""
}

// RunC40 runs the C40 monitor over every registered package.
func RunC40(t *testing.T, cd *Codec) {
	c := kit.Start(t, "C40", "msgp")
	defer c.Finish()
	c.Rule("for every type with MarshalMsg/UnmarshalMsg in the msgp_gen.go of the packages on the consensus/network surface (list generated at check time, unexported types included): " +
		"random instances from protocol.RandomizeObject (production generator, four option variants) alternating with a boundary generator " +
		"(nil vs empty slices/maps, zero structs and pointers to zero values under omitempty parents, lengths exactly at the declared allocbound, " +
		"integers at msgpack format boundaries, map keys that are neighbours / differ in length or high bit); each instance is encoded by the generated " +
		"and the reflection encoder, decoded by both decoders, re-encoded and compared; ids (txid, block hash) derived from the struct, from the re-decoded bytes and from the reflection encoding are compared; " +
		"distinct = distinct (type, msgpack token shape of the encoding)")
	c.Assume("go-codec with the canonical handle of protocol/codec.go is the reference encoder named by the property; types holding msgp.Raw are compared on the msgp path only (upstream: go-codec cannot reproduce a spliced Raw)")
	n := c.N(200, 10000) // instances per type
	if c.Lane != "plain" {
		n = c.N(60, 120)
	}
	registry := msgpmon.Packages()
	if len(registry) == 0 {
		c.Harness("no package registered (generated verif_c40gen.go files not injected?)")
	}
	var rawNames []string
	ntypes := 0
	perPkg := map[string]any{}
	for _, p := range registry {
		perPkg[p.Path] = len(p.Types)
		ntypes += len(p.Types)
	}
	c.Extra("types_per_package", perPkg)
	c.Extra("types", ntypes)

	// producer: sequential, so that the upstream generator (global math/rand, seeded here) and kit.Rand replay by seed
	cases := make(chan verifMsgpCase, 256)
	typeViol := make([][]int32, len(registry))
	for pi, p := range registry {
		typeViol[pi] = make([]int32, len(p.Types))
	}
	raw := map[reflect.Type]bool{}
	go func() {
		defer close(cases)
		for pi, p := range registry {
			for ti, ty := range p.Types {
				rt := reflect.TypeOf(ty.New()).Elem()
				isRaw := verifMsgpContainsRaw(rt, map[reflect.Type]bool{})
				if isRaw {
					rawNames = append(rawNames, p.Path+"."+ty.Name)
				}
				cd.SeedRandomize(int64(c.Seed)*1000003 + int64(pi)*1009 + int64(ti))
				for ci := 0; ci < n; ci++ {
					// stop exploring a type after a few violations on it (the first witnesses are kept), and everything after many
					if c.Violations() > 60 {
						return
					}
					if atomic.LoadInt32(&typeViol[pi][ti]) >= 3 {
						break
					}
					cs := verifMsgpCase{pkg: p, ti: ti, ci: ci, feat: map[string]int{}, raw: isRaw, viol: &typeViol[pi][ti]}
					if ci%2 == 0 {
						if o, err := cd.Randomize(ty.New(), (ci/2)%4); err == nil {
							cs.obj, cs.gen = o.(msgpmon.Obj), "upstream"
						}
					}
					cs.pi = pi // boundary cases are generated by the worker (pure function of seed and indices)
					cases <- cs
				}
			}
		}
	}()
	_ = raw

	workers := runtime.GOMAXPROCS(0)
	if workers > 12 {
		workers = 12
	}
	var wg sync.WaitGroup
	for w := 0; w < workers; w++ {
		wg.Add(1)
		go func() {
			defer wg.Done()
			for cs := range cases {
				before := c.Violations()
				verifMsgpC40One(c, cd, cs)
				if c.Violations() > before {
					atomic.AddInt32(cs.viol, 1)
				}
			}
		}()
	}
	wg.Wait()
	c.Extra("reflect_comparison_not_applicable_msgp_raw", rawNames)
	c.Require("instances", int64(ntypes*n/2))
	c.Require("roundtrips_ok", int64(ntypes*n/4))
	c.Require("boundary_features", 1)
	c.Require("id_comparisons", 100)
}

func verifMsgpC40One(c *kit.Ctx, cd *Codec, cs verifMsgpCase) {
	ty := cs.pkg.Types[cs.ti]
	if cs.obj == nil {
		r := c.Rand(40, uint64(cs.pi), uint64(cs.ti), uint64(cs.ci))
		g := &verifMsgpGen{r: r, ix: verifMsgpIndexOf(cs.pkg), budget: 40 + r.Intn(200), feat: cs.feat}
		o := ty.New()
		g.fill(reflect.ValueOf(o).Elem(), nil, nil, nil, 0)
		if cs.raw {
			verifMsgpFixRaw(reflect.ValueOf(o).Elem(), r)
		}
		if g.unsupported != "" {
			c.Count("generator_unsupported_kind", 1)
			c.Observation("boundary generator met an unsupported kind in %s.%s: %s", cs.pkg.Path, ty.Name, g.unsupported)
		}
		cs.obj, cs.gen = o, "boundary"
	}
	x := cs.obj
	hasRaw := cs.raw
	wit := func(extra map[string]any) map[string]any {
		w := map[string]any{"package": cs.pkg.Path, "type": ty.Name, "type_index": cs.ti, "case": cs.ci, "generator": cs.gen,
			"replay": "the instance is Decode(encode_msgp_hex) into the named type (or, for boundary cases, generator stream kit.Rand(seed,40,package_index,type_index,case))"}
		for k, v := range extra {
			w[k] = v
		}
		return w
	}
	var e1, e2 []byte
	if c.Guard("encode", wit(nil), func() {
		e1 = cd.Encode(x)
		if !hasRaw {
			e2 = cd.EncodeReflect(x)
		}
	}) {
		return
	}
	c.Count("instances", 1)
	c.Count("instances_"+cs.gen, 1)
	for _, k := range verifMsgpSortedKeys(cs.feat) {
		c.Count("feature_"+k, cs.feat[k])
		c.Count("boundary_features", cs.feat[k])
	}
	c.Eval(1)
	if len(e1) > 1 {
		c.Distinct(cs.pkg.Path + "." + ty.Name + "|" + verifMsgpShape(e1))
	}
	// ids on the struct path (before x is touched by any triage)
	var idx []ID
	if cd.IDs != nil {
		idx = cd.IDs(cs.pkg.Path, ty.Name, x)
	}
	if !hasRaw && string(e1) != string(e2) {
		d := verifMsgpFirstDiff(e1, e2)
		key := "msgp-vs-reflect-encoding"
		// Triage of the CLASS of the difference (every class is still reported as a difference between the encoders):
		//  (a) equal up to the order of the entries of maps whose keys are themselves maps/arrays (struct-keyed Go maps:
		//      msgp orders them with the //msgp:sort comparator, go-codec canonical by encoded key bytes);
		//  (b) vanishes once pointers to all-empty values are nil (the generated marshaler omits a pointer field only when
		//      nil; go-codec with RecursiveEmptyCheck also omits a pointer to an empty value).
		c1, ok1 := verifMsgpCanonStructKeyed(e1)
		c2, ok2 := verifMsgpCanonStructKeyed(e2)
		if ok1 && ok2 && string(c1) == string(c2) {
			key = "struct-keyed-map-entry-order:msgp-vs-reflect"
		} else if n := verifMsgpNilEmptyPtrs(reflect.ValueOf(x).Elem()); n > 0 {
			var f1, f2 []byte
			c.Guard("encode", wit(nil), func() { f1, f2 = cd.Encode(x), cd.EncodeReflect(x) })
			g1, k1 := verifMsgpCanonStructKeyed(f1)
			g2, k2 := verifMsgpCanonStructKeyed(f2)
			if string(f1) == string(f2) || (k1 && k2 && string(g1) == string(g2)) {
				key = "pointer-to-empty-value:msgp-emits-reflect-omits"
			}
		}
		c.Count("class_"+key, 1)
		c.Count("class_"+key+"@"+cs.pkg.Path+"."+ty.Name, 1)
		c.Violation(key, wit(map[string]any{"encode_msgp_hex": verifMsgpHex(e1), "encode_reflect_hex": verifMsgpHex(e2), "first_difference_at": d, "difference": verifMsgpDiffPath(e1, e2)}))
		return
	}
	byName := map[string]string{}
	for _, id := range idx {
		byName[id.Name] = id.Val
	}
	for _, id := range idx {
		if id.SameAs != "" {
			c.Eval(1)
			c.Count("id_comparisons", 1)
			if byName[id.SameAs] != id.Val {
				c.Violation("id-differs-between-paths", wit(map[string]any{"id": id.Name, "value": id.Val, "other": id.SameAs, "other_value": byName[id.SameAs], "encode_msgp_hex": verifMsgpHex(e1)}))
				return
			}
		}
	}
	// decode with the generated decoder
	y := ty.New()
	err := cd.Decode(e1, y)
	if err != nil {
		if why := verifMsgpLegitReject(err, cd); why != "" {
			c.Count("value_rejected_"+why, 1)
			return
		}
		c.Violation("decode-rejects-own-encoding", wit(map[string]any{"encode_msgp_hex": verifMsgpHex(e1), "error": err.Error()}))
		return
	}
	e3 := cd.Encode(y)
	c.Eval(1)
	if string(e3) != string(e1) {
		c.Violation("reencode-differs", wit(map[string]any{"encode_msgp_hex": verifMsgpHex(e1), "reencoded_hex": verifMsgpHex(e3), "first_difference_at": verifMsgpFirstDiff(e1, e3), "difference": verifMsgpDiffPath(e1, e3)}))
		return
	}
	c.Eval(1)
	if kit.Fingerprint(x, verifMsgpFP) != kit.Fingerprint(y, verifMsgpFP) {
		c.Count("fingerprint_slow_path", 1)
		if ok, path := verifMsgpSame(reflect.ValueOf(x).Elem(), reflect.ValueOf(y).Elem(), ty.Name); !ok {
			c.Violation("roundtrip-value-differs", wit(map[string]any{"encode_msgp_hex": verifMsgpHex(e1), "differs_at": path,
				"original": verifMsgpTrunc(kit.Describe(x, verifMsgpFP)), "decoded": verifMsgpTrunc(kit.Describe(y, verifMsgpFP))}))
			return
		}
	}
	if !hasRaw {
		y2 := ty.New()
		if err := cd.DecodeReflect(e1, y2); err != nil {
			c.Violation("reflect-decoder-rejects-encoding", wit(map[string]any{"encode_msgp_hex": verifMsgpHex(e1), "error": err.Error()}))
			return
		}
		c.Eval(1)
		if kit.Fingerprint(y, verifMsgpFP) != kit.Fingerprint(y2, verifMsgpFP) {
			if ok, path := verifMsgpSame(reflect.ValueOf(y).Elem(), reflect.ValueOf(y2).Elem(), ty.Name); !ok {
				c.Violation("msgp-vs-reflect-decoding", wit(map[string]any{"encode_msgp_hex": verifMsgpHex(e1), "differs_at": path,
					"msgp_decoded": verifMsgpTrunc(kit.Describe(y, verifMsgpFP)), "reflect_decoded": verifMsgpTrunc(kit.Describe(y2, verifMsgpFP))}))
				return
			}
		}
	}
	if cd.IDs != nil && len(idx) > 0 {
		idy := cd.IDs(cs.pkg.Path, ty.Name, y)
		for i := range idx {
			if i < len(idy) {
				c.Eval(1)
				c.Count("id_comparisons", 1)
				if idx[i].Val != idy[i].Val {
					c.Violation("id-differs-after-roundtrip", wit(map[string]any{"id": idx[i].Name, "from_struct": idx[i].Val, "from_redecoded": idy[i].Val, "encode_msgp_hex": verifMsgpHex(e1)}))
					return
				}
			}
		}
	}
	c.Count("roundtrips_ok", 1)
	if cs.ci == 1 && cs.ti == 0 {
		c.Sample(map[string]any{"package": cs.pkg.Path, "type": ty.Name, "generator": cs.gen, "encoding_hex": verifMsgpHex(e1), "shape": verifMsgpShape(e1)})
	}
}

func verifMsgpTrunc(s string) string {
	if len(s) > 4000 {
		return s[:4000] + "..."
	}
	return s
}

// verifMsgpCanonStructKeyed re-emits a msgpack value with the entries of every map whose keys are ALL maps or arrays
// (i.e. Go maps keyed by a struct/array type) sorted by their raw bytes. Maps with scalar keys (struct field names,
// string/integer keyed Go maps) are left in their original order, so a permutation of those is NOT normalised away.
func verifMsgpCanonStructKeyed(b []byte) ([]byte, bool) {
	var toks []verifMsgpTok
	end, ok := verifMsgpScan(b, 0, 0, &toks)
	if !ok || end != len(b) {
		return nil, false
	}
	i := 0
	var rec func() []byte
	rec = func() []byte {
		t := toks[i]
		i++
		switch t.Kind {
		case 'a':
			out := append([]byte{}, b[t.Off:t.Off+t.Hdr]...)
			for k := 0; k < t.N; k++ {
				out = append(out, rec()...)
			}
			return out
		case 'm':
			out := append([]byte{}, b[t.Off:t.Off+t.Hdr]...)
			type ent struct{ k, v []byte }
			ents := make([]ent, 0, t.N)
			structKeys := t.N > 1
			for k := 0; k < t.N; k++ {
				kk := toks[i].Kind
				if kk != 'm' && kk != 'a' {
					structKeys = false
				}
				key := rec()
				val := rec()
				ents = append(ents, ent{key, val})
			}
			if structKeys {
				sort.Slice(ents, func(x, y int) bool { return string(ents[x].k) < string(ents[y].k) })
			}
			for _, e := range ents {
				out = append(out, e.k...)
				out = append(out, e.v...)
			}
			return out
		default:
			return b[t.Off:t.End]
		}
	}
	return rec(), true
}

// verifMsgpDiffPath explains where two msgpack encodings differ: the path of string keys / indices down to the first
// map whose key sets differ (keys only on one side are listed) or to the first differing scalar. For witnesses only.
func verifMsgpDiffPath(a, b []byte) string {
	type node struct {
		raw  []byte
		kind byte
		keys []string // map keys rendered
		vals []*node  // map values / array elements
	}
	var parse func(buf []byte, toks []verifMsgpTok, i *int) *node
	parse = func(buf []byte, toks []verifMsgpTok, i *int) *node {
		t := toks[*i]
		*i++
		n := &node{raw: buf[t.Off:t.End], kind: t.Kind}
		switch t.Kind {
		case 'a':
			for k := 0; k < t.N; k++ {
				n.vals = append(n.vals, parse(buf, toks, i))
			}
		case 'm':
			for k := 0; k < t.N; k++ {
				kt := toks[*i]
				key := parse(buf, toks, i)
				ks := hex.EncodeToString(key.raw)
				if kt.Kind == 's' {
					ks = string(buf[kt.Off+kt.Hdr : kt.End])
				}
				n.keys = append(n.keys, ks)
				n.vals = append(n.vals, parse(buf, toks, i))
			}
		}
		return n
	}
	var ta, tb []verifMsgpTok
	if _, ok := verifMsgpScan(a, 0, 0, &ta); !ok {
		return "first encoding is not well-formed msgpack"
	}
	if _, ok := verifMsgpScan(b, 0, 0, &tb); !ok {
		return "second encoding is not well-formed msgpack"
	}
	ia, ib := 0, 0
	na, nb := parse(a, ta, &ia), parse(b, tb, &ib)
	var walk func(x, y *node, path string) string
	walk = func(x, y *node, path string) string {
		if string(x.raw) == string(y.raw) {
			return ""
		}
		if x.kind != y.kind {
			return fmt.Sprintf("%s: kind %c vs %c", path, x.kind, y.kind)
		}
		switch x.kind {
		case 'm':
			if strings.Join(x.keys, "\x00") != strings.Join(y.keys, "\x00") {
				inx, iny := map[string]bool{}, map[string]bool{}
				for _, k := range x.keys {
					inx[k] = true
				}
				for _, k := range y.keys {
					iny[k] = true
				}
				var ox, oy []string
				for _, k := range x.keys {
					if !iny[k] {
						ox = append(ox, k)
					}
				}
				for _, k := range y.keys {
					if !inx[k] {
						oy = append(oy, k)
					}
				}
				if len(ox)+len(oy) == 0 {
					return fmt.Sprintf("%s: same keys in a different order: %v vs %v", path, verifMsgpShort(x.keys), verifMsgpShort(y.keys))
				}
				return fmt.Sprintf("%s: keys only in first %v, only in second %v", path, verifMsgpShort(ox), verifMsgpShort(oy))
			}
			for i := range x.vals {
				if s := walk(x.vals[i], y.vals[i], path+"/"+verifMsgpShort1(x.keys[i])); s != "" {
					return s
				}
			}
		case 'a':
			if len(x.vals) != len(y.vals) {
				return fmt.Sprintf("%s: array length %d vs %d", path, len(x.vals), len(y.vals))
			}
			for i := range x.vals {
				if s := walk(x.vals[i], y.vals[i], fmt.Sprintf("%s/%d", path, i)); s != "" {
					return s
				}
			}
		}
		return fmt.Sprintf("%s: %s vs %s", path, verifMsgpShort1(hex.EncodeToString(x.raw)), verifMsgpShort1(hex.EncodeToString(y.raw)))
	}
	return walk(na, nb, "")
}

func verifMsgpShort1(s string) string {
	if len(s) > 40 {
		return s[:40] + "…"
	}
	return s
}

func verifMsgpShort(ss []string) []string {
	out := make([]string, 0, len(ss))
	for i, s := range ss {
		if i >= 12 {
			out = append(out, "…")
			break
		}
		out = append(out, verifMsgpShort1(s))
	}
	return out
}

// ReplayC40 regenerates one boundary-generator case (package path, type name, case index from a witness) with the
// seed in VERIF_SEED and prints the oracle's view of it. Debugging aid: go test -run TestVerifC40Replay with
// VERIF_C40_REPLAY=pkg,type,case.
func ReplayC40(t *testing.T, cd *Codec, pkg, typ string, ci int) {
	c := kit.Start(t, "C40", "replay")
	for pi, p := range msgpmon.Packages() {
		for ti, ty := range p.Types {
			if p.Path != pkg || ty.Name != typ {
				continue
			}
			r := c.Rand(40, uint64(pi), uint64(ti), uint64(ci))
			g := &verifMsgpGen{r: r, ix: verifMsgpIndexOf(p), budget: 40 + r.Intn(200), feat: map[string]int{}}
			o := ty.New()
			g.fill(reflect.ValueOf(o).Elem(), nil, nil, nil, 0)
			e1, e2 := cd.Encode(o), cd.EncodeReflect(o)
			fmt.Printf("features %v\nmsgp    %x\nreflect %x\ndifference: %s\n", g.feat, e1, e2, verifMsgpDiffPath(e1, e2))
			n := verifMsgpNilEmptyPtrs(reflect.ValueOf(o).Elem())
			f1, f2 := cd.Encode(o), cd.EncodeReflect(o)
			fmt.Printf("after replacing %d pointers to empty values by nil: msgp==reflect %v, reflect unchanged %v, difference: %s\n", n, string(f1) == string(f2), string(f2) == string(e2), verifMsgpDiffPath(f1, f2))
		}
	}
}
