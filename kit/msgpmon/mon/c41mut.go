package mon

// Hostile-input construction for C41: structural mutations of valid msgpack encodings, type-directed deep
// nesting, and random bytes. Everything is a pure function of (kit.Rand, base encoding), so parent and child
// processes rebuild the same input from (seed, package, type, case).

import (
	"reflect"

	"verif.local/kit"
)

var verifMsgpMutClasses = []string{
	"valid", "len16", "len32", "u64max", "swap-family", "truncate", "dup-key", "wrong-type", "deep-nest",
	"bitflip", "random-bytes", "insert", "count-off", "recursive-nest", "trailing-bytes", "valid-nonminimal",
}

func verifMsgpHdr(kind byte, n int, width int) []byte {
	be := func(lead byte, w int) []byte {
		out := []byte{lead}
		for i := w - 1; i >= 0; i-- {
			out = append(out, byte(uint64(n)>>(8*uint(i))))
		}
		return out
	}
	switch kind {
	case 'a':
		switch width {
		case 0:
			return []byte{0x90 | byte(n&0x0f)}
		case 16:
			return be(0xdc, 2)
		default:
			return be(0xdd, 4)
		}
	case 'm':
		switch width {
		case 0:
			return []byte{0x80 | byte(n&0x0f)}
		case 16:
			return be(0xde, 2)
		default:
			return be(0xdf, 4)
		}
	case 's':
		switch width {
		case 0:
			return []byte{0xa0 | byte(n&0x1f)}
		case 8:
			return be(0xd9, 1)
		case 16:
			return be(0xda, 2)
		default:
			return be(0xdb, 4)
		}
	default: // bin
		switch width {
		case 0, 8:
			return be(0xc4, 1)
		case 16:
			return be(0xc5, 2)
		default:
			return be(0xc6, 4)
		}
	}
}

func verifMsgpSplice(b []byte, from, to int, repl []byte) []byte {
	out := make([]byte, 0, len(b)-(to-from)+len(repl))
	out = append(out, b[:from]...)
	out = append(out, repl...)
	return append(out, b[to:]...)
}

func verifMsgpPickTok(r *kit.Rand, toks []verifMsgpTok, kinds string) (verifMsgpTok, bool) {
	var cand []int
	for i, t := range toks {
		for k := 0; k < len(kinds); k++ {
			if t.Kind == kinds[k] {
				cand = append(cand, i)
				break
			}
		}
	}
	if len(cand) == 0 {
		return verifMsgpTok{}, false
	}
	return toks[cand[r.Intn(len(cand))]], true
}

func verifMsgpRandomToken(r *kit.Rand) []byte {
	switch r.Intn(12) {
	case 0:
		return []byte{0xc0}
	case 1:
		return []byte{0xc3}
	case 2:
		return []byte{byte(r.Intn(128))}
	case 3:
		return []byte{0xcf, 0xff, 0xff, 0xff, 0xff, 0xff, 0xff, 0xff, 0xff}
	case 4:
		return []byte{0xd3, 0x80, 0, 0, 0, 0, 0, 0, 0}
	case 5:
		return []byte{0xcb, 0x7f, 0xf8, 0, 0, 0, 0, 0, 1} // NaN
	case 6:
		return append([]byte{0xa3}, 'a', 'b', 'c')
	case 7:
		return []byte{0xc4, 0x02, 0xde, 0xad}
	case 8:
		return []byte{0x90}
	case 9:
		return []byte{0x80}
	case 10:
		return []byte{0xd4, 0x05, 0x00} // fixext1
	default:
		return []byte{0x92, 0x01, 0x81, 0xa1, 'k', 0xc0}
	}
}

func verifMsgpNest(depth int, asMap bool) []byte {
	var out []byte
	if asMap {
		out = make([]byte, 0, depth*3+1)
		for i := 0; i < depth; i++ {
			out = append(out, 0x81, 0xa1, 'k')
		}
	} else {
		out = make([]byte, depth, depth+1)
		for i := range out {
			out[i] = 0x91
		}
	}
	return append(out, 0xc0)
}

// verifMsgpMutate applies mutation class k to a valid encoding. ok=false when the class does not apply to this
// encoding (e.g. no map to duplicate a key in); the caller then falls back to another class.
func verifMsgpMutate(r *kit.Rand, e []byte, k string, recursive []byte, caseIdx int) (out []byte, ok bool) {
	var toks []verifMsgpTok
	if _, wf := verifMsgpScan(e, 0, 0, &toks); !wf {
		toks = nil
	}
	switch k {
	case "valid":
		return e, true
	case "len16", "len32":
		t, found := verifMsgpPickTok(r, toks, "sxam")
		if !found {
			return nil, false
		}
		if k == "len16" {
			return verifMsgpSplice(e, t.Off, t.Off+t.Hdr, verifMsgpHdr(t.Kind, 0xffff, 16)), true
		}
		n := []int{0xffffffff, 0x7fffffff, 0x80000000, 0x00010000, 0x7ffffff0}[r.Intn(5)]
		return verifMsgpSplice(e, t.Off, t.Off+t.Hdr, verifMsgpHdr(t.Kind, n, 32)), true
	case "u64max":
		t, found := verifMsgpPickTok(r, toks, "inbsxam")
		if !found {
			return nil, false
		}
		if r.Bool() {
			// replace only the header: the former payload stays behind as garbage
			return verifMsgpSplice(e, t.Off, t.Off+t.Hdr, []byte{0xcf, 0xff, 0xff, 0xff, 0xff, 0xff, 0xff, 0xff, 0xff}), true
		}
		return verifMsgpSplice(e, t.Off, t.End, []byte{0xcf, 0xff, 0xff, 0xff, 0xff, 0xff, 0xff, 0xff, 0xff}), true
	case "swap-family":
		t, found := verifMsgpPickTok(r, toks, "sxam")
		if !found {
			return nil, false
		}
		to := map[byte]byte{'s': 'x', 'x': 's', 'a': 'm', 'm': 'a'}[t.Kind]
		w := 32
		if t.N <= 15 {
			w = 0
		} else if t.N <= 0xffff {
			w = 16
		}
		if to == 'x' && w == 0 {
			w = 8
		}
		if to == 's' && t.N > 31 && w == 0 {
			w = 8
		}
		return verifMsgpSplice(e, t.Off, t.Off+t.Hdr, verifMsgpHdr(to, t.N, w)), true
	case "truncate":
		if len(e) < 2 {
			return nil, false
		}
		// small messages: every offset is reached as the case index advances; big ones: random offset
		cut := (caseIdx / len(verifMsgpMutClasses)) % len(e)
		if len(e) > 300 {
			cut = r.Intn(len(e))
		}
		return append([]byte{}, e[:cut]...), true
	case "dup-key":
		var maps []verifMsgpTok
		for _, t := range toks {
			if t.Kind == 'm' && t.N >= 1 && t.N != 15 && t.N != 0xffff {
				maps = append(maps, t)
			}
		}
		if len(maps) == 0 {
			return nil, false
		}
		t := maps[r.Intn(len(maps))]
		// first entry = the two tokens after the header
		var sub []verifMsgpTok
		kend, ok1 := verifMsgpScan(e, t.Off+t.Hdr, 0, &sub)
		if !ok1 {
			return nil, false
		}
		vend, ok2 := verifMsgpScan(e, kend, 0, &sub)
		if !ok2 {
			return nil, false
		}
		entry := append([]byte{}, e[t.Off+t.Hdr:vend]...)
		w := t.Hdr - 1
		width := map[int]int{0: 0, 2: 16, 4: 32}[w]
		hdr := verifMsgpHdr('m', t.N+1, width)
		// insert the duplicate either right after the original or at the end of the map
		at := vend
		if r.Bool() {
			at = t.End
		}
		out := verifMsgpSplice(e, at, at, entry)
		return verifMsgpSplice(out, t.Off, t.Off+t.Hdr, hdr), true
	case "wrong-type":
		t, found := verifMsgpPickTok(r, toks, "inbfsxam")
		if !found {
			return nil, false
		}
		return verifMsgpSplice(e, t.Off, t.End, verifMsgpRandomToken(r)), true
	case "deep-nest":
		d := []int{100, 254, 255, 256, 257, 1000, 10000}[r.Intn(7)]
		nest := verifMsgpNest(d, r.Bool())
		if t, found := verifMsgpPickTok(r, toks, "inbfsxam"); found && r.Chance(2, 3) {
			return verifMsgpSplice(e, t.Off, t.End, nest), true
		}
		return nest, true
	case "bitflip":
		if len(e) == 0 {
			return nil, false
		}
		out := append([]byte{}, e...)
		for i := 0; i < 1+r.Intn(3); i++ {
			p := r.Intn(len(out))
			if r.Bool() {
				out[p] ^= 1 << uint(r.Intn(8))
			} else {
				out[p] = []byte{0x00, 0x7f, 0x80, 0x8f, 0x90, 0x9f, 0xa0, 0xbf, 0xc0, 0xc1, 0xc4, 0xc6, 0xcf, 0xd9, 0xdb, 0xdc, 0xdd, 0xde, 0xdf, 0xff}[r.Intn(20)]
			}
		}
		return out, true
	case "random-bytes":
		n := r.Intn(48)
		out := r.Bytes(n)
		if n > 0 && r.Bool() {
			out[0] = []byte{0x81, 0x8f, 0x91, 0x9f, 0xde, 0xdf, 0xdc, 0xdd, 0xc4, 0xc6, 0xdb, 0xa1}[r.Intn(12)]
		}
		return out, true
	case "insert":
		t, found := verifMsgpPickTok(r, toks, "inbfsxam")
		if !found {
			return nil, false
		}
		return verifMsgpSplice(e, t.Off, t.Off, verifMsgpRandomToken(r)), true
	case "count-off":
		t, found := verifMsgpPickTok(r, toks, "am")
		if !found {
			return nil, false
		}
		w := map[int]int{0: 0, 2: 16, 4: 32}[t.Hdr-1]
		n := t.N + []int{1, -1, 2, 16}[r.Intn(4)]
		if n < 0 || (w == 0 && n > 15) || (w == 16 && n > 0xffff) {
			n = t.N + 1
			if w == 0 && n > 15 {
				w = 16
			}
		}
		return verifMsgpSplice(e, t.Off, t.Off+t.Hdr, verifMsgpHdr(t.Kind, n, w)), true
	case "recursive-nest":
		if recursive == nil {
			return nil, false
		}
		return recursive, true
	case "trailing-bytes":
		return append(append([]byte{}, e...), r.Bytes(1+r.Intn(8))...), true
	case "valid-nonminimal":
		// the same value with a wider-than-necessary header (decoders must treat it like the minimal form)
		t, found := verifMsgpPickTok(r, toks, "sxam")
		if !found || t.Hdr > 3 {
			return nil, false
		}
		return verifMsgpSplice(e, t.Off, t.Off+t.Hdr, verifMsgpHdr(t.Kind, t.N, 32)), true
	}
	return nil, false
}

// verifMsgpRecursivePath finds, by reflection over the encoded (exported, non "-") fields, a cycle in the type graph
// reachable from t and returns the msgpack prefix leading into the cycle and the bytes of one turn of the cycle.
// Steps: struct field -> fixmap(1)+key; slice -> fixarray(1); pointer -> nothing; map -> fixmap(1)+zero key.
func verifMsgpRecursivePath(t reflect.Type) (prefix, turn []byte, ok bool) {
	type frame struct {
		t   reflect.Type
		off int // length of path bytes when t was entered
	}
	var stack []frame
	var path []byte
	var res struct {
		prefix, turn []byte
		ok           bool
	}
	zeroKey := func(k reflect.Type) ([]byte, bool) {
		switch k.Kind() {
		case reflect.String:
			return []byte{0xa1, 'k'}, true
		case reflect.Uint, reflect.Uint8, reflect.Uint16, reflect.Uint32, reflect.Uint64:
			return []byte{0x01}, true
		case reflect.Array:
			if k.Elem().Kind() == reflect.Uint8 {
				return append(verifMsgpHdr('x', k.Len(), 8), make([]byte, k.Len())...), true
			}
		case reflect.Struct:
			return []byte{0x80}, true
		}
		return nil, false
	}
	budget := 20000
	var visit func(t reflect.Type, depth int)
	visit = func(t reflect.Type, depth int) {
		if res.ok || depth > 14 || budget <= 0 {
			return
		}
		budget--
		switch t.Kind() {
		case reflect.Ptr:
			visit(t.Elem(), depth)
		case reflect.Slice:
			if t.Elem().Kind() == reflect.Uint8 {
				return
			}
			n := len(path)
			path = append(path, 0x91)
			visit(t.Elem(), depth+1)
			path = path[:n]
		case reflect.Map:
			kb, okk := zeroKey(t.Key())
			if !okk {
				return
			}
			n := len(path)
			path = append(append(path, 0x81), kb...)
			visit(t.Elem(), depth+1)
			path = path[:n]
		case reflect.Struct:
			for _, f := range stack {
				if f.t == t {
					res.prefix = append([]byte{}, path[:f.off]...)
					res.turn = append([]byte{}, path[f.off:]...)
					res.ok = len(res.turn) > 0
					return
				}
			}
			stack = append(stack, frame{t, len(path)})
			for i := 0; i < t.NumField() && !res.ok; i++ {
				sf := t.Field(i)
				if sf.PkgPath != "" && !sf.Anonymous {
					continue
				}
				name, skip := verifMsgpCodecName(&sf)
				if skip {
					continue
				}
				ft := sf.Type
				if sf.Anonymous {
					et := ft
					if et.Kind() == reflect.Ptr {
						et = et.Elem()
					}
					if et.Kind() == reflect.Struct {
						if _, tagged := sf.Tag.Lookup("codec"); !tagged || name == sf.Name {
							// embedded struct: flattened into the parent map
							if ft.Kind() == reflect.Struct {
								// visit its fields as if they were ours: push nothing on the path
								saved := stack
								visit(et, depth+1)
								stack = saved
								continue
							}
						}
					}
				}
				n := len(path)
				path = append(path, 0x81)
				path = append(path, verifMsgpHdr('s', len(name), map[bool]int{true: 0, false: 8}[len(name) <= 31])...)
				path = append(path, name...)
				visit(ft, depth+1)
				path = path[:n]
			}
			stack = stack[:len(stack)-1]
		}
	}
	visit(t, 0)
	return res.prefix, res.turn, res.ok
}

func verifMsgpRecursiveInput(prefix, turn []byte, depth int) []byte {
	out := make([]byte, 0, len(prefix)+len(turn)*depth+1)
	out = append(out, prefix...)
	for i := 0; i < depth; i++ {
		out = append(out, turn...)
	}
	return append(out, 0x80)
}
