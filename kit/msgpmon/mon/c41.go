package mon

// C41: decoding untrusted bytes is safe and bounded.
//
// Oracle (never stricter than the property):
//   * no panic escapes protocol.Decode or protocol.MsgpDecoderBytes.Decode, and the process does not die: every input is
//     decoded in a CHILD process (GOMAXPROCS=1) after having been written to disk; a dead child is the violation, with the
//     last input as witness. A panic that protocol.DecodeMsgp turns into an error is legitimate ("returns an error") and is
//     counted and sampled;
//   * after a SUCCESSFUL decode, every slice/map/string whose allocbound is declared (struct tag or //msgp:allocbound;
//     values compiled in-package by the generated table, never guessed) is within it. Sites declared "-", sites without a
//     declaration and sites whose bound cannot be resolved from the package are counted as unchecked;
//   * the generated decoder REJECTS a collection one element over its declared allocbound (probe, per declared site);
//   * bytes allocated by one decode (runtime.MemStats.TotalAlloc delta) <= 1024*(len(input)+MaxSize(type)) + 1 MiB, for
//     types whose generated MaxSize exists, terminates and does not panic; the constant is ~20x the largest ratio observed on
//     the unchanged tree (51 bytes per byte of input+MaxSize, thorough tier) -- the monitor exists to catch a length prefix honoured before
//     it is checked, not to police small constants.
// Trailing bytes after a complete object are accepted by design (go-codec compatibility) and are not a finding.

import (
	"bytes"
	"encoding/json"
	"fmt"
	"os"
	"os/exec"
	"path/filepath"
	"reflect"
	"runtime"
	"runtime/debug"
	"sort"
	"strconv"
	"strings"
	"sync"
	"testing"
	"time"

	"verif.local/kit"
	"verif.local/kit/msgpmon"
)

const (
	verifMsgpAllocFactor = 1024
	verifMsgpAllocSlack  = 1 << 20
)

// ---------------------------------------------------------------------------------------------
// bound walker

type verifMsgpWalk struct {
	ix        *verifMsgpIndex
	checked   int
	unbounded int         // declared "-"
	undecl    int         // no declaration visible from this package (incl. foreign types)
	unres     int         // declared, expression not resolvable in-package
	viol      [][2]string // (site, description)
	secondary [][3]string // (class, site, description): declared bounds that msgp uses for MaxSize only (map key/value bounds, maxtotalbytes)
	pkg       string
	nodes     int
}

func (w *verifMsgpWalk) lenCheck(n int, bounds []int64, what, src string) {
	if len(bounds) == 0 {
		w.undecl++
		return
	}
	switch b := bounds[0]; {
	case b == -1:
		w.unbounded++
	case b == -2:
		w.unres++
	default:
		w.checked++
		if int64(n) > b {
			w.viol = append(w.viol, [2]string{src, fmt.Sprintf("%s has %d elements, declared allocbound %d (%s)", what, n, b, src)})
		}
	}
}

func (w *verifMsgpWalk) walk(v reflect.Value, st reflect.Type, f *reflect.StructField, inherited []int64, path string, depth int) {
	w.nodes++
	if depth > 300 || w.nodes > 2000000 {
		return
	}
	t := v.Type()
	switch v.Kind() {
	case reflect.String:
		bounds, _, src := w.ix.lookup(st, f, t, inherited)
		w.lenCheck(v.Len(), bounds, path, src)
	case reflect.Slice:
		bounds, maxTotal, src := w.ix.lookup(st, f, t, inherited)
		w.lenCheck(v.Len(), bounds, path, src)
		var child []int64
		if len(bounds) > 1 {
			child = bounds[1:]
		}
		if t.Elem().Kind() == reflect.Uint8 {
			return
		}
		if maxTotal > 0 && (t.Elem().Kind() == reflect.String || (t.Elem().Kind() == reflect.Slice && t.Elem().Elem().Kind() == reflect.Uint8)) {
			tot := 0
			for i := 0; i < v.Len(); i++ {
				tot += v.Index(i).Len()
			}
			if int64(tot) > maxTotal {
				w.secondary = append(w.secondary, [3]string{"declared-maxtotalbytes-not-enforced-by-decoder", src, fmt.Sprintf("%s holds %d bytes in total, declared maxtotalbytes %d", path, tot, maxTotal)})
			}
		}
		for i := 0; i < v.Len(); i++ {
			w.walk(v.Index(i), nil, nil, child, path+"[]", depth+1)
		}
	case reflect.Array:
		if t.Elem().Kind() == reflect.Uint8 {
			return
		}
		for i := 0; i < v.Len(); i++ {
			w.walk(v.Index(i), nil, nil, nil, path+"[]", depth+1)
		}
	case reflect.Map:
		bounds, _, src := w.ix.lookup(st, f, t, inherited)
		w.lenCheck(v.Len(), bounds, path, src)
		it := v.MapRange()
		for it.Next() {
			if len(bounds) > 1 && bounds[1] >= 0 && (it.Key().Kind() == reflect.String) && int64(it.Key().Len()) > bounds[1] {
				w.secondary = append(w.secondary, [3]string{"declared-map-key-bound-not-enforced-by-decoder", src, fmt.Sprintf("%s has a key of %d bytes, declared key bound %d", path, it.Key().Len(), bounds[1])})
			}
			w.walk(it.Key(), nil, nil, nil, path+"{key}", depth+1)
			w.walk(it.Value(), nil, nil, nil, path+"{}", depth+1)
		}
	case reflect.Ptr:
		if !v.IsNil() {
			w.walk(v.Elem(), st, f, inherited, path, depth+1)
		}
	case reflect.Struct:
		for i := 0; i < t.NumField(); i++ {
			sf := t.Field(i)
			if sf.PkgPath != "" && !sf.Anonymous {
				continue
			}
			if _, skip := verifMsgpCodecName(&sf); skip {
				continue
			}
			w.walk(v.Field(i), t, &sf, nil, path+"."+sf.Name, depth+1)
		}
	}
}

// ---------------------------------------------------------------------------------------------
// MaxSize, guarded (the generated function panics when the type is unbounded)

func verifMsgpMaxSize(ty msgpmon.Type) (n int, ok bool, why string) {
	if ty.MaxSize == nil {
		return 0, false, "no generated MaxSize"
	}
	if verifMsgpTypeRecursive(reflect.TypeOf(ty.New()).Elem(), map[reflect.Type]int{}) {
		// e.g. SignedTxnWithADMaxSize <-> EvalDeltaMaxSize call each other without end (fatal stack overflow); never called
		return 0, false, "recursive type: the generated MaxSize function does not terminate"
	}
	defer func() {
		if r := recover(); r != nil {
			ok, why = false, fmt.Sprint(r)
		}
	}()
	n = ty.MaxSize()
	if n <= 0 {
		return 0, false, "MaxSize overflows int"
	}
	return n, true, ""
}

// ---------------------------------------------------------------------------------------------
// input construction (shared by parent and child)

type verifMsgpInput struct {
	Class string
	Bytes []byte
	Base  int // length of the valid base encoding
}

type verifMsgpTypeCtx struct {
	p         *msgpmon.Package
	pi, ti    int
	ty        msgpmon.Type
	rt        reflect.Type
	hasRaw    bool
	recPrefix []byte
	recTurn   []byte
	recursive bool
	// unboundedDecl: a slice/map reachable from the type is DECLARED unbounded (allocbound=-). Such a type has no MaxSize and
	// cannot be a network message (agreement crash state, one-time signature secrets, tx tail rows: the node's own disk).
	// Honouring a 2^32-1 length prefix there is what the declaration says (measured on the unchanged tree: a 54-byte
	// agreement.proposalTracker with a map32 header makes make(map) request > 13 GB and run for minutes), so for these types
	// only mutation classes that cannot introduce a 32-bit length are used; this is listed in the evidence.
	unboundedDecl string
}

// verifMsgpTypeRecursive reports whether a cycle of the type graph is reachable from t (complete DFS, no depth limit).
func verifMsgpTypeRecursive(t reflect.Type, state map[reflect.Type]int) bool {
	switch state[t] {
	case 1:
		return true
	case 2:
		return false
	}
	state[t] = 1
	rec := false
	switch t.Kind() {
	case reflect.Ptr, reflect.Slice, reflect.Array:
		rec = verifMsgpTypeRecursive(t.Elem(), state)
	case reflect.Map:
		rec = verifMsgpTypeRecursive(t.Key(), state) || verifMsgpTypeRecursive(t.Elem(), state)
	case reflect.Struct:
		for i := 0; i < t.NumField() && !rec; i++ {
			rec = verifMsgpTypeRecursive(t.Field(i).Type, state)
		}
	}
	state[t] = 2
	return rec
}

// verifMsgpDeclaredUnbounded returns the first reachable slice/map field tagged allocbound=- ("" if none).
func verifMsgpDeclaredUnbounded(t reflect.Type, seen map[reflect.Type]bool) string {
	if seen[t] {
		return ""
	}
	seen[t] = true
	switch t.Kind() {
	case reflect.Ptr, reflect.Slice, reflect.Array:
		return verifMsgpDeclaredUnbounded(t.Elem(), seen)
	case reflect.Map:
		if s := verifMsgpDeclaredUnbounded(t.Key(), seen); s != "" {
			return s
		}
		return verifMsgpDeclaredUnbounded(t.Elem(), seen)
	case reflect.Struct:
		for i := 0; i < t.NumField(); i++ {
			sf := t.Field(i)
			if sf.PkgPath != "" && !sf.Anonymous {
				continue
			}
			if _, skip := verifMsgpCodecName(&sf); skip {
				continue
			}
			k := sf.Type.Kind()
			if (k == reflect.Slice || k == reflect.Map) && verifMsgpTagHas(&sf, "allocbound=-") {
				return t.Name() + "." + sf.Name
			}
			if s := verifMsgpDeclaredUnbounded(sf.Type, seen); s != "" {
				return s
			}
		}
	}
	return ""
}

func verifMsgpMakeTypeCtx(p *msgpmon.Package, pi, ti int) *verifMsgpTypeCtx {
	ty := p.Types[ti]
	tc := &verifMsgpTypeCtx{p: p, pi: pi, ti: ti, ty: ty, rt: reflect.TypeOf(ty.New()).Elem()}
	tc.hasRaw = verifMsgpContainsRaw(tc.rt, map[reflect.Type]bool{})
	tc.recPrefix, tc.recTurn, tc.recursive = verifMsgpRecursivePath(tc.rt)
	tc.unboundedDecl = verifMsgpDeclaredUnbounded(tc.rt, map[reflect.Type]bool{})
	return tc
}

func verifMsgpBuildInput(seed uint64, cd *Codec, tc *verifMsgpTypeCtx, ci int) verifMsgpInput {
	r := kit.NewRand(seed, 41, uint64(tc.pi), uint64(tc.ti), uint64(ci))
	g := &verifMsgpGen{r: r, ix: verifMsgpIndexOf(tc.p), budget: 10 + r.Intn(60), feat: map[string]int{}, small: true}
	o := tc.ty.New()
	g.fill(reflect.ValueOf(o).Elem(), nil, nil, nil, 0)
	if tc.hasRaw {
		verifMsgpFixRaw(reflect.ValueOf(o).Elem(), r)
	}
	e := cd.Encode(o)
	k := verifMsgpMutClasses[ci%len(verifMsgpMutClasses)]
	if tc.unboundedDecl != "" {
		switch k {
		case "len32", "bitflip", "random-bytes":
			k = []string{"len16", "wrong-type", "truncate"}[ci%3]
		}
	}
	var rec []byte
	if k == "recursive-nest" && tc.recursive {
		d := []int{200, 254, 255, 256, 300, 10000}[(ci/len(verifMsgpMutClasses))%6]
		if ci/len(verifMsgpMutClasses) == 3 {
			d = 2000000 // far beyond any stack the limit would allow: fatal if the depth limit is not applied
		}
		rec = verifMsgpRecursiveInput(tc.recPrefix, tc.recTurn, d)
	}
	for try := 0; try < 6; try++ {
		if out, ok := verifMsgpMutate(r, e, k, rec, ci); ok {
			return verifMsgpInput{Class: k, Bytes: out, Base: len(e)}
		}
		k = []string{"bitflip", "truncate", "random-bytes", "wrong-type", "deep-nest", "random-bytes"}[try]
		if tc.unboundedDecl != "" {
			k = []string{"truncate", "wrong-type", "deep-nest", "trailing-bytes", "valid", "valid"}[try]
		}
	}
	if tc.unboundedDecl != "" {
		return verifMsgpInput{Class: "valid", Bytes: e, Base: len(e)}
	}
	return verifMsgpInput{Class: "random-bytes", Bytes: r.Bytes(r.Intn(32)), Base: len(e)}
}

// ---------------------------------------------------------------------------------------------
// child process

type verifMsgpChildViolation struct {
	Key     string         `json:"key"`
	Witness map[string]any `json:"witness"`
}

type verifMsgpChildResult struct {
	Done          bool                        `json:"done"`
	Counters      map[string]int64            `json:"counters"`
	Maxes         map[string]int64            `json:"maxes"`
	Distinct      []string                    `json:"distinct"`
	Samples       []any                       `json:"samples"`
	Violations    []verifMsgpChildViolation   `json:"violations"`
	Unchecked     map[string]string           `json:"alloc_unchecked"`
	Recovered     []string                    `json:"recovered_panics"`
	PerType       map[string]map[string]int64 `json:"per_type"`
	UnboundedDecl map[string]string           `json:"unbounded_decl"`
}

func verifMsgpCases(tier, lane string) int {
	// cases per type; 16 mutation classes. Hostile headers on types with large declared bounds (Payset: 100000 elements)
	// legitimately cost ~150 MB of zeroed memory per decode, which is what bounds these counts.
	n := 640
	if tier == "thorough" {
		n = 3200
		if lane != "plain" {
			n = 96 // the race detector slows these decodes ~50x
		}
	} else if lane != "plain" {
		n = 96
	}
	return n
}

// RunC41Child decodes this child's share of the inputs. Invoked by RunC41 through re-exec of the test binary.
func RunC41Child(t *testing.T, cd *Codec) {
	spec := os.Getenv("VERIF_C41_CHILD") // "k/K"
	if spec == "" {
		t.Skip("not a C41 child")
	}
	var k, K int
	fmt.Sscanf(spec, "%d/%d", &k, &K)
	dir := os.Getenv("VERIF_C41_DIR")
	seed, _ := strconv.ParseUint(os.Getenv("VERIF_SEED"), 10, 64)
	if seed == 0 {
		seed = 1
	}
	tier, lane := os.Getenv("VERIF_TIER"), os.Getenv("VERIF_LANE")
	if lane == "" {
		lane = "plain"
	}
	n := verifMsgpCases(tier, lane)
	res := &verifMsgpChildResult{Counters: map[string]int64{}, Maxes: map[string]int64{}, Unchecked: map[string]string{}, UnboundedDecl: map[string]string{}, PerType: map[string]map[string]int64{}}
	distinct := map[string]bool{}
	cur, err := os.OpenFile(filepath.Join(dir, fmt.Sprintf("current-%d.bin", k)), os.O_CREATE|os.O_RDWR|os.O_TRUNC, 0o644)
	if err != nil {
		t.Fatalf("HARNESS-ERROR: %v", err)
	}
	count := func(name string, d int64) { res.Counters[name] += d }
	max := func(name string, v int64) {
		if v > res.Maxes[name] {
			res.Maxes[name] = v
		}
	}
	viol := func(key string, w map[string]any) {
		if len(res.Violations) < 40 {
			res.Violations = append(res.Violations, verifMsgpChildViolation{key, w})
		}
	}
	debug.SetGCPercent(100)
	var m0, m1 runtime.MemStats
	idx := 0
	for pi, p := range msgpmon.Packages() {
		for ti := range p.Types {
			idx++
			tc := verifMsgpMakeTypeCtx(p, pi, ti)
			tname := p.Path + "." + tc.ty.Name
			maxSize, haveMax, why := verifMsgpMaxSize(tc.ty)
			if !haveMax {
				res.Unchecked[tname] = why
			}
			if tc.unboundedDecl != "" {
				res.UnboundedDecl[tname] = tc.unboundedDecl
			}
			pt := map[string]int64{}
			res.PerType[tname] = pt
			t0 := time.Now()               // reporting only (which types dominate the run); never used in a verdict
			for ci := k; ci < n; ci += K { // K is coprime with the number of mutation classes: every child sees every class
				in := verifMsgpBuildInput(seed, cd, tc, ci)
				// the witness must survive the death of this process: header line + input, before decoding
				hdr := fmt.Sprintf("%s %d %d %s %d\n", tname, ti, ci, in.Class, len(in.Bytes))
				cur.WriteAt([]byte(hdr), 0)
				cur.WriteAt(in.Bytes, int64(len(hdr)))
				cur.Truncate(int64(len(hdr) + len(in.Bytes)))
				obj := tc.ty.New()
				runtime.ReadMemStats(&m0)
				err := cd.Decode(in.Bytes, obj)
				runtime.ReadMemStats(&m1)
				alloc := int64(m1.TotalAlloc - m0.TotalAlloc)
				count("decodes", 1)
				count("class_"+in.Class, 1)
				wit := func(extra map[string]any) map[string]any {
					w := map[string]any{"package": p.Path, "type": tc.ty.Name, "case": ci, "mutation": in.Class, "input_hex": verifMsgpHex(in.Bytes), "input_len": len(in.Bytes),
						"replay": "protocol.Decode(input, new(type)); inputs are rebuilt from kit.NewRand(seed,41,package_index,type_index,case)"}
					for k, v := range extra {
						w[k] = v
					}
					return w
				}
				if err != nil {
					count("decode_errors", 1)
					pt["err"]++
					msg := err.Error()
					switch {
					case strings.HasPrefix(msg, "DecodeMsgp: "):
						count("recovered_panics", 1)
						if len(res.Recovered) < 8 {
							res.Recovered = append(res.Recovered, fmt.Sprintf("%s %s: %s", tname, in.Class, verifMsgpShort1(msg+strings.Repeat(" ", 0))))
						}
					case strings.Contains(msg, "msgp: length overflow"), strings.Contains(msg, "msgp: wanted array of size"):
						count("rejected_over_declared_bound", 1)
					case strings.Contains(msg, "Max depth exceeded"):
						count("rejected_max_depth", 1)
					case strings.Contains(msg, "too few bytes"):
						count("rejected_short", 1)
					}
				} else {
					count("decode_ok", 1)
					count("ok_"+in.Class, 1)
					pt["ok"]++
					w := &verifMsgpWalk{ix: verifMsgpIndexOf(p), pkg: p.Path}
					w.walk(reflect.ValueOf(obj).Elem(), nil, nil, nil, tc.ty.Name, 0)
					count("bound_sites_checked", int64(w.checked))
					count("bound_sites_declared_unbounded", int64(w.unbounded))
					count("bound_sites_undeclared_or_foreign", int64(w.undecl))
					count("bound_sites_unresolved", int64(w.unres))
					if w.checked > 0 {
						distinct[tname+"|"+in.Class+"|ok|"+verifMsgpShape(in.Bytes)] = true
					}
					for _, v := range w.viol {
						viol("collection-exceeds-declared-allocbound:"+v[0], wit(map[string]any{"what": v[1]}))
					}
					for _, v := range w.secondary {
						count("secondary_bound_exceeded", 1)
						viol(v[0]+":"+v[1], wit(map[string]any{"what": v[2], "note": "msgp uses this declaration for MaxSize only; the generated UnmarshalMsg does not check it"}))
					}
				}
				if len(distinct) < 200000 {
					distinct[tname+"|"+in.Class+"|"+strconv.FormatBool(err == nil)] = true
				}
				if haveMax {
					count("alloc_checked", 1)
					bound := float64(verifMsgpAllocFactor)*(float64(len(in.Bytes))+float64(maxSize)) + verifMsgpAllocSlack
					ratio := int64(float64(alloc) * 1000 / (float64(len(in.Bytes)) + float64(maxSize) + 1))
					max("alloc_per_input_plus_maxsize_x1000", ratio)
					if float64(alloc) > bound {
						viol("allocation-exceeds-bound", wit(map[string]any{"allocated_bytes": alloc, "bound_bytes": bound, "maxsize": maxSize}))
					}
				} else {
					count("alloc_unchecked_no_maxsize", 1)
				}
				max("alloc_bytes_max", alloc)
				if alloc > pt["alloc_max"] {
					pt["alloc_max"] = alloc
					pt["alloc_max_input_len"] = int64(len(in.Bytes))
				}
				// second production entry point, which has no panic guard of its own
				if cd.DecodeSequential != nil {
					func() {
						defer func() {
							if r := recover(); r != nil {
								viol("panic-escapes:MsgpDecoderBytes.Decode", wit(map[string]any{"panic": fmt.Sprint(r), "stack": string(debug.Stack())}))
							}
						}()
						o2 := tc.ty.New()
						e2 := cd.DecodeSequential(in.Bytes, o2)
						count("sequential_decodes", 1)
						if (e2 == nil) != (err == nil) && len(in.Bytes) > 0 && !strings.HasPrefix(fmt.Sprint(err), "DecodeMsgp: ") {
							count("entry_points_disagree", 1)
						}
					}()
				}
				pt["ms"] = time.Since(t0).Milliseconds()
				if ci < 2 && len(res.Samples) < 4 {
					res.Samples = append(res.Samples, map[string]any{"type": tname, "mutation": in.Class, "input_hex": verifMsgpHex(in.Bytes), "error": fmt.Sprint(err), "allocated": alloc})
				}
			}
		}
	}
	for d := range distinct {
		res.Distinct = append(res.Distinct, d)
	}
	sort.Strings(res.Distinct)
	res.Done = true
	b, _ := json.Marshal(res)
	if err := os.WriteFile(filepath.Join(dir, fmt.Sprintf("result-%d.json", k)), b, 0o644); err != nil {
		t.Fatalf("HARNESS-ERROR: %v", err)
	}
}

// ---------------------------------------------------------------------------------------------
// parent

// RunC41 spawns the children, merges what they saw, and runs the bound-enforcement probe.
func RunC41(t *testing.T, cd *Codec) {
	c := kit.Start(t, "C41", "decode")
	defer c.Finish()
	c.Rule("for every msgp type of the consensus/network surface (list generated at check time): valid encodings from the boundary generator, mutated per case index by one of " +
		strings.Join(verifMsgpMutClasses, ", ") + " (length prefixes forced to 2^16-1 / 2^32-1 / 2^31.., headers swapped between array/map and str/bin, truncation at every offset of small messages, " +
		"nesting up to 10^4 (2*10^6 once per recursive type, along the type's own recursive path), duplicated map entries, wrong types, random bytes), each decoded by protocol.Decode and by " +
		"MsgpDecoderBytes.Decode in a child process; distinct = distinct (type, mutation class, accepted/rejected, token shape of accepted inputs)")
	c.Assume("allocation bound 1024*(len(input)+MaxSize(type))+1MiB is a monitor against unchecked length prefixes, not a tight bound; bound values come from the package's own constants compiled into the generated table")
	pkgs := msgpmon.Packages()
	if len(pkgs) == 0 {
		c.Harness("no package registered")
	}
	if os.Getenv("VERIF_C41_PROBE_ONLY") != "" { // debugging aid: run the bound-enforcement probe alone
		verifMsgpProbe(c, cd)
		return
	}
	self := os.Getenv("VERIF_SELF")
	if self == "" {
		self = os.Args[0]
	}
	dir := c.Scratch("children")
	defer os.RemoveAll(dir)
	K := 9
	if c.Lane != "plain" {
		K = 7
	}
	type childOut struct {
		err    error
		stderr string
	}
	outs := make([]childOut, K)
	var wg sync.WaitGroup
	for k := 0; k < K; k++ {
		wg.Add(1)
		go func(k int) {
			defer wg.Done()
			cmd := exec.Command(self, "-test.run=^TestVerifC41Child$", "-test.timeout=0", "-test.count=1")
			cmd.Env = append(os.Environ(), fmt.Sprintf("VERIF_C41_CHILD=%d/%d", k, K), "VERIF_C41_DIR="+dir, "GOMAXPROCS=1")
			var buf bytes.Buffer
			cmd.Stdout, cmd.Stderr = &buf, &buf
			outs[k].err = cmd.Run()
			s := buf.String()
			if len(s) > 6000 {
				s = s[:1500] + "\n...\n" + s[len(s)-4500:]
			}
			outs[k].stderr = s
		}(k)
	}
	wg.Wait()
	unchecked := map[string]string{}
	unboundedDecl := map[string]string{}
	perType := map[string]map[string]int64{}
	var recovered []string
	for k := 0; k < K; k++ {
		var res verifMsgpChildResult
		b, err := os.ReadFile(filepath.Join(dir, fmt.Sprintf("result-%d.json", k)))
		if err == nil {
			err = json.Unmarshal(b, &res)
		}
		if err != nil || !res.Done {
			// the child died while decoding: the last input written is the witness
			last, _ := os.ReadFile(filepath.Join(dir, fmt.Sprintf("current-%d.bin", k)))
			hdr, body, _ := bytes.Cut(last, []byte("\n"))
			c.Violation("process-death", map[string]any{"child": k, "exit": fmt.Sprint(outs[k].err), "last_input_header(type ti case class len)": string(hdr),
				"last_input_hex": verifMsgpHex(body), "output_tail": outs[k].stderr})
			c.Count("children_died", 1)
			continue
		}
		c.Count("children_completed", 1)
		for name, v := range res.Counters {
			c.Count(name, int(v))
		}
		for name, v := range res.Maxes {
			c.Max(name, v)
		}
		for _, d := range res.Distinct {
			c.Distinct(d)
		}
		for _, s := range res.Samples {
			c.Sample(s)
		}
		for n, w := range res.Unchecked {
			unchecked[n] = w
		}
		for n, w := range res.UnboundedDecl {
			unboundedDecl[n] = w
		}
		for n, m := range res.PerType {
			if perType[n] == nil {
				perType[n] = map[string]int64{}
			}
			for key, v := range m {
				switch key {
				case "alloc_max_input_len":
				case "alloc_max":
					if v > perType[n]["alloc_max"] {
						perType[n]["alloc_max"], perType[n]["alloc_max_input_len"] = v, m["alloc_max_input_len"]
					}
				default:
					perType[n][key] += v
				}
			}
		}
		recovered = append(recovered, res.Recovered...)
		for _, v := range res.Violations {
			c.Violation(v.Key, v.Witness)
		}
	}
	c.Eval(int(c.Counter("decodes")))
	c.Extra("alloc_oracle_unchecked_types(MaxSize unavailable)", unchecked)
	c.Extra("types_with_declared_unbounded_collections(no 32-bit length prefixes, bit flips or random bytes exercised)", unboundedDecl)
	c.Extra("recovered_panics_sample", recovered)
	// types that never decoded successfully or never failed are listed (coverage honesty)
	var neverOK []string
	big := map[string]any{}
	for n, m := range perType {
		if m["ok"] == 0 {
			neverOK = append(neverOK, n)
		}
		if m["alloc_max"] > 64<<20 {
			big[n] = map[string]int64{"allocated_bytes": m["alloc_max"], "input_len": m["alloc_max_input_len"]}
		}
	}
	sort.Strings(neverOK)
	slow := map[string]int64{}
	for n, m := range perType {
		if m["ms"] > 3000 {
			slow[n] = m["ms"]
		}
	}
	c.Extra("types_taking_over_3s_in_child_ms", slow)
	c.Extra("types_without_successful_decode", neverOK)
	c.Extra("largest_single_decode_allocations_over_64MiB", big)

	verifMsgpProbe(c, cd)

	c.Require("decodes", int64(50*len(pkgs)))
	c.Require("decode_ok", 500)
	c.Require("decode_errors", 500)
	c.Require("rejected_over_declared_bound", 20)
	c.Require("rejected_max_depth", 5)
	c.Require("bound_sites_checked", 200)
	c.Require("alloc_checked", 500)
	c.Require("probe_over_bound_rejected", 20)
	c.Require("children_completed", 1)
}

// ---------------------------------------------------------------------------------------------
// probe: one element over every declared allocbound must be rejected by the generated decoder

func verifMsgpFindType(p *msgpmon.Package, name string) (msgpmon.Type, bool) {
	for _, ty := range p.Types {
		if ty.Name == name {
			return ty, true
		}
	}
	return msgpmon.Type{}, false
}

// verifMsgpSetLen makes v (slice/map/string, possibly behind pointers) hold exactly n elements. Slice elements and
// map values are copies of one generated valid element (so that only the length can be the reason for a rejection).
func verifMsgpSetLen(v reflect.Value, n int, g *verifMsgpGen) bool {
	for v.Kind() == reflect.Ptr {
		if v.IsNil() {
			v.Set(reflect.New(v.Type().Elem()))
		}
		v = v.Elem()
	}
	t := v.Type()
	switch v.Kind() {
	case reflect.String:
		v.SetString(strings.Repeat("a", n))
		return true
	case reflect.Slice:
		s := reflect.MakeSlice(t, n, n)
		if t.Elem().Kind() != reflect.Uint8 && n > 0 {
			g.budget = 30
			g.fill(s.Index(0), nil, nil, nil, 3)
			for i := 1; i < n; i++ {
				s.Index(i).Set(s.Index(0))
			}
		}
		v.Set(s)
		return true
	case reflect.Map:
		m := reflect.MakeMapWithSize(t, n)
		e := reflect.New(t.Elem()).Elem()
		g.budget = 30
		g.fill(e, nil, nil, nil, 3)
		for i := 0; i < n; i++ {
			k := reflect.New(t.Key()).Elem()
			switch k.Kind() {
			case reflect.String:
				k.SetString(strconv.Itoa(i))
			case reflect.Uint, reflect.Uint8, reflect.Uint16, reflect.Uint32, reflect.Uint64:
				if k.Type().Bits() < 64 && uint64(n) >= uint64(1)<<uint(k.Type().Bits()) {
					return false
				}
				k.SetUint(uint64(i))
			case reflect.Int, reflect.Int32, reflect.Int64:
				k.SetInt(int64(i))
			case reflect.Array:
				if k.Type().Elem().Kind() != reflect.Uint8 || k.Len() < 4 {
					return false
				}
				for b := 0; b < 4; b++ {
					k.Index(b).SetUint(uint64(byte(i >> (8 * uint(b)))))
				}
			default:
				return false
			}
			m.SetMapIndex(k, e)
		}
		v.Set(m)
		return true
	}
	return false
}

type verifMsgpOwner struct {
	ty    msgpmon.Type
	index []int // field index path inside ty (empty for a named-type bound)
}

// verifMsgpOwners lists the generated types whose decoder contains the check of bound b: the declaring type itself and,
// for a struct-field bound, every type of the package into which the struct is flattened by embedding.
func verifMsgpOwners(p *msgpmon.Package, b *msgpmon.Bound) []verifMsgpOwner {
	var out []verifMsgpOwner
	for _, ty := range p.Types {
		rt := reflect.TypeOf(ty.New()).Elem()
		if b.Named != "" {
			if ty.Name == b.Named {
				out = append(out, verifMsgpOwner{ty: ty})
			}
			continue
		}
		if rt.Kind() != reflect.Struct {
			continue
		}
		for _, vf := range reflect.VisibleFields(rt) {
			if vf.Name != b.Field || vf.Anonymous {
				continue
			}
			// declaring struct = type reached by the index path without its last step
			dt := rt
			okPath := true
			for _, x := range vf.Index[:len(vf.Index)-1] {
				f := dt.Field(x)
				if !f.Anonymous {
					okPath = false
					break
				}
				dt = f.Type
				if dt.Kind() == reflect.Ptr {
					dt = dt.Elem()
				}
			}
			if okPath && dt.Name() == b.Struct && dt.PkgPath() == rt.PkgPath() {
				out = append(out, verifMsgpOwner{ty: ty, index: vf.Index})
			}
		}
	}
	return out
}

func verifMsgpProbe(c *kit.Ctx, cd *Codec) {
	var unprobed []string
	for pi, p := range msgpmon.Packages() {
		ix := verifMsgpIndexOf(p)
		for bi := range p.Bounds {
			b := &p.Bounds[bi]
			site := p.Path + "." + b.Named
			owner := b.Named
			if b.Named == "" {
				site = p.Path + "." + b.Struct + "." + b.Field
				owner = b.Struct
			}
			owners := verifMsgpOwners(p, b)
			if len(owners) == 0 {
				unprobed = append(unprobed, site+": no type with a generated codec declares or embeds "+owner)
				continue
			}
			baseSite := site
			for _, own := range owners {
				ty := own.ty
				site := baseSite
				if ty.Name != owner {
					site = baseSite + "(in " + ty.Name + ")" // the struct is flattened into ty: ty's decoder has its own copy of the check
				}
				target := func(o msgpmon.Obj) (reflect.Value, bool) {
					v := reflect.ValueOf(o).Elem()
					for i, x := range own.index {
						for v.Kind() == reflect.Ptr {
							if v.IsNil() {
								if !v.CanSet() {
									return v, false
								}
								v.Set(reflect.New(v.Type().Elem()))
							}
							v = v.Elem()
						}
						v = v.Field(x)
						if i == len(own.index)-1 && !v.CanSet() {
							return v, false
						}
					}
					return v, true
				}
				for level, bound := range b.Bounds {
					if bound < 0 {
						c.Count("probe_sites_declared_unbounded_or_unresolved", 1)
						continue
					}
					tv, ok := target(ty.New())
					if !ok {
						unprobed = append(unprobed, site+": field not settable")
						break
					}
					kind := tv.Type()
					for kind.Kind() == reflect.Ptr {
						kind = kind.Elem()
					}
					isMap := kind.Kind() == reflect.Map
					if level > 0 && isMap {
						// map key / value bounds: used by msgp for MaxSize only; probed as a separate class below
						if level == 1 && kind.Key().Kind() == reflect.String {
							o := ty.New()
							v, _ := target(o)
							for v.Kind() == reflect.Ptr {
								v.Set(reflect.New(v.Type().Elem()))
								v = v.Elem()
							}
							m := reflect.MakeMap(kind)
							k := reflect.New(kind.Key()).Elem()
							k.SetString(strings.Repeat("k", int(bound)+1))
							m.SetMapIndex(k, reflect.New(kind.Elem()).Elem())
							v.Set(m)
							e := cd.Encode(o)
							c.Eval(1)
							if err := cd.Decode(e, ty.New()); err == nil {
								c.Count("probe_secondary_bound_accepted", 1)
								c.Violation("declared-map-key-bound-not-enforced-by-decoder:"+site, map[string]any{"site": site, "declared": b.Src, "key_bound": bound, "key_len": bound + 1,
									"input_hex": verifMsgpHex(e), "note": "msgp uses the 2nd/3rd allocbound of a map for MaxSize only; the generated UnmarshalMsg does not check it"})
							} else {
								c.Count("probe_secondary_bound_rejected", 1)
							}
						}
						continue
					}
					limit := int64(200000)
					ek := kind.Kind()
					if ek == reflect.String || (ek == reflect.Slice && kind.Elem().Kind() == reflect.Uint8) {
						limit = 8 << 20
					}
					if level > 1 || bound+1 > limit {
						unprobed = append(unprobed, fmt.Sprintf("%s[level %d]: bound %d too large to probe", site, level, bound))
						continue
					}
					for _, n := range []int64{bound + 1, bound} {
						r := c.Rand(42, uint64(pi), uint64(bi), uint64(level))
						g := &verifMsgpGen{r: r, ix: ix, budget: 30, feat: map[string]int{}, small: true}
						// start from an instance the decoder accepts (required fields present, ...), so that only the probed
						// collection can be the reason for a rejection
						o := ty.New()
						baseErr := ""
						for try := 0; try < 30; try++ {
							cand := ty.New()
							g.budget = 25
							g.fill(reflect.ValueOf(cand).Elem(), nil, nil, nil, 0)
							var derr error
							c.Guard("encode", map[string]any{"site": site}, func() { derr = cd.Decode(cd.Encode(cand), ty.New()) })
							if derr == nil {
								o, baseErr = cand, ""
								break
							}
							baseErr = derr.Error()
						}
						if baseErr != "" && n > bound {
							unprobed = append(unprobed, fmt.Sprintf("%s: no generated base instance was accepted by the decoder (last: %s)", site, verifMsgpShort1(baseErr)))
						}
						v, _ := target(o)
						okSet := false
						if level == 0 {
							okSet = verifMsgpSetLen(v, int(n), g)
						} else {
							// level 1: outer slice of one element, inner collection of n
							for v.Kind() == reflect.Ptr {
								v.Set(reflect.New(v.Type().Elem()))
								v = v.Elem()
							}
							if v.Kind() == reflect.Slice {
								s := reflect.MakeSlice(v.Type(), 1, 1)
								okSet = verifMsgpSetLen(s.Index(0), int(n), g)
								v.Set(s)
							}
						}
						if !okSet {
							unprobed = append(unprobed, fmt.Sprintf("%s[level %d]: cannot build a collection of this kind", site, level))
							break
						}
						var e []byte
						if c.Guard("encode", map[string]any{"site": site}, func() { e = cd.Encode(o) }) {
							break
						}
						var err error
						c.Guard("decode", map[string]any{"site": site, "len": n}, func() { err = cd.Decode(e, ty.New()) })
						c.Eval(1)
						over := n > bound
						switch {
						case over && err == nil:
							c.Violation("allocbound-not-enforced-by-decoder:"+site, map[string]any{"site": site, "declared": b.Src, "level": level, "bound": bound, "elements": n,
								"input_len": len(e), "input_hex": verifMsgpHex(e)})
						case over && (strings.Contains(err.Error(), "msgp: length overflow") || strings.Contains(err.Error(), "msgp: wanted array of size")):
							c.Count("probe_over_bound_rejected", 1)
							c.Distinct("probe|" + site + "|" + strconv.Itoa(level))
						case over:
							c.Count("probe_over_bound_rejected_for_another_reason", 1)
							unprobed = append(unprobed, fmt.Sprintf("%s[level %d]: bound+1 rejected with %q (inconclusive for the bound)", site, level, verifMsgpShort1(err.Error())))
						case err == nil:
							c.Count("probe_at_bound_accepted", 1)
						default:
							c.Count("probe_at_bound_rejected", 1)
							// not a verdict: the elements built for the probe may themselves be what the decoder rejects
						}
					}
				}
				// maxtotalbytes: a MaxSize-only declaration in msgp; probe whether the decoder accepts more
				if b.MaxTotal > 0 && b.Named == "" {
					o := ty.New()
					v, ok := target(o)
					if ok {
						for v.Kind() == reflect.Ptr {
							v.Set(reflect.New(v.Type().Elem()))
							v = v.Elem()
						}
						t := v.Type()
						if t.Kind() == reflect.Slice && (t.Elem().Kind() == reflect.String || (t.Elem().Kind() == reflect.Slice && t.Elem().Elem().Kind() == reflect.Uint8)) {
							cnt, each := int64(1), b.MaxTotal+1
							if len(b.Bounds) > 1 && b.Bounds[1] >= 0 && each > b.Bounds[1] {
								each = b.Bounds[1]
								cnt = b.MaxTotal/each + 1
							}
							feasible := len(b.Bounds) == 0 || b.Bounds[0] < 0 || cnt <= b.Bounds[0]
							if feasible && cnt*each < 64<<20 {
								s := reflect.MakeSlice(t, int(cnt), int(cnt))
								for i := 0; i < int(cnt); i++ {
									verifMsgpSetLen(s.Index(i), int(each), nil)
								}
								v.Set(s)
								e := cd.Encode(o)
								c.Eval(1)
								if err := cd.Decode(e, ty.New()); err == nil {
									c.Count("probe_secondary_bound_accepted", 1)
									c.Violation("declared-maxtotalbytes-not-enforced-by-decoder:"+site, map[string]any{"site": site, "declared": b.MaxTotalSrc, "maxtotalbytes": b.MaxTotal,
										"elements": cnt, "bytes_each": each, "input_len": len(e), "note": "msgp uses maxtotalbytes for MaxSize only; the generated UnmarshalMsg does not check it"})
								} else {
									c.Count("probe_secondary_bound_rejected", 1)
								}
							} else {
								unprobed = append(unprobed, site+": maxtotalbytes cannot be exceeded within the element bounds (or too large)")
							}
						} else {
							unprobed = append(unprobed, site+": maxtotalbytes on a non byte-slice collection (MaxSize hint only)")
						}
					}
				}
			}
		}
	}
	sort.Strings(unprobed)
	c.Extra("probe_unprobed_sites", unprobed)
}
