// Package msgpmon is the registry of msgp-generated types used by the C40/C41 monitors. It is imported by the generated
// in-package files /verif/harness/<pkg>/verif_c40gen.go (tools/gen_msgp_harness.py), so it is kept minimal and stable
// (standard library only): changing it recompiles every go-algorand package. The monitor logic is in msgpmon/mon.
package msgpmon

import "sort"

// Obj is the method set shared by every msgp-generated type (pointer receiver).
type Obj interface {
	MarshalMsg([]byte) []byte
	CanMarshalMsg(o interface{}) bool
	UnmarshalMsg([]byte) ([]byte, error)
	CanUnmarshalMsg(o interface{}) bool
	Msgsize() int
	MsgIsZero() bool
}

// Type is one msgp-generated type of a package.
type Type struct {
	Name    string
	New     func() Obj
	MaxSize func() int // generated <Type>MaxSize, nil if absent; may panic ("... is unbounded")
}

// Bound is one declared bound: a struct-field tag (Struct/Field) or a //msgp:allocbound directive (Named).
// Bounds[i] == -1 means declared unbounded ("-"). For slices Bounds[0] limits the length and Bounds[1:] is
// handed to the element; for maps Bounds[0] limits the entry count (enforced by the generated decoder) and
// Bounds[1]/Bounds[2] are the key/value bounds, which msgp uses for MaxSize only.
type Bound struct {
	Named, Struct, Field, Codec string
	// Eval yields Bounds and MaxTotal. It is called at test time, not at init time: several bound "constants"
	// (config/bounds.Max...) are variables computed by init functions of other packages.
	Eval        func() ([]int64, int64)
	Bounds      []int64
	Src         []string
	MaxTotal    int64
	MaxTotalSrc string
	File        string
}

// Package is the registered table of one go-algorand package.
type Package struct {
	Path   string // path inside the repo, e.g. "data/transactions"
	Types  []Type
	Bounds []Bound
}

var registry []*Package

// Register is called from the generated in-package init functions.
func Register(path string, types []Type, bounds []Bound) {
	p := &Package{Path: path, Types: types, Bounds: bounds}
	registry = append(registry, p)
	sort.Slice(registry, func(i, j int) bool { return registry[i].Path < registry[j].Path })
}

// Packages returns the registered packages sorted by path.
func Packages() []*Package { return registry }
