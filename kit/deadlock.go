package kit

import (
	"time"

	deadlock "github.com/algorand/go-deadlock"
)

// go-algorand's mutexes (go-deadlock) exit the process with status 2 when a lock has been
// waited for longer than 30 s of WALL CLOCK. On a loaded machine (race lane, many checks in
// parallel) a ledger reload legitimately holds trackerMu that long, so the watchdog is a
// wall-clock verdict: it is widened to one hour in harness processes (everything else as default;
// a value <= 0 would change which recursive-lock checks run, so it is not used).
// A real deadlock still ends the run through the driver's per-part timeout (inconclusive).
func init() {
	deadlock.Opts.DeadlockTimeout = time.Hour
}
