module verif.local/kit

go 1.23

require github.com/algorand/go-deadlock v0.2.5

require github.com/petermattis/goid v0.0.0-20250813065127-a731cc31b4fe // indirect
