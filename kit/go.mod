module verif.local/kit

go 1.23
