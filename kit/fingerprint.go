package kit

import (
	"crypto/sha256"
	"encoding/hex"
	"fmt"
	"reflect"
	"sort"
	"strings"
	"unsafe"
)

// FPOptions controls Fingerprint.
type FPOptions struct {
	// NilEqualsEmpty treats nil and empty slices/maps as equal.
	NilEqualsEmpty bool
	// Skip lists "TypeName.FieldName" pairs to ignore.
	Skip map[string]bool
	// ExportedOnly ignores unexported struct fields.
	ExportedOnly bool
	// MaxDepth cuts recursion (0 = 64).
	MaxDepth int
}

// Fingerprint returns a deterministic structural description hash of v (maps sorted, pointers
// followed, cycles cut, unexported fields included unless ExportedOnly).
func Fingerprint(v any, o FPOptions) string {
	var sb strings.Builder
	fpWrite(&sb, reflect.ValueOf(v), &o, 0, map[uintptr]bool{})
	s := sha256.Sum256([]byte(sb.String()))
	return hex.EncodeToString(s[:12])
}

// Describe returns the canonical text the fingerprint hashes (for witnesses / diffs).
func Describe(v any, o FPOptions) string {
	var sb strings.Builder
	fpWrite(&sb, reflect.ValueOf(v), &o, 0, map[uintptr]bool{})
	return sb.String()
}

func fpWrite(sb *strings.Builder, v reflect.Value, o *FPOptions, depth int, seen map[uintptr]bool) {
	max := o.MaxDepth
	if max == 0 {
		max = 64
	}
	if depth > max {
		sb.WriteString("<depth>")
		return
	}
	if !v.IsValid() {
		sb.WriteString("<nil>")
		return
	}
	switch v.Kind() {
	case reflect.Bool:
		fmt.Fprintf(sb, "%v", v.Bool())
	case reflect.Int, reflect.Int8, reflect.Int16, reflect.Int32, reflect.Int64:
		fmt.Fprintf(sb, "%d", v.Int())
	case reflect.Uint, reflect.Uint8, reflect.Uint16, reflect.Uint32, reflect.Uint64, reflect.Uintptr:
		fmt.Fprintf(sb, "%d", v.Uint())
	case reflect.Float32, reflect.Float64:
		fmt.Fprintf(sb, "%v", v.Float())
	case reflect.Complex64, reflect.Complex128:
		fmt.Fprintf(sb, "%v", v.Complex())
	case reflect.String:
		fmt.Fprintf(sb, "%q", v.String())
	case reflect.Slice:
		if v.IsNil() {
			if o.NilEqualsEmpty {
				sb.WriteString("[]")
			} else {
				sb.WriteString("nil[]")
			}
			return
		}
		fallthrough
	case reflect.Array:
		if v.Type().Elem().Kind() == reflect.Uint8 {
			n := v.Len()
			b := make([]byte, n)
			for i := 0; i < n; i++ {
				b[i] = byte(v.Index(i).Uint())
			}
			sb.WriteString("x'" + hex.EncodeToString(b) + "'")
			return
		}
		sb.WriteString("[")
		for i := 0; i < v.Len(); i++ {
			if i > 0 {
				sb.WriteString(",")
			}
			fpWrite(sb, v.Index(i), o, depth+1, seen)
		}
		sb.WriteString("]")
	case reflect.Map:
		if v.IsNil() {
			if o.NilEqualsEmpty {
				sb.WriteString("{}")
			} else {
				sb.WriteString("nil{}")
			}
			return
		}
		type kv struct{ k, v string }
		var items []kv
		it := v.MapRange()
		for it.Next() {
			var kb, vb strings.Builder
			fpWrite(&kb, it.Key(), o, depth+1, seen)
			fpWrite(&vb, it.Value(), o, depth+1, seen)
			items = append(items, kv{kb.String(), vb.String()})
		}
		sort.Slice(items, func(i, j int) bool { return items[i].k < items[j].k })
		sb.WriteString("{")
		for i, e := range items {
			if i > 0 {
				sb.WriteString(",")
			}
			sb.WriteString(e.k + ":" + e.v)
		}
		sb.WriteString("}")
	case reflect.Ptr:
		if v.IsNil() {
			sb.WriteString("nil*")
			return
		}
		p := v.Pointer()
		if seen[p] {
			sb.WriteString("<cycle>")
			return
		}
		seen[p] = true
		sb.WriteString("&")
		fpWrite(sb, v.Elem(), o, depth+1, seen)
		delete(seen, p)
	case reflect.Interface:
		if v.IsNil() {
			sb.WriteString("nil-iface")
			return
		}
		sb.WriteString("(" + v.Elem().Type().String() + ")")
		fpWrite(sb, v.Elem(), o, depth+1, seen)
	case reflect.Struct:
		t := v.Type()
		sb.WriteString(t.Name() + "{")
		for i := 0; i < v.NumField(); i++ {
			f := t.Field(i)
			if o.Skip != nil && (o.Skip[t.Name()+"."+f.Name] || o.Skip[f.Name]) {
				continue
			}
			fv := v.Field(i)
			if f.PkgPath != "" { // unexported
				if o.ExportedOnly {
					continue
				}
				if fv.CanAddr() {
					fv = reflect.NewAt(fv.Type(), unsafe.Pointer(fv.UnsafeAddr())).Elem()
				} else {
					// copy into addressable storage
					cp := reflect.New(t).Elem()
					cp.Set(v)
					fv = cp.Field(i)
					fv = reflect.NewAt(fv.Type(), unsafe.Pointer(fv.UnsafeAddr())).Elem()
				}
			}
			sb.WriteString(f.Name + "=")
			fpWrite(sb, fv, o, depth+1, seen)
			sb.WriteString(";")
		}
		sb.WriteString("}")
	case reflect.Chan, reflect.Func, reflect.UnsafePointer:
		if v.IsNil() {
			sb.WriteString("nil-" + v.Kind().String())
		} else {
			sb.WriteString("<" + v.Kind().String() + ">")
		}
	default:
		sb.WriteString("<?>")
	}
}
