// Package kit is the shared runtime-monitoring support library used by every
// harness under /verif/harness. It depends on the standard library only, so it
// can be imported from test files injected into any go-algorand package.
package kit

import (
	"encoding/json"
	"fmt"
	"hash/fnv"
	"os"
	"path/filepath"
	"runtime/debug"
	"sort"
	"strconv"
	"strings"
	"sync"
	"testing"
	"time"
)

// Ctx collects what one check part observed and forms the verdict.
type Ctx struct {
	Prop string
	Part string
	Tier string
	Lane string
	Seed uint64

	t     testing.TB
	mu    sync.Mutex
	start time.Time

	evals      int64
	distinct   map[uint64]struct{}
	counters   map[string]int64
	samples    []any
	sampleCap  int
	rule       string
	assume     []string
	required   map[string]int64
	violations int
	knownHits  map[string]int
	vioKeys    map[string]int
	observ     []string
	exhaustive bool
	finished   bool
	extra      map[string]any
}

type finding struct {
	Status   string `json:"status"`
	Property string `json:"property"`
	Key      string `json:"key"`
	What     string `json:"what"`
}

var (
	findingsOnce sync.Once
	findings     []finding
)

func loadFindings() {
	findingsOnce.Do(func() {
		p := os.Getenv("VERIF_FINDINGS")
		if p == "" {
			p = "/verif/known-findings.jsonl"
		}
		b, err := os.ReadFile(p)
		if err != nil {
			return
		}
		for _, ln := range strings.Split(string(b), "\n") {
			ln = strings.TrimSpace(ln)
			if ln == "" || strings.HasPrefix(ln, "#") {
				continue
			}
			var f finding
			if json.Unmarshal([]byte(ln), &f) == nil {
				findings = append(findings, f)
			}
		}
	})
}

// Start begins a check part. part distinguishes several test functions serving one property.
func Start(t testing.TB, prop, part string) *Ctx {
	seed := uint64(1)
	if s := os.Getenv("VERIF_SEED"); s != "" {
		if v, err := strconv.ParseUint(s, 10, 64); err == nil {
			seed = v
		} else if v, err := strconv.ParseInt(s, 10, 64); err == nil {
			seed = uint64(v)
		}
	}
	tier := os.Getenv("VERIF_TIER")
	if tier != "thorough" {
		tier = "quick"
	}
	lane := os.Getenv("VERIF_LANE")
	if lane == "" {
		lane = "plain"
	}
	c := &Ctx{Prop: prop, Part: part, Tier: tier, Lane: lane, Seed: seed, t: t, start: time.Now(),
		distinct: map[uint64]struct{}{}, counters: map[string]int64{}, required: map[string]int64{},
		knownHits: map[string]int{}, vioKeys: map[string]int{}, sampleCap: 6, extra: map[string]any{}}
	loadFindings()
	return c
}

// Quick reports whether the quick tier is running.
func (c *Ctx) Quick() bool { return c.Tier != "thorough" }

// N picks a case count by tier.
func (c *Ctx) N(quick, thorough int) int {
	if c.Quick() {
		return quick
	}
	return thorough
}

// Scratch returns a fresh scratch directory outside /repo, /verif and /tmp.
func (c *Ctx) Scratch(name string) string {
	base := os.Getenv("VERIF_SCRATCH")
	if base == "" {
		base = filepath.Join("/var/tmp/verif-run", strconv.Itoa(os.Getpid()))
	}
	d := filepath.Join(base, fmt.Sprintf("%s-%s-%d", c.Prop, name, time.Now().UnixNano()))
	if err := os.MkdirAll(d, 0o755); err != nil {
		c.Harness("scratch: %v", err)
	}
	return d
}

// Eval counts oracle evaluations.
func (c *Ctx) Eval(n int) {
	c.mu.Lock()
	c.evals += int64(n)
	c.mu.Unlock()
}

// Distinct records a non-trivial case key; the number of distinct keys is distinct_nontrivial.
func (c *Ctx) Distinct(key string) {
	h := fnv.New64a()
	h.Write([]byte(key))
	v := h.Sum64()
	c.mu.Lock()
	c.distinct[v] = struct{}{}
	c.mu.Unlock()
}

// DistinctCount returns the number of distinct keys so far.
func (c *Ctx) DistinctCount() int {
	c.mu.Lock()
	defer c.mu.Unlock()
	return len(c.distinct)
}

// Count adds to a named event counter.
func (c *Ctx) Count(name string, n int) {
	c.mu.Lock()
	c.counters[name] += int64(n)
	c.mu.Unlock()
}

// Max keeps the maximum of a named gauge.
func (c *Ctx) Max(name string, v int64) {
	c.mu.Lock()
	if cur, ok := c.counters[name]; !ok || v > cur {
		c.counters[name] = v
	}
	c.mu.Unlock()
}

// Counter reads a counter.
func (c *Ctx) Counter(name string) int64 {
	c.mu.Lock()
	defer c.mu.Unlock()
	return c.counters[name]
}

// Sample keeps a few concrete observed cases for the evidence file.
func (c *Ctx) Sample(v any) {
	c.mu.Lock()
	if len(c.samples) < c.sampleCap {
		c.samples = append(c.samples, v)
	}
	c.mu.Unlock()
}

// Rule describes generation and what counts as distinct/non-trivial.
func (c *Ctx) Rule(s string) { c.mu.Lock(); c.rule = s; c.mu.Unlock() }

// Assume records an assumption / trusted base item.
func (c *Ctx) Assume(s string) { c.mu.Lock(); c.assume = append(c.assume, s); c.mu.Unlock() }

// Exhaustive marks the run as a complete enumeration of a finite space.
func (c *Ctx) Exhaustive() { c.mu.Lock(); c.exhaustive = true; c.mu.Unlock() }

// Extra adds a free-form key to coverage.
func (c *Ctx) Extra(k string, v any) { c.mu.Lock(); c.extra[k] = v; c.mu.Unlock() }

// Require is the vacuity guard: at Finish counter name must be >= min or the run is inconclusive.
func (c *Ctx) Require(name string, min int64) { c.mu.Lock(); c.required[name] = min; c.mu.Unlock() }

// Observation records something worth reporting that is not a violation.
func (c *Ctx) Observation(format string, a ...any) {
	s := fmt.Sprintf(format, a...)
	c.mu.Lock()
	if len(c.observ) < 20 {
		c.observ = append(c.observ, s)
	}
	c.mu.Unlock()
}

func replayDir() string {
	d := os.Getenv("VERIF_REPLAY_DIR")
	if d == "" {
		d = "/verif/build/replay"
	}
	os.MkdirAll(d, 0o755)
	return d
}

// Violation reports a violation identified by its finding key (a class, not random bytes).
// If /verif/known-findings.jsonl lists (property,key) as known, a KNOWN-FINDING line is printed
// instead (once per key) and the run continues. Returns true if it was a new violation.
func (c *Ctx) Violation(key string, witness any) bool {
	c.mu.Lock()
	defer c.mu.Unlock()
	for _, f := range findings {
		if f.Status == "known" && f.Property == c.Prop && f.Key == key {
			if c.knownHits[key] == 0 {
				fmt.Printf("KNOWN-FINDING: property=%s %s (key=%s)\n", c.Prop, f.What, key)
			}
			c.knownHits[key]++
			return false
		}
	}
	c.vioKeys[key]++
	c.violations++
	if c.vioKeys[key] > 3 { // do not flood; first witnesses are kept
		return true
	}
	path := filepath.Join(replayDir(), fmt.Sprintf("%s-%s-%s-seed%d-%d.json", c.Prop, c.Part, c.Lane, c.Seed, c.violations))
	w := map[string]any{"property": c.Prop, "part": c.Part, "tier": c.Tier, "lane": c.Lane, "seed": c.Seed,
		"finding_key": key, "witness": witness}
	b, err := json.MarshalIndent(w, "", " ")
	if err != nil {
		b = []byte(fmt.Sprintf("{\"property\":%q,\"finding_key\":%q,\"witness\":%q}", c.Prop, key, fmt.Sprintf("%+v", witness)))
	}
	os.WriteFile(path, b, 0o644)
	fmt.Printf("VIOLATION property=%s replay=%s\n", c.Prop, path)
	fmt.Printf("  key=%s witness=%s\n", key, truncate(fmt.Sprintf("%+v", witness), 1500))
	return true
}

// Violations returns the number of (new) violations so far.
func (c *Ctx) Violations() int { c.mu.Lock(); defer c.mu.Unlock(); return c.violations }

func truncate(s string, n int) string {
	if len(s) > n {
		return s[:n] + "…"
	}
	return s
}

// Harness reports a harness/infrastructure error: the run is inconclusive (exit 2), never a verdict.
func (c *Ctx) Harness(format string, a ...any) {
	fmt.Printf("HARNESS-ERROR property=%s part=%s: %s\n", c.Prop, c.Part, fmt.Sprintf(format, a...))
	c.t.FailNow()
}

// Guard runs f and converts a panic coming out of the code under test into a violation
// (key "panic:<class>"), with the stack as witness.
func (c *Ctx) Guard(class string, input any, f func()) (panicked bool) {
	defer func() {
		if r := recover(); r != nil {
			panicked = true
			c.Violation("panic:"+class, map[string]any{"panic": fmt.Sprint(r), "input": input, "stack": string(debug.Stack())})
		}
	}()
	f()
	return false
}

type partial struct {
	Property   string           `json:"property_id"`
	Part       string           `json:"part"`
	Tier       string           `json:"tier"`
	Lane       string           `json:"lane"`
	Seed       uint64           `json:"seed"`
	Evals      int64            `json:"evaluations"`
	Distinct   int              `json:"distinct_nontrivial"`
	Rule       string           `json:"rule"`
	Samples    []any            `json:"samples"`
	Counters   map[string]int64 `json:"counters"`
	Assume     []string         `json:"assumptions"`
	Violations int              `json:"violations"`
	Known      map[string]int   `json:"known_findings_hit"`
	Observ     []string         `json:"observations"`
	Exhaustive bool             `json:"exhaustive"`
	Extra      map[string]any   `json:"extra"`
	WallS      float64          `json:"wall_s"`
	Vacuous    []string         `json:"vacuous"`
}

// Finish writes the partial evidence and fails the test on violations or vacuity.
func (c *Ctx) Finish() {
	c.mu.Lock()
	if c.finished {
		c.mu.Unlock()
		return
	}
	c.finished = true
	p := partial{Property: c.Prop, Part: c.Part, Tier: c.Tier, Lane: c.Lane, Seed: c.Seed, Evals: c.evals,
		Distinct: len(c.distinct), Rule: c.rule, Samples: c.samples, Counters: c.counters, Assume: c.assume,
		Violations: c.violations, Known: c.knownHits, Observ: c.observ, Exhaustive: c.exhaustive, Extra: c.extra,
		WallS: time.Since(c.start).Seconds()}
	var names []string
	for k := range c.required {
		names = append(names, k)
	}
	sort.Strings(names)
	for _, k := range names {
		if c.counters[k] < c.required[k] {
			p.Vacuous = append(p.Vacuous, fmt.Sprintf("%s=%d<%d", k, c.counters[k], c.required[k]))
		}
	}
	viol := c.violations
	c.mu.Unlock()
	out := os.Getenv("VERIF_OUT")
	if out == "" {
		out = "/verif/build/out"
	}
	os.MkdirAll(out, 0o755)
	b, err := json.MarshalIndent(p, "", " ")
	if err != nil {
		// samples not serialisable: stringify them
		for i := range p.Samples {
			p.Samples[i] = fmt.Sprintf("%+v", p.Samples[i])
		}
		b, _ = json.MarshalIndent(p, "", " ")
	}
	os.WriteFile(filepath.Join(out, fmt.Sprintf("%s.%s.%s.json", c.Prop, c.Part, c.Lane)), b, 0o644)
	fmt.Printf("VERIF-PART property=%s part=%s lane=%s tier=%s seed=%d evaluations=%d distinct=%d violations=%d wall=%.1fs\n",
		c.Prop, c.Part, c.Lane, c.Tier, c.Seed, p.Evals, p.Distinct, viol, p.WallS)
	if len(p.Vacuous) > 0 {
		fmt.Printf("HARNESS-ERROR property=%s part=%s: vacuous run (inconclusive): %v\n", c.Prop, c.Part, p.Vacuous)
		c.t.Fail()
	}
	if viol > 0 {
		c.t.Fail()
	}
}
