package kit

// Shrink is a simple delta-debugging minimiser for operation sequences: it removes chunks while
// fails(seq) stays true, bounded by maxRuns evaluations of fails.
func Shrink[T any](seq []T, maxRuns int, fails func([]T) bool) []T {
	cur := append([]T(nil), seq...)
	runs := 0
	for chunk := len(cur) / 2; chunk >= 1; {
		removed := false
		for start := 0; start+chunk <= len(cur); {
			if runs >= maxRuns {
				return cur
			}
			cand := append(append([]T(nil), cur[:start]...), cur[start+chunk:]...)
			runs++
			if fails(cand) {
				cur = cand
				removed = true
			} else {
				start += chunk
			}
		}
		if !removed || chunk > len(cur) {
			chunk /= 2
		}
		if chunk > len(cur)/2 && len(cur) > 1 {
			chunk = len(cur) / 2
		}
	}
	return cur
}
