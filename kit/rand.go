package kit

import "math/bits"

// Rand is a small deterministic PRNG (splitmix64-seeded xoshiro256**). Every random choice in
// generators, schedulers and fault selection goes through it so that (seed, case index) replays.
type Rand struct{ s [4]uint64 }

func splitmix(x *uint64) uint64 {
	*x += 0x9e3779b97f4a7c15
	z := *x
	z = (z ^ (z >> 30)) * 0xbf58476d1ce4e5b9
	z = (z ^ (z >> 27)) * 0x94d049bb133111eb
	return z ^ (z >> 31)
}

// NewRand derives a generator from a seed and any number of stream indices.
func NewRand(seed uint64, idx ...uint64) *Rand {
	x := seed
	for _, i := range idx {
		x = splitmix(&x) ^ (i * 0xd1342543de82ef95)
	}
	r := &Rand{}
	for i := range r.s {
		r.s[i] = splitmix(&x)
	}
	return r
}

// Rand derives a PRNG for a case of this check.
func (c *Ctx) Rand(idx ...uint64) *Rand { return NewRand(c.Seed, idx...) }

func (r *Rand) Uint64() uint64 {
	s := &r.s
	res := bits.RotateLeft64(s[1]*5, 7) * 9
	t := s[1] << 17
	s[2] ^= s[0]
	s[3] ^= s[1]
	s[1] ^= s[2]
	s[0] ^= s[3]
	s[2] ^= t
	s[3] = bits.RotateLeft64(s[3], 45)
	return res
}

// Intn returns a value in [0,n). n must be > 0.
func (r *Rand) Intn(n int) int {
	if n <= 0 {
		return 0
	}
	return int(r.Uint64() % uint64(n))
}

// Uint64n returns a value in [0,n).
func (r *Rand) Uint64n(n uint64) uint64 {
	if n == 0 {
		return 0
	}
	return r.Uint64() % n
}

// Range returns a value in [lo,hi].
func (r *Rand) Range(lo, hi int) int { return lo + r.Intn(hi-lo+1) }

// Bool returns true with probability 1/2.
func (r *Rand) Bool() bool { return r.Uint64()&1 == 1 }

// Chance returns true with probability num/den.
func (r *Rand) Chance(num, den int) bool { return r.Intn(den) < num }

// Bytes fills a new slice of n random bytes.
func (r *Rand) Bytes(n int) []byte {
	b := make([]byte, n)
	r.Fill(b)
	return b
}

// Fill fills b with random bytes.
func (r *Rand) Fill(b []byte) {
	for i := 0; i < len(b); i += 8 {
		v := r.Uint64()
		for j := 0; j < 8 && i+j < len(b); j++ {
			b[i+j] = byte(v >> (8 * j))
		}
	}
}

// Read implements io.Reader.
func (r *Rand) Read(b []byte) (int, error) { r.Fill(b); return len(b), nil }

// Perm returns a random permutation of [0,n).
func (r *Rand) Perm(n int) []int {
	p := make([]int, n)
	for i := range p {
		p[i] = i
	}
	for i := n - 1; i > 0; i-- {
		j := r.Intn(i + 1)
		p[i], p[j] = p[j], p[i]
	}
	return p
}

// Boundary64 returns a value biased toward 64-bit boundary values.
func (r *Rand) Boundary64() uint64 {
	switch r.Intn(8) {
	case 0:
		return uint64(r.Intn(4))
	case 1:
		return ^uint64(0) - uint64(r.Intn(4))
	case 2:
		k := uint(r.Intn(64))
		return (uint64(1) << k) + uint64(r.Intn(3)) - 1
	case 3:
		return r.Uint64() >> uint(r.Intn(64))
	case 4:
		return uint64(1)<<63 + uint64(r.Intn(3)) - 1
	case 5:
		return uint64(1)<<32 + uint64(r.Intn(3)) - 1
	default:
		return r.Uint64()
	}
}

// Pick returns a random element index weighted by w.
func (r *Rand) Pick(w []int) int {
	t := 0
	for _, x := range w {
		t += x
	}
	if t <= 0 {
		return 0
	}
	v := r.Intn(t)
	for i, x := range w {
		if v < x {
			return i
		}
		v -= x
	}
	return len(w) - 1
}
