#!/usr/bin/env python3
"""Generates /verif/build/<variant>/overlay.json and /verif/build/repo.go.mod from the CURRENT /repo.

 * crypto/{curve25519,batchverifier,vrf}.go are replaced (build-time only) by copies whose
   ${SRCDIR}/libs/linux/amd64 points at /verif/build/libsodium/<variant>.
 * every /verif/harness/<pkgpath>/verif_*.go is injected as /repo/<pkgpath>/verif_*.go
   (in-package monitors and external _test packages; directories that do not exist in /repo are created virtually).
 * repo.go.mod = /repo/go.mod + porcupine + the kit module (replace => /verif/kit).
/repo itself is never written.
"""
import json, os, re, shutil, sys
variant = sys.argv[1] if len(sys.argv) > 1 else "plain"
oname = sys.argv[2] if len(sys.argv) > 2 else "overlay"
patterns = sys.argv[3:]  # globs relative to /verif/harness; empty = every harness file
import fnmatch
REPO = os.environ.get("VERIF_REPO", "/repo")
V = "/verif"
BUILD = os.environ.get("VERIF_BUILD", f"{V}/build")
B = f"{BUILD}/{variant}"
os.makedirs(f"{B}/gen", exist_ok=True)
replace = {}
sod = f"{V}/build/libsodium/{variant}"
for f in ("curve25519.go", "batchverifier.go", "vrf.go"):
    src = f"{REPO}/crypto/{f}"
    txt = open(src).read()
    txt2 = txt.replace("${SRCDIR}/libs/linux/amd64", sod)
    dst = f"{B}/gen/{f}"
    if not os.path.exists(dst) or open(dst).read() != txt2:
        open(dst, "w").write(txt2)
    replace[src] = dst
for root, dirs, files in os.walk(f"{V}/harness"):
    for fn in files:
        if not fn.endswith(".go") and not fn.endswith(".json") and not fn.endswith(".teal"):
            continue
        rel = os.path.relpath(root, f"{V}/harness")
        if patterns and not any(fnmatch.fnmatch(f"{rel}/{fn}", pt) for pt in patterns):
            continue
        if fn.endswith(".go") and not fn.startswith("verif_"):
            sys.exit(f"harness file {root}/{fn} must be named verif_*.go")
        replace[f"{REPO}/{rel}/{fn}"] = f"{root}/{fn}"
ov = json.dumps({"Replace": replace}, indent=1, sort_keys=True)
p = f"{B}/{oname}.json"
if not os.path.exists(p) or open(p).read() != ov:
    open(p, "w").write(ov)
# modfile
mod = open(f"{REPO}/go.mod").read()
mod += "\nrequire github.com/anishathalye/porcupine v1.3.0\nrequire verif.local/kit v0.0.0\nreplace verif.local/kit => /verif/kit\n"
mp = f"{BUILD}/repo.go.mod"
if not os.path.exists(mp) or not open(mp).read().startswith(open(f"{REPO}/go.mod").read()):
    open(mp, "w").write(mod)
    shutil.copy(f"{REPO}/go.sum", f"{BUILD}/repo.go.sum")
    extra = f"{V}/tools/extra.go.sum"
    if os.path.exists(extra):
        open(f"{BUILD}/repo.go.sum", "a").write(open(extra).read())
print(p)
