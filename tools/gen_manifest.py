#!/usr/bin/env python3
"""Regenerates /verif/MANIFEST.json from /verif/checks.json (+ hooks.json) and properties.jsonl."""
import json, os
V = "/verif"
import glob
checks = {os.path.basename(f)[:-5]: json.load(open(f)) for f in sorted(glob.glob(f"{V}/checks/C*.json"))}
props = [json.loads(l) for l in open(f"{V}/properties.jsonl") if l.strip()]
hooks = json.load(open(f"{V}/hooks.json")) if os.path.exists(f"{V}/hooks.json") else {"source_commits": []}
na_reasons = json.load(open(f"{V}/not_applicable.json")) if os.path.exists(f"{V}/not_applicable.json") else {}
m = {
    "version": 1,
    "setup_cmd": "bin/verif setup",
    "hooks": {
        "guard": "verif",
        "enable": "go test -c -tags verif -overlay /verif/build/<variant>/overlay.json -modfile /verif/build/repo.go.mod (the overlay only redirects the libsodium path of three cgo files and injects /verif/harness/**/verif_*_test.go; hook call sites live in /repo behind the build tag `verif`)",
        "baseline_off_cmd": "for m in . ./cmd/partitiontest_linter; do (cd /repo/$m && GOFLAGS=-mod=mod go test -json -vet=off -count=1 -timeout 25m ./...); done",
        "source_commits": hooks.get("source_commits", []),
        "add_only": True,
    },
    "engines": [
        {"name": "verif-driver", "path": "bin/verif", "serves_properties": sorted(checks.keys()),
         "kind_free_text": "runtime monitoring: builds test binaries of the real packages from /repo's working tree (tags verif, optional -race / -asan), runs PRNG-driven hostile workloads with monitors (reference models, differential observation, invariants at hooks), counts data-race reports, merges evidence"},
    ],
    "checks": [],
    "not_applicable": [],
    "notes": "All checks are runtime monitors over executions of the real code (see DESIGN.md). Exit 2 = inconclusive/harness error.",
}
for p in props:
    pid = p["id"]
    if pid in checks:
        c = checks[pid]
        e = {
            "property_id": pid,
            "quick_cmd": f"bin/verif check {pid} --tier quick",
            "thorough_cmd": f"bin/verif check {pid} --tier thorough",
            "evidence_file": f"evidence/{pid}.json",
            "replay_cmd_template": "cat {path}",
            "engine": "verif-driver",
            "level_claimed": {"category": c.get("level", "exploration"), "text": c.get("text", ""), "design_ref": f"DESIGN.md §5 {pid}"},
            "level_note": c.get("note", ""),
            "technique": c.get("technique", "runtime monitoring"),
        }
        m["checks"].append(e)
    else:
        m["not_applicable"].append({"property_id": pid, "reason": na_reasons.get(pid, "monitor designed (DESIGN.md §5) but not built yet; no verdict is claimed for it")})
json.dump(m, open(f"{V}/MANIFEST.json", "w"), indent=1)
print("checks:", len(m["checks"]), "not_applicable:", len(m["not_applicable"]))
