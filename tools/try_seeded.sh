#!/bin/bash
# usage: try_seeded.sh <patch.diff> <Cnn> [tier] — applies the patch to a scratch worktree of /repo HEAD (outside /repo
# and /verif), runs the check against it (VERIF_REPO) and removes the worktree. Prints the check's exit code.
set -u
PATCH=$(realpath "$1"); PROP=$2; TIER=${3:-quick}
WT=/tmp/wt-try-$PROP-$$
git -C /repo worktree add -f "$WT" HEAD -q || exit 3
if ! git -C "$WT" apply "$PATCH"; then echo "PATCH DOES NOT APPLY"; git -C /repo worktree remove --force "$WT"; exit 3; fi
( cd "$WT" && GOFLAGS=-mod=mod GOPROXY=off go build ./util/... >/dev/null 2>&1 )
cd /verif
VERIF_REPO="$WT" bin/verif check "$PROP" --tier "$TIER" > /tmp/try-$PROP-$$.log 2>&1; rc=$?
grep -E "^VIOLATION|^  key=|^\[C" /tmp/try-$PROP-$$.log | cut -c1-300 | head -12
echo "exit=$rc log=/tmp/try-$PROP-$$.log"
B=/verif/build/alt-$(python3 -c "import hashlib,sys;print(hashlib.sha1(sys.argv[1].encode()).hexdigest()[:8])" "$WT"); rm -rf "$B"
git -C /repo worktree remove --force "$WT"
exit $rc
