#!/usr/bin/env python3
"""Rewrites the section '## 12. Seeded changes' of DESIGN.md from /verif/seeded/*/meta.json."""
import glob, json, os, re
V="/verif"
rows=[]
for d in sorted(glob.glob(f"{V}/seeded/*/")):
    name=os.path.basename(d.rstrip("/"))
    try: m=json.load(open(d+"meta.json"))
    except Exception as e: continue
    origin=m.get("origin","")
    src="independent agent" if "independent" in origin else ("reverse of a fix" if "reverse" in origin or "fix" in origin else "harness author")
    det=m.get("detected")
    if det is None: det = bool(m.get("detected_by"))
    keys=(m.get("finding_keys") or m.get("detected_by") or "")
    if isinstance(keys,str): keys=re.sub(r"\s+"," ",keys).strip()[:110]
    needs=re.sub(r"\s+"," ",str(m.get("needs","")))[:170]
    note=" (first missed; check strengthened)" if "first missed" in str(m.get("note","")) else ""
    rows.append(f"| {m.get('property','?')} | `{name}` | {src} | {needs} | {'yes'+note if det else '**NO**'} | {keys} |")
tbl="\n".join(["| Property | Seeded change (dir under /verif/seeded) | Origin | Needs in order to manifest | Caught by its check (quick unless noted) | Finding keys / detail |","|---|---|---|---|---|---|"]+rows)
sec="## 12. Seeded changes and which checks catch them\n\nEvery directory holds patch.diff, the demonstration (fails with the change, passes without) and meta.json. Changes of origin *independent agent* were written by fresh sub-agents that saw only the property text and a scratch worktree (nothing from /verif); each was confirmed in a scratch worktree (applies, builds, pinned 385-test suite still passes, demonstration fails with / passes without) before the property's check was run against it. *reverse of a fix* = the reverse of a genuine-defect repair of §11.1.\n\n"+tbl+"\n"
p=f"{V}/DESIGN.md"; s=open(p).read()
i=s.find("## 12. Seeded changes")
s=(s[:i] if i>=0 else s.rstrip()+"\n\n")+sec
open(p,"w").write(s)
print(len(rows),"rows")
