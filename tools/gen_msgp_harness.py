#!/usr/bin/env python3
"""Regenerates the per-package msgp harness tables for C40/C41 from the CURRENT repo.

For every package on the consensus/network surface it scans <pkg>/msgp_gen.go for the types having
MarshalMsg/UnmarshalMsg and the package sources for allocbound / maxtotalbytes declarations, and writes
  /verif/harness/<pkg>/verif_c40gen.go        in-package (build tag verif): type table + bound table registered with
                                              verif.local/kit/msgpmon (bound expressions are compiled in-package)
  /verif/harness/verifext/msgpall/verif_c40imports_test.go   blank imports of the covered packages
  /verif/harness/verifext/msgpall/verif_msgp_index.txt       covered / not covered msgp_gen.go files
Run by bin/verif before every build (part field "pregen"); the outputs are committed so that a stale
list shows up in git diff.  /repo is only read.
"""
import os, subprocess, sys
V = "/verif"
src = f"{V}/tools/genmsgp"
outdir = f"{V}/build/tools"
os.makedirs(outdir, exist_ok=True)
binp = f"{outdir}/genmsgp"
newest = max(os.path.getmtime(os.path.join(src, f)) for f in os.listdir(src) if f.endswith((".go", ".mod")))
env = dict(os.environ)
env.update({"GOFLAGS": "-mod=mod", "GOPROXY": "off", "GOWORK": "off"})
if not os.path.exists(binp) or os.path.getmtime(binp) < newest:
    r = subprocess.run(["go", "build", "-o", binp + ".tmp", "."], cwd=src, env=env)
    if r.returncode != 0:
        sys.exit("gen_msgp_harness: building the generator failed")
    os.replace(binp + ".tmp", binp)
repo = os.environ.get("VERIF_REPO", "/repo")
sys.exit(subprocess.run([binp, "-repo", repo, "-out", f"{V}/harness"] + sys.argv[1:]).returncode)
