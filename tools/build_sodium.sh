#!/bin/bash
# Builds Algorand's libsodium fork from /repo/crypto/libsodium-fork without autotools.
# usage: build_sodium.sh <variant: plain|asan>
# Output: /verif/build/libsodium/<variant>/{include,lib/libsodium.a}; keyed by a hash of the sources.
set -euo pipefail
VARIANT=${1:-plain}
REPO=${VERIF_REPO:-/repo}
SRC=$REPO/crypto/libsodium-fork/src/libsodium
OUT=/verif/build/libsodium/$VARIANT
KEY=$( (cd "$SRC" && find . -type f \( -name '*.c' -o -name '*.h' -o -name '*.in' \) -print0 | sort -z | xargs -0 sha256sum) | sha256sum | cut -c1-16)
if [ -f "$OUT/.key" ] && [ "$(cat "$OUT/.key")" = "$KEY" ] && [ -f "$OUT/lib/libsodium.a" ]; then exit 0; fi
rm -rf "$OUT"; mkdir -p "$OUT/obj" "$OUT/lib" "$OUT/include/sodium"
W=$OUT/src; mkdir -p "$W"; cp -r "$SRC"/. "$W"/
sed -e 's/@VERSION@/1.0.17/' -e 's/@SODIUM_LIBRARY_VERSION_MAJOR@/10/' -e 's/@SODIUM_LIBRARY_VERSION_MINOR@/2/' -e 's/@SODIUM_LIBRARY_MINIMAL_DEF@//' \
  "$W/include/sodium/version.h.in" > "$W/include/sodium/version.h"
DEFS="-DCONFIGURED=1 -DNATIVE_LITTLE_ENDIAN=1 -DHAVE_TI_MODE=1 -DHAVE_STDINT_H=1 -DHAVE_SYS_MMAN_H=1 -DHAVE_MMAP=1 -DHAVE_MPROTECT=1 -DHAVE_MADVISE=1 -DHAVE_MLOCK=1 -DHAVE_POSIX_MEMALIGN=1 -DHAVE_GETPID=1 -DHAVE_NANOSLEEP=1 -DHAVE_EXPLICIT_BZERO=1 -DHAVE_WEAK_SYMBOLS=1 -DHAVE_INLINE_ASM=1 -DHAVE_ATOMIC_OPS=1 -DHAVE_C_VARARRAYS=1 -DHAVE_GETRANDOM=1 -DHAVE_SYS_RANDOM_H=1 -DHAVE_PTHREAD=1 -D_GNU_SOURCE=1 -DDEV_MODE=0"
CFLAGS="-O2 -fPIC -w"
if [ "$VARIANT" = asan ]; then CFLAGS="-O1 -g -fPIC -w -fsanitize=address,undefined -fno-omit-frame-pointer"; fi
cd "$W"
find . -name '*.c' | grep -Ev 'avx|sse|ssse3|xmm|aesni|_asm|nativeclient' > "$OUT/files.txt"
i=0
compile() { f=$1; o=$OUT/obj/$(echo "$f" | tr '/.' '__').o; gcc $CFLAGS $DEFS -Iinclude/sodium -Iinclude -c "$f" -o "$o"; }
export -f compile; export CFLAGS DEFS OUT
xargs -P "$(nproc)" -I{} bash -c 'compile {}' < "$OUT/files.txt"
ar rcs "$OUT/lib/libsodium.a" "$OUT"/obj/*.o
cp include/sodium.h "$OUT/include/"; cp include/sodium/*.h "$OUT/include/sodium/"
rm -rf "$OUT/obj" "$W"
echo "$KEY" > "$OUT/.key"
echo "built libsodium ($VARIANT) -> $OUT"
