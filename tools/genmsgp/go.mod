module verif.local/genmsgp

go 1.21
