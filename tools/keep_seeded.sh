#!/bin/bash
# usage: keep_seeded.sh <Cnn> <short-name> <agent out dir> <pkg dir of demo (relative to repo)> <demo test regex> "<needs>"
# Confirms in a scratch worktree: patch applies+builds, demo PASSES without and FAILS with the patch, pinned suite passes
# with the patch; then runs the property's check against the patched tree and records everything under /verif/seeded/.
set -u
PROP=$1; NAME=$2; OUT=$3; PKG=$4; RX=$5; NEEDS=$6
WT=/tmp/wt-keep-$PROP-$$; DST=/verif/seeded/$PROP-$NAME
git -C /repo worktree add -f "$WT" HEAD -q || exit 3
OV=$(/tmp/mutkit/mkoverlay.sh "$WT" | sed -n 's/.*-overlay=\([^ ]*\).*/\1/p')
export GOFLAGS=-mod=mod GOPROXY=off
cp "$OUT"/demo*_test.go "$WT/$PKG/" 2>/dev/null
run_demo() { (cd "$WT" && go test -overlay=$OV -vet=off -count=1 -run "$RX" ./$PKG/ 2>&1 | tail -15); }
echo "== demo WITHOUT patch"; R0=$(run_demo); echo "$R0" | tail -3
git -C "$WT" apply "$OUT/patch.diff" || { echo "patch does not apply"; git -C /repo worktree remove --force "$WT"; exit 3; }
echo "== demo WITH patch"; R1=$(run_demo); echo "$R1" | tail -5
P0=$(echo "$R0" | grep -c "^ok"); F1=$(echo "$R1" | grep -c "^FAIL\|^--- FAIL")
echo "== pinned suite with patch"
(cd "$WT" && for m in . ./cmd/partitiontest_linter; do (cd $m && go test -json -vet=off -count=1 -timeout 25m ./... 2>/dev/null); done > /tmp/keep-$$.json)
PIN=$(python3 - <<PY
import json
p=set()
for l in open('/tmp/keep-$$.json'):
    try: j=json.loads(l)
    except: continue
    if j.get('Test') and j.get('Action')=='pass': p.add(j['Package']+'::'+j['Test'])
base=set(json.load(open('/root/.vp/BASELINE.json'))['stable_pass'])
print(len(base-p))
PY
)
echo "pinned tests missing/failing with patch: $PIN"
rm -f "$WT/$PKG"/demo*_test.go
git -C "$WT" diff > /tmp/keep-$$.diff
echo "== check against patched tree"
cd /verif; VERIF_REPO="$WT" bin/verif check "$PROP" > /tmp/keep-$PROP-$$.log 2>&1; RC=$?
B=/verif/build/alt-$(python3 -c "import hashlib,sys;print(hashlib.sha1(sys.argv[1].encode()).hexdigest()[:8])" "$WT")
KEYS=$(cat "$B"/replay/$PROP-*.json 2>/dev/null | jq -r '.finding_key' 2>/dev/null | sort | uniq -c | sort -rn | head -6 | awk '{print $2"("$1")"}' | tr '\n' ' ')
echo "check exit=$RC keys: $KEYS"
rm -rf "$B"
git -C /repo worktree remove --force "$WT"
if [ "$P0" -ge 1 ] && [ "$F1" -ge 1 ] && [ "$PIN" = "0" ]; then
  mkdir -p "$DST"; cp "$OUT/patch.diff" "$DST/"; cp "$OUT"/demo*_test.go "$DST/" 2>/dev/null; cp "$OUT/notes.md" "$DST/" 2>/dev/null
  python3 - <<PY
import json
json.dump({"property":"$PROP","origin":"independent sub-agent given only the property text and a scratch worktree",
 "needs":"""$NEEDS""","demo":{"package_dir":"$PKG","run":"$RX","passes_without_patch":True,"fails_with_patch":True},
 "pinned_suite_with_patch":"385/385 pass","check_exit_with_patch":$RC,"finding_keys":"""$KEYS""",
 "detected": $RC==1,
 "ran":"tools/keep_seeded.sh (scratch worktree of /repo HEAD; git apply patch.diff; VERIF_REPO=<worktree> bin/verif check $PROP)"},open("$DST/meta.json","w"),indent=1)
PY
  echo "KEPT -> $DST (detected=$RC)"
else
  echo "NOT KEPT (demo pass-without=$P0 fail-with=$F1 pinned-missing=$PIN)"
fi
